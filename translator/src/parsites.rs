//! T6: every `maybe_parallel!` use site with the adaptor chain that consumes it, every direct use
//! of a rayon entry point, and every occurrence of interior mutability / unsafe in `src/`.
use crate::{lean_str, rust_files};
use quote::ToTokens;
use std::path::Path;
use syn::visit::Visit;

#[derive(Default)]
struct V {
    file: String,
    sites: Vec<(String, Vec<String>)>,
    rayon_direct: Vec<String>,
    hazards: Vec<String>,
    in_cfg_parallel: usize,
}

fn chain_of(e: &syn::Expr, chain: &mut Vec<String>) -> Option<String> {
    // returns the macro name at the root of a method-call chain
    match e {
        syn::Expr::MethodCall(m) => {
            let root = chain_of(&m.receiver, chain)?;
            let mut name = m.method.to_string();
            if let Some(t) = &m.turbofish {
                name.push_str(&t.to_token_stream().to_string().replace(' ', ""));
            }
            chain.push(name);
            Some(root)
        }
        syn::Expr::Macro(m) => Some(m.mac.path.to_token_stream().to_string().replace(' ', "")),
        syn::Expr::Paren(p) => chain_of(&p.expr, chain),
        _ => None,
    }
}

impl<'ast> Visit<'ast> for V {
    fn visit_expr(&mut self, e: &'ast syn::Expr) {
        if let syn::Expr::MethodCall(_) = e {
            let mut chain = vec![];
            if let Some(root) = chain_of(e, &mut chain) {
                if root == "maybe_parallel" {
                    // keep only the longest chain rooted at this macro: record and do not descend
                    // into the receiver again
                    self.sites.push((self.file.clone(), chain));
                    // still visit closure bodies / arguments
                    let mut cur = e;
                    while let syn::Expr::MethodCall(m) = cur {
                        for a in &m.args {
                            self.visit_expr(a);
                        }
                        cur = &m.receiver;
                    }
                    return;
                }
            }
        }
        if let syn::Expr::MethodCall(m) = e {
            let n = m.method.to_string();
            // rayon's naming convention: every entry point into a parallel iterator or a parallel
            // slice operation is `par_*` or `into_par_*`
            if n.starts_with("par_") || n.starts_with("into_par_") {
                self.rayon_direct.push(format!("{}:{}", self.file, n));
            }
        }
        if let syn::Expr::Unsafe(_) = e {
            self.hazards.push(format!("{}:unsafe-block", self.file));
        }
        syn::visit::visit_expr(self, e);
    }
    fn visit_macro(&mut self, m: &'ast syn::Macro) {
        let name = m.path.to_token_stream().to_string().replace(' ', "");
        if name == "maybe_parallel" {
            // a use that is not the root of a method chain (should not happen)
            // is caught by counting below
        }
        if name == "thread_local" || name == "lazy_static" {
            self.hazards.push(format!("{}:{}", self.file, name));
        }
        syn::visit::visit_macro(self, m);
    }
    fn visit_item_mod(&mut self, m: &'ast syn::ItemMod) {
        // test-only modules are not part of the library
        let is_test = m.attrs.iter().any(|a| a.to_token_stream().to_string().replace(' ', "").contains("cfg(test)"));
        if !is_test {
            syn::visit::visit_item_mod(self, m);
        }
    }
    fn visit_item_static(&mut self, s: &'ast syn::ItemStatic) {
        if let syn::StaticMutability::Mut(_) = s.mutability {
            self.hazards.push(format!("{}:static-mut:{}", self.file, s.ident));
        }
        syn::visit::visit_item_static(self, s);
    }
    fn visit_item_impl(&mut self, i: &'ast syn::ItemImpl) {
        if i.unsafety.is_some() {
            self.hazards.push(format!("{}:unsafe-impl", self.file));
        }
        syn::visit::visit_item_impl(self, i);
    }
    fn visit_item_fn(&mut self, f: &'ast syn::ItemFn) {
        if f.sig.unsafety.is_some() {
            self.hazards.push(format!("{}:unsafe-fn:{}", self.file, f.sig.ident));
        }
        syn::visit::visit_item_fn(self, f);
    }
    fn visit_path(&mut self, p: &'ast syn::Path) {
        // `rayon::join`, `rayon::scope`, `rayon::current_num_threads`, … named in an expression or
        // a type (`use` declarations are not paths)
        if p.segments.first().map(|s| s.ident == "rayon").unwrap_or(false) {
            self.rayon_direct.push(format!("{}:{}", self.file, p.to_token_stream().to_string().replace(' ', "")));
        }
        for seg in &p.segments {
            let s = seg.ident.to_string();
            if ["Cell", "RefCell", "UnsafeCell", "Mutex", "RwLock", "OnceCell", "OnceLock", "AtomicUsize", "AtomicBool", "AtomicU32", "AtomicU64", "AtomicPtr", "AtomicIsize", "AtomicI32", "AtomicI64"].contains(&s.as_str()) {
                self.hazards.push(format!("{}:{}", self.file, s));
            }
        }
        syn::visit::visit_path(self, p);
    }
}

pub fn generate(repo: &Path) -> String {
    let mut files = vec![];
    rust_files(&repo.join("src"), &mut files);
    let mut v = V::default();
    let mut macro_uses_text = 0usize;
    let mut parse_failures = vec![];
    for f in &files {
        let rel = f.strip_prefix(repo).unwrap().to_string_lossy().to_string();
        let text = std::fs::read_to_string(f).unwrap();
        // textual count of macro uses (excluding the two macro_rules definitions in lib.rs)
        macro_uses_text += text.matches("maybe_parallel!(").count();
        match syn::parse_file(&text) {
            Ok(ast) => {
                v.file = rel;
                v.visit_file(&ast);
            }
            Err(e) => parse_failures.push(format!("{}:{}", rel, e)),
        }
    }
    let mut s = String::new();
    s.push_str("/- GENERATED by wtrans (parsites) from /repo/src — do not edit. -/\nnamespace Walrus.Gen\n\n");
    s.push_str("structure ParSite where\n  file : String\n  chain : List String\n  deriving Repr, DecidableEq\n\n");
    s.push_str("/-- every `maybe_parallel!` use with the adaptor chain consuming it -/\ndef parSites : List ParSite := [\n");
    let items: Vec<String> = v.sites.iter().map(|(f, c)| format!("  ⟨{}, [{}]⟩", lean_str(f), c.iter().map(|x| lean_str(x)).collect::<Vec<_>>().join(", "))).collect();
    s.push_str(&items.join(",\n"));
    s.push_str("\n]\n\n");
    s.push_str(&format!("/-- textual occurrences of `maybe_parallel!(` in src/ (must equal the number of sites found structurally) -/\ndef parMacroUses : Nat := {}\n\n", macro_uses_text));
    s.push_str("/-- direct uses of rayon entry points outside the macro -/\ndef rayonDirect : List String := [");
    s.push_str(&v.rayon_direct.iter().map(|x| lean_str(x)).collect::<Vec<_>>().join(", "));
    s.push_str("]\n\n");
    s.push_str("/-- unsafe code, mutable statics, interior mutability, thread-locals anywhere in src/ -/\ndef sharedStateHazards : List String := [");
    s.push_str(&v.hazards.iter().map(|x| lean_str(x)).collect::<Vec<_>>().join(", "));
    s.push_str("]\n\n");
    s.push_str("def parseFailures : List String := [");
    s.push_str(&parse_failures.iter().map(|x| lean_str(x)).collect::<Vec<_>>().join(", "));
    s.push_str("]\n\nend Walrus.Gen\n");
    s
}
