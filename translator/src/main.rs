//! wtrans: regenerate Lean files under Walrus/Gen/ from /repo's *current* source.
//!
//!   wtrans <repo> <outdir> <what>...      what ∈ { parsites, instrspec, ... }
//!
//! Extraction is purely syntactic (syn). Anything of an unexpected shape is emitted as an
//! `unknown` entry, which makes the Lean obligation over the generated table fail (fail closed).
use std::fs;
use std::path::{Path, PathBuf};

mod parsites;
mod instrspec;
mod codestart;
mod parsearms;
mod emitorder;

pub fn rust_files(dir: &Path, out: &mut Vec<PathBuf>) {
    let mut entries: Vec<_> = fs::read_dir(dir).unwrap().map(|e| e.unwrap().path()).collect();
    entries.sort();
    for p in entries {
        if p.is_dir() {
            rust_files(&p, out);
        } else if p.extension().map(|e| e == "rs").unwrap_or(false) {
            out.push(p);
        }
    }
}

pub fn lean_str(s: &str) -> String {
    format!("\"{}\"", s.replace('\\', "\\\\").replace('"', "\\\""))
}

fn main() {
    let args: Vec<String> = std::env::args().collect();
    if args.len() < 4 {
        eprintln!("usage: wtrans <repo> <outdir> <what>...");
        std::process::exit(2);
    }
    let repo = PathBuf::from(&args[1]);
    let outdir = PathBuf::from(&args[2]);
    fs::create_dir_all(&outdir).unwrap();
    for what in &args[3..] {
        let (file, text) = match what.as_str() {
            "parsites" => ("ParSites.lean", parsites::generate(&repo)),
            "instrspec" => ("InstrSpec.lean", instrspec::generate(&repo)),
            "codestart" => ("CodeStart.lean", codestart::generate(&repo)),
            "parsearms" => ("ParseArms.lean", parsearms::generate(&repo)),
            "emitorder" => ("EmitOrder.lean", emitorder::generate(&repo)),
            other => {
                eprintln!("unknown target {}", other);
                std::process::exit(2);
            }
        };
        let path = outdir.join(file);
        // only touch the file when its content changes (keeps lake builds incremental)
        let old = fs::read_to_string(&path).unwrap_or_default();
        if old != text {
            fs::write(&path, &text).unwrap();
            println!("regenerated {}", path.display());
        } else {
            println!("unchanged {}", path.display());
        }
    }
}

