/* Small C program compiled with debug info (-g) to get DWARF sections whose
 * DIE tree has entries with several children (a compile unit with several
 * subprograms, subprograms with several parameters / variables / blocks). */
static int table[4] = {1, 2, 3, 4};

int square(int x) {
  int y = x * x;
  return y;
}

int sum_to(int n) {
  int acc = 0;
  for (int i = 0; i < n; i++) {
    int t = table[i & 3];
    acc += t + i;
  }
  return acc;
}

int choose(int a, int b, int c) {
  if (a > b) {
    int d = a - b;
    return square(d) + c;
  } else {
    int e = b - a;
    return sum_to(e) - c;
  }
}
