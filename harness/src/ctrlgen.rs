//! Control-flow shaped modules with observable markers: every arm of every construct folds a
//! distinct constant into an exported accumulator global, conditions are bits of the parameters, so
//! a dropped arm, a mis-nested `else`, a wrong branch depth or a lost instruction changes what a
//! call returns. Used by the execution suites next to the type-directed generator.
use crate::rng::Rng;
use wasm_encoder::*;

type I = Instruction<'static>;

#[derive(Clone, Copy, PartialEq)]
enum Lab {
    Block,
    Loop,
}

struct G<'a> {
    rng: &'a mut Rng,
    out: Vec<I>,
    labels: Vec<Lab>,
    mark: i32,
    budget: i64,
    loop_depth: u32,
    nfuncs: u32,
    me: u32,
}

impl<'a> G<'a> {
    fn mark(&mut self) {
        self.mark += 1;
        let k = self.mark;
        self.out.extend([I::GlobalGet(0), I::I32Const(31), I::I32Mul, I::I32Const(k), I::I32Add, I::GlobalSet(0)]);
    }
    fn cond(&mut self) {
        let p = self.rng.below(3) as u32;
        let bit = 1 << self.rng.below(4);
        self.out.extend([I::LocalGet(p), I::I32Const(bit), I::I32And]);
    }
    /// labels a plain branch may target (not loops: that would be a back-edge without a counter)
    fn block_targets(&self) -> Vec<u32> {
        let n = self.labels.len();
        (0..n).filter(|&d| self.labels[n - 1 - d] == Lab::Block).map(|d| d as u32).collect()
    }
    fn dead(&mut self) {
        match self.rng.below(4) {
            0 => {}
            1 => self.out.push(I::Nop),
            2 => self.mark(),
            _ => {
                self.out.push(I::Block(BlockType::Empty));
                self.mark();
                self.out.push(I::End);
            }
        }
    }
    fn seq(&mut self, depth: usize) {
        let n = self.rng.range(1, 4);
        for _ in 0..n {
            self.stmt(depth);
        }
    }
    fn stmt(&mut self, depth: usize) {
        self.budget -= 1;
        if self.budget < 0 || depth > 5 {
            self.mark();
            return;
        }
        match self.rng.below(17) {
            16 => {
                // a copy between the module's two memories, in either direction: a marker is stored
                // in the source, copied, read back from the destination and folded into the accumulator
                let (src, dst) = if self.rng.chance(1, 2) { (0u32, 1u32) } else { (1, 0) };
                self.mark += 1;
                let (sa, da) = (4 * self.rng.below(50) as i32, 1024 + 4 * self.rng.below(50) as i32);
                self.out.extend([
                    I::I32Const(sa),
                    I::I32Const(7000 + self.mark),
                    I::I32Store(MemArg { offset: 0, align: 2, memory_index: src }),
                    I::I32Const(da),
                    I::I32Const(sa),
                    I::I32Const(4),
                    I::MemoryCopy { src_mem: src, dst_mem: dst },
                    I::GlobalGet(0),
                    I::I32Const(da),
                    I::I32Load(MemArg { offset: 0, align: 2, memory_index: dst }),
                    I::I32Add,
                    I::GlobalSet(0),
                ]);
            }
            14 | 15 => {
                // value-carrying labels: one or two nested `block (result i32)`, left through a
                // `br_table` with 0..3 targets (the index is popped first, the value is carried),
                // a `br` or a `br_if`; the result is folded into the accumulator
                let two = self.rng.chance(1, 2);
                self.out.push(I::Block(BlockType::Result(ValType::I32)));
                if two {
                    self.out.push(I::Block(BlockType::Result(ValType::I32)));
                }
                self.mark += 1;
                self.out.push(I::I32Const(1000 + self.mark));
                let depth = if two { 2 } else { 1 };
                match self.rng.below(3) {
                    0 => {
                        let n = self.rng.below(4) as usize;
                        let ls: Vec<u32> = (0..n).map(|_| self.rng.below(depth) as u32).collect();
                        let d = self.rng.below(depth) as u32;
                        self.cond();
                        self.out.push(I::BrTable(ls.into(), d));
                    }
                    1 => {
                        self.cond();
                        self.out.push(I::BrIf(self.rng.below(depth) as u32));
                    }
                    _ => {
                        self.out.push(I::Br(self.rng.below(depth) as u32));
                        if self.rng.chance(1, 2) {
                            self.out.push(I::Nop);
                        }
                    }
                }
                if two {
                    self.out.push(I::End);
                    self.out.extend([I::I32Const(3), I::I32Add]);
                }
                self.out.push(I::End);
                self.out.extend([I::GlobalGet(0), I::I32Add, I::GlobalSet(0)]);
            }
            0 | 1 => self.mark(),
            2 => self.out.push(I::Nop),
            3 | 4 | 5 => {
                // if with or without else; either arm may be empty
                self.cond();
                self.out.push(I::If(BlockType::Empty));
                self.labels.push(Lab::Block);
                if self.rng.chance(4, 5) {
                    self.seq(depth + 1);
                }
                if self.rng.chance(3, 5) {
                    self.out.push(I::Else);
                    if self.rng.chance(4, 5) {
                        self.seq(depth + 1);
                    }
                }
                self.labels.pop();
                self.out.push(I::End);
            }
            6 | 7 => {
                self.out.push(I::Block(BlockType::Empty));
                self.labels.push(Lab::Block);
                self.seq(depth + 1);
                self.labels.pop();
                self.out.push(I::End);
            }
            8 => {
                if self.loop_depth >= 3 {
                    self.mark();
                    return;
                }
                // counted loop: local 3 + loop_depth is the counter
                let ctr = 3 + self.loop_depth;
                let times = self.rng.range(1, 3) as i32;
                self.out.extend([I::I32Const(0), I::LocalSet(ctr), I::Loop(BlockType::Empty)]);
                self.labels.push(Lab::Loop);
                self.loop_depth += 1;
                self.seq(depth + 1);
                self.loop_depth -= 1;
                self.out.extend([I::LocalGet(ctr), I::I32Const(1), I::I32Add, I::LocalTee(ctr), I::I32Const(times), I::I32LtU, I::BrIf(0)]);
                self.labels.pop();
                self.out.push(I::End);
            }
            9 => {
                let t = self.block_targets();
                if t.is_empty() {
                    self.mark();
                    return;
                }
                let l = *self.rng.pick(&t);
                self.cond();
                self.out.push(I::BrIf(l));
            }
            10 => {
                let t = self.block_targets();
                if t.is_empty() {
                    self.mark();
                    return;
                }
                let l = *self.rng.pick(&t);
                self.out.push(I::Br(l));
                self.dead();
            }
            11 => {
                let t = self.block_targets();
                if t.len() < 2 {
                    self.mark();
                    return;
                }
                let n = self.rng.range(1, 3) as usize;
                let ls: Vec<u32> = (0..n).map(|_| *self.rng.pick(&t)).collect();
                let d = *self.rng.pick(&t);
                self.cond();
                self.out.push(I::BrTable(ls.into(), d));
                self.dead();
            }
            12 => {
                // leave the function with the accumulator
                if self.rng.chance(1, 2) {
                    self.out.extend([I::GlobalGet(0), I::Return]);
                } else {
                    self.out.extend([I::GlobalGet(0), I::Br(self.labels.len() as u32)]);
                }
                self.dead();
            }
            _ => {
                // call a later function (no recursion), fold its result
                if self.me + 1 < self.nfuncs {
                    let f = self.rng.range(self.me as u64 + 1, self.nfuncs as u64 - 1) as u32;
                    self.out.extend([I::LocalGet(1), I::LocalGet(2), I::LocalGet(0), I::Call(f), I::Drop]);
                }
                self.mark();
            }
        }
    }
}

pub fn ctrl_module(rng: &mut Rng) -> Vec<u8> {
    let nfuncs = rng.range(1, 3) as u32;
    let mut module = Module::new();
    let mut types = TypeSection::new();
    types.function([ValType::I32, ValType::I32, ValType::I32], [ValType::I32]);
    module.section(&types);
    let mut funcs = FunctionSection::new();
    for _ in 0..nfuncs {
        funcs.function(0);
    }
    module.section(&funcs);
    let mut mems = MemorySection::new();
    for _ in 0..2 {
        mems.memory(MemoryType { minimum: 1, maximum: Some(1), memory64: false, shared: false, page_size_log2: None });
    }
    module.section(&mems);
    let mut globals = GlobalSection::new();
    globals.global(GlobalType { val_type: ValType::I32, mutable: true, shared: false }, &ConstExpr::i32_const(0));
    module.section(&globals);
    let mut exports = ExportSection::new();
    for f in 0..nfuncs {
        exports.export(&format!("c{}", f), ExportKind::Func, f);
    }
    exports.export("acc", ExportKind::Global, 0);
    module.section(&exports);
    let mut code = CodeSection::new();
    let mut mark = 0;
    for f in 0..nfuncs {
        let budget = *rng.pick(&[6i64, 14, 30]);
        let mut g = G { rng, out: vec![], labels: vec![], mark, budget, loop_depth: 0, nfuncs, me: f };
        g.seq(0);
        g.out.push(I::GlobalGet(0));
        g.out.push(I::End);
        mark = g.mark;
        let mut func = Function::new([(3, ValType::I32)]);
        for i in &g.out {
            func.instruction(i);
        }
        code.function(&func);
    }
    module.section(&code);
    module.finish()
}
