//! C18: `replace_imported_func` / `replace_exported_func` through the public API with generated
//! bodies; the specified result (Lean, `Walrus/Replace.lean`) and the real output must be observed
//! identically by the Lean interpreter, and the structural facts of the property are checked on
//! the independently decoded output.
use crate::decode::{self, AMod, ImportDesc, Space};
use crate::execsuite::exec_cfg;
use crate::gen;
use crate::modtext;
use crate::out;
use crate::rng::Rng;
use walrus::ir::BinaryOp;
use walrus::{FunctionId, GlobalId, LocalId, ModuleConfig};

/// custom section that reads, at emit time, the output index of one function identifier
#[derive(Debug)]
struct WhereIs(walrus::FunctionId, std::sync::Arc<std::sync::Mutex<Option<u32>>>);
impl walrus::CustomSection for WhereIs {
    fn name(&self) -> &str {
        "verif.whereis"
    }
    fn data(&self, ids: &walrus::IdsToIndices) -> std::borrow::Cow<[u8]> {
        *self.1.lock().unwrap() = Some(ids.get_func_index(self.0));
        std::borrow::Cow::Borrowed(&[])
    }
}

#[derive(Clone, Debug)]
enum Stmt {
    /// call function (input index) with constant arguments, drop the results
    CallDrop(u32, Vec<(String, u64)>, usize),
    /// g := g + c for a mutable i32 global
    Bump(u32, i32),
    /// scratch local number k (allocated by the caller before the edit, as an extension has to: the
    /// builder closure has no access to the module's locals) := const; read back and dropped
    Scratch(usize, String, u64),
}
#[derive(Clone, Debug)]
enum Res {
    Arg(usize),
    Const(String, u64),
}
#[derive(Clone, Debug)]
enum Body {
    Unreachable,
    /// forward the arguments to function `f` (same signature) and return what it returns
    Forward(u32),
    Plain(Vec<Stmt>, Vec<Res>),
}

fn const_of(rng: &mut Rng, ty: &str) -> (String, u64) {
    let v = match ty {
        "i32" => *rng.pick(&[0u64, 1, 7, 0xffff_ffff, 65536, 42]),
        "i64" => *rng.pick(&[0u64, 1, 0xffff_ffff_ffff_ffff, 1 << 40, 9]),
        "f32" => *rng.pick(&[0u64, 0x3f80_0000, 0x4049_0fdb, 0xc000_0000]),
        "f64" => *rng.pick(&[0u64, 0x3ff0_0000_0000_0000, 0x4009_21fb_5444_2d18]),
        _ => 0,
    };
    (ty.to_string(), v)
}

fn gen_body(rng: &mut Rng, a: &AMod, target: u32, forward_ok: bool) -> Option<Body> {
    let (params, results) = a.types[a.func_type(target)? as usize].clone();
    let all: Vec<&String> = params.iter().chain(results.iter()).collect();
    if all.iter().any(|t| !["i32", "i64", "f32", "f64", "funcref", "externref"].contains(&t.as_str())) {
        return None;
    }
    if rng.chance(1, 8) {
        return Some(Body::Unreachable);
    }
    if forward_ok && rng.chance(1, 2) {
        return Some(Body::Forward(target));
    }
    let nfuncs = a.count(Space::Func);
    let mut stmts = vec![];
    for _ in 0..rng.below(3) {
        if rng.chance(2, 3) {
            let j = rng.below(nfuncs as u64) as u32;
            if j == target {
                continue;
            }
            let (ps, rs) = a.types[a.func_type(j)? as usize].clone();
            if ps.iter().chain(rs.iter()).any(|t| !["i32", "i64", "f32", "f64", "funcref", "externref"].contains(&t.as_str())) {
                continue;
            }
            stmts.push(Stmt::CallDrop(j, ps.iter().map(|t| const_of(rng, t)).collect(), rs.len()));
        } else {
            let mut gs = vec![];
            let mut k = 0u32;
            for i in &a.imports {
                if let ImportDesc::Global(g) = &i.desc {
                    if g.mutable && g.ty == "i32" {
                        gs.push(k);
                    }
                    k += 1;
                }
            }
            for (g, _) in &a.globals {
                if g.mutable && g.ty == "i32" {
                    gs.push(k);
                }
                k += 1;
            }
            if !gs.is_empty() {
                stmts.push(Stmt::Bump(*rng.pick(&gs), rng.range(1, 9) as i32));
            }
        }
    }
    let mut nscratch = 0;
    for _ in 0..rng.below(3) {
        if rng.chance(1, 2) {
            let t = *rng.pick(&["i32", "i64", "f64"]);
            let c = const_of(rng, t);
            stmts.push(Stmt::Scratch(nscratch, c.0, c.1));
            nscratch += 1;
        }
    }
    let res = results
        .iter()
        .map(|t| {
            let same: Vec<usize> = (0..params.len()).filter(|&i| &params[i] == t).collect();
            if !same.is_empty() && rng.chance(2, 3) {
                Res::Arg(*rng.pick(&same))
            } else {
                let c = const_of(rng, t);
                Res::Const(c.0, c.1)
            }
        })
        .collect();
    Some(Body::Plain(stmts, res))
}

fn const_text(ty: &str, v: u64) -> String {
    match ty {
        "i32" => format!("I32Const/i:{}", v),
        "i64" => format!("I64Const/i:{}", v),
        "f32" => format!("F32Const/i:{}", v),
        "f64" => format!("F64Const/i:{}", v),
        "externref" => "RefNull/i:extern".into(),
        _ => "RefNull/i:func".into(),
    }
}

/// the body as operator text over *input* indices (what the specification is given)
fn body_text(b: &Body, nparams: usize) -> String {
    let mut o: Vec<String> = vec![];
    match b {
        Body::Unreachable => o.push("Unreachable".into()),
        Body::Forward(f) => {
            for i in 0..nparams {
                o.push(format!("LocalGet/x:{}", i));
            }
            o.push(format!("Call/f:{}", f));
        }
        Body::Plain(stmts, res) => {
            for s in stmts {
                match s {
                    Stmt::CallDrop(j, args, nres) => {
                        for (t, v) in args {
                            o.push(const_text(t, *v));
                        }
                        o.push(format!("Call/f:{}", j));
                        for _ in 0..*nres {
                            o.push("Drop".into());
                        }
                    }
                    Stmt::Bump(g, c) => {
                        o.push(format!("GlobalGet/g:{}", g));
                        o.push(format!("I32Const/i:{}", *c as u32));
                        o.push("I32Add".into());
                        o.push(format!("GlobalSet/g:{}", g));
                    }
                    Stmt::Scratch(k, t, v) => {
                        o.push(const_text(t, *v));
                        o.push(format!("LocalSet/x:{}", nparams + k));
                        o.push(format!("LocalGet/x:{}", nparams + k));
                        o.push("Drop".into());
                    }
                }
            }
            for r in res {
                match r {
                    Res::Arg(i) => o.push(format!("LocalGet/x:{}", i)),
                    Res::Const(t, v) => o.push(const_text(t, *v)),
                }
            }
        }
    }
    o.push("End".into());
    let tys = scratch_types(b);
    if !tys.is_empty() {
        o.insert(0, format!("locals:{}", tys.join(",")));
    }
    o.join(" ")
}

fn scratch_types(b: &Body) -> Vec<String> {
    match b {
        Body::Plain(stmts, _) => stmts.iter().filter_map(|s| if let Stmt::Scratch(_, t, _) = s { Some(t.clone()) } else { None }).collect(),
        _ => vec![],
    }
}

fn build(b: &Body, body: &mut walrus::InstrSeqBuilder, args: &[LocalId], fids: &[FunctionId], gids: &[GlobalId], scratch: &[LocalId]) {
    let konst = |body: &mut walrus::InstrSeqBuilder, t: &str, v: u64| match t {
        "i32" => {
            body.i32_const(v as u32 as i32);
        }
        "i64" => {
            body.i64_const(v as i64);
        }
        "f32" => {
            body.f32_const(f32::from_bits(v as u32));
        }
        "f64" => {
            body.f64_const(f64::from_bits(v));
        }
        "externref" => {
            body.ref_null(walrus::RefType::Externref);
        }
        _ => {
            body.ref_null(walrus::RefType::Funcref);
        }
    };
    match b {
        Body::Unreachable => {
            body.unreachable();
        }
        Body::Forward(f) => {
            for a in args {
                body.local_get(*a);
            }
            body.call(fids[*f as usize]);
        }
        Body::Plain(stmts, res) => {
            for s in stmts {
                match s {
                    Stmt::CallDrop(j, cargs, nres) => {
                        for (t, v) in cargs {
                            konst(body, t, *v);
                        }
                        body.call(fids[*j as usize]);
                        for _ in 0..*nres {
                            body.drop();
                        }
                    }
                    Stmt::Bump(g, c) => {
                        body.global_get(gids[*g as usize]);
                        body.i32_const(*c);
                        body.binop(BinaryOp::I32Add);
                        body.global_set(gids[*g as usize]);
                    }
                    Stmt::Scratch(k, t, v) => {
                        konst(body, t, *v);
                        body.local_set(scratch[*k]);
                        body.local_get(scratch[*k]);
                        body.drop();
                    }
                }
            }
            for r in res {
                match r {
                    Res::Arg(i) => {
                        body.local_get(args[*i]);
                    }
                    Res::Const(t, v) => konst(body, t, *v),
                }
            }
        }
    }
}

#[derive(Default)]
struct Stats {
    imp: usize,
    exp: usize,
    rejected: usize,
    forward: usize,
    with_callers: usize,
}

fn run_case(case: &str, wasm: &[u8], kind_imp: bool, pick: u64, seed: u64, stats: &mut Stats) {
    let only = format!("{} {} {} {}", if kind_imp { "imp" } else { "exp" }, pick, seed, out::hex(wasm));
    let Ok(a) = decode::decode(wasm) else { return };
    let n_imp = a.n_imported(Space::Func);
    // the target: an imported function / the function of an export entry (imported ones included:
    // the edit must refuse those)
    let target: u32 = if kind_imp {
        if n_imp == 0 {
            return;
        }
        (pick % n_imp as u64) as u32
    } else {
        let ex: Vec<u32> = a.exports.iter().filter(|e| e.kind == Space::Func).map(|e| e.index).collect();
        if ex.is_empty() {
            return;
        }
        ex[(pick % ex.len() as u64) as usize]
    };
    let mut rng = Rng::new(seed, pick);
    let expect_reject = !kind_imp && target < n_imp;
    let Some(body) = gen_body(&mut rng, &a, target, !kind_imp && !expect_reject) else { return };
    let nparams = a.types[a.func_type(target).unwrap() as usize].0.len();
    let mut cfg = ModuleConfig::new();
    cfg.generate_name_section(false);
    cfg.generate_producers_section(false);
    let Ok(Ok(mut m)) = out::catch(|| cfg.parse(wasm)) else {
        out::oracle(case, false, "C05:valid-module-rejected-or-panic", &format!("parse failed | only: {}", only));
        return;
    };
    let fids: Vec<FunctionId> = m.funcs.iter().map(|f| f.id()).collect();
    let gids: Vec<GlobalId> = m.globals.iter().map(|g| g.id()).collect();
    let mut fails: Vec<(String, String)> = vec![];
    let fid = fids[target as usize];
    let scratch: Vec<LocalId> = scratch_types(&body)
        .iter()
        .map(|t| {
            m.locals.add(match t.as_str() {
                "i32" => walrus::ValType::I32,
                "i64" => walrus::ValType::I64,
                _ => walrus::ValType::F64,
            })
        })
        .collect();
    let edited = out::catch(|| {
        if kind_imp {
            m.replace_imported_func(fid, |(b, args)| build(&body, b, args, &fids, &gids, &scratch)).map(|id| (id, id == fid))
        } else {
            m.replace_exported_func(fid, |(b, args)| build(&body, b, args, &fids, &gids, &scratch)).map(|id| (id, id != fid))
        }
    });
    let mut replacement: Option<FunctionId> = None;
    match edited {
        Err(p) => {
            fails.push(("C18:edit-panicked".into(), format!("the edit panicked: {}", &p[..p.len().min(160)])));
            report(case, fails, &only);
            return;
        }
        Ok(Err(_)) => {
            stats.rejected += 1;
            if !expect_reject {
                fails.push(("C18:edit-refused".into(), "the edit returned an error on a replaceable function".into()));
            }
            // a refused edit must leave the module as it was: compare emitted bytes' decoded form with a plain round trip
            let after = m.emit_wasm();
            let plain = cfg.parse(wasm).unwrap().emit_wasm();
            if after != plain {
                fails.push(("C18:refused-edit-changed-module".into(), "a refused edit changed the emitted module".into()));
            }
            report(case, fails, &only);
            return;
        }
        Ok(Ok((new_id, id_ok))) => {
            replacement = Some(new_id);
            if expect_reject {
                fails.push(("C18:import-replaced-as-export".into(), "replace_exported_func accepted an imported function".into()));
            }
            if !id_ok {
                fails.push(("C18:returned-identifier".into(), if kind_imp { "replace_imported_func returned a different identifier".into() } else { "replace_exported_func returned the original identifier".into() }));
            }
        }
    }
    if kind_imp { stats.imp += 1 } else { stats.exp += 1 }
    if matches!(body, Body::Forward(_)) {
        stats.forward += 1;
    }
    let whereis = std::sync::Arc::new(std::sync::Mutex::new(None));
    if let Some(id) = replacement {
        m.customs.add(WhereIs(id, whereis.clone()));
    }
    let bytes = match out::catch(|| m.emit_wasm()) {
        Ok(b) => b,
        Err(p) => {
            fails.push(("C18:emit-panicked-after-edit".into(), format!("emit panicked: {}", &p[..p.len().min(160)])));
            report(case, fails, &only);
            return;
        }
    };
    if let Err(e) = decode::validate(&bytes, decode::walrus_features(false)) {
        // was the retargeted export the only thing that declared the original function for ref.func?
        let t = target;
        let is_ref = |x: &decode::Arg| *x == decode::Arg::Ref(Space::Func, t);
        let ref_func_in_body = a.code.iter().any(|bd| bd.ops.iter().any(|o| o.is("RefFunc") && o.args.iter().any(is_ref)));
        let n_exports = a.exports.iter().filter(|e| e.kind == Space::Func && e.index == t).count();
        let declared_elsewhere = a.elems.iter().any(|el| match &el.items {
            decode::ElemItems::Funcs(fs) => fs.contains(&t),
            decode::ElemItems::Exprs(_, es) => es.iter().any(|c| c.ops().iter().any(|o| o.args.iter().any(is_ref))),
        }) || a.globals.iter().any(|(_, c)| c.ops().iter().any(|o| o.args.iter().any(is_ref)));
        let key = if !kind_imp && ref_func_in_body && n_exports == 1 && !declared_elsewhere && e.to_string().contains("undeclared function reference") {
            "C18:invalid-output-ref-func-target-lost-its-only-declaration"
        } else {
            "C18:invalid-output"
        };
        fails.push((key.into(), format!("the edited module does not validate: {}", e)));
        report(case, fails, &only);
        return;
    }
    let b = decode::decode(&bytes).expect("decode output");
    // ---- structural facts
    let imp_list = |m: &AMod| -> Vec<(String, String, String)> { m.imports.iter().map(|i| (i.module.clone(), i.name.clone(), format!("{:?}", match &i.desc { ImportDesc::Func(t) => format!("func {:?}", m.types.get(*t as usize)), d => format!("{:?}", d) }))).collect() };
    let mut want_imports = imp_list(&a);
    if kind_imp {
        // remove the target-th function import
        let mut k = 0;
        let mut pos = None;
        for (i, im) in a.imports.iter().enumerate() {
            if let ImportDesc::Func(_) = im.desc {
                if k == target {
                    pos = Some(i);
                }
                k += 1;
            }
        }
        want_imports.remove(pos.unwrap());
    }
    if imp_list(&b) != want_imports {
        fails.push(("C18:imports-not-exactly-minus-one".into(), format!("imports after the edit: {:?}, expected {:?}", imp_list(&b).len(), want_imports.len())));
    }
    let ex = |m: &AMod| -> Vec<(String, Space)> { m.exports.iter().map(|e| (e.name.clone(), e.kind)).collect() };
    if ex(&a) != ex(&b) {
        fails.push(("C18:exports-changed".into(), "export names / kinds / order differ after the edit".into()));
    }
    for (x, y) in a.exports.iter().zip(b.exports.iter()) {
        if x.kind == Space::Func {
            let (sa, sb) = (a.func_type(x.index).and_then(|t| a.types.get(t as usize)), b.func_type(y.index).and_then(|t| b.types.get(t as usize)));
            if sa != sb {
                fails.push(("C18:signature-changed".into(), format!("export {:?}: signature {:?} became {:?}", x.name, sa, sb)));
            }
        }
    }
    // the start section stays with the function it named: after replacing an exported function, the
    // retargeted export names the new function, the start section (if it named the original) must not
    if !kind_imp && a.start == Some(target) {
        if let Some(pos) = a.exports.iter().position(|e| e.kind == Space::Func && e.index == target) {
            if let Some(e2) = b.exports.get(pos) {
                if b.start == Some(e2.index) {
                    fails.push(("C18:start-retargeted".into(), "the start section named the replaced function and now names the replacement: only the export may be retargeted".into()));
                }
            }
        }
    }
    // element segments stay with the function they named: a table slot initialised with the original
    // function is an internal reference, and internal references keep reaching the original
    if !kind_imp {
        if let Some(pos) = a.exports.iter().position(|e| e.kind == Space::Func && e.index == target) {
            if let Some(e2) = b.exports.get(pos) {
                for (k, (ea, eb)) in a.elems.iter().zip(b.elems.iter()).enumerate() {
                    let names = |m_target: u32, e: &decode::AElem| -> Vec<bool> {
                        match &e.items {
                            decode::ElemItems::Funcs(fs) => fs.iter().map(|f| *f == m_target).collect(),
                            decode::ElemItems::Exprs(_, es) => es.iter().map(|c| c.ops().iter().any(|o| o.args.iter().any(|x| *x == decode::Arg::Ref(Space::Func, m_target)))).collect(),
                        }
                    };
                    let (orig, repl) = (names(target, ea), names(e2.index, eb));
                    if orig.len() == repl.len() && orig.iter().zip(repl.iter()).any(|(o, r)| *o && *r) {
                        fails.push(("C18:element-segment-retargeted".into(), format!("element segment {} named the replaced function and now names the replacement: only the export may be retargeted", k)));
                    }
                }
            }
        }
    }
    // the replacement reads *its own* parameters: every argument the generated body reads is a
    // `local.get` of an index below the parameter count in the emitted function (scratch locals and
    // nothing else sit above)
    if !kind_imp {
        if let Some(pos) = a.exports.iter().position(|e| e.kind == Space::Func && e.index == target) {
            if let Some(e2) = b.exports.get(pos) {
                let np = a.func_type(target).and_then(|t| a.types.get(t as usize)).map(|t| t.0.len()).unwrap_or(0);
                let want_reads = match &body {
                    Body::Unreachable => 0,
                    Body::Forward(_) => np,
                    Body::Plain(_, res) => res.iter().filter(|r| matches!(r, Res::Arg(_))).count(),
                };
                let bni = b.n_imported(Space::Func);
                if e2.index >= bni {
                    if let Some(code) = b.code.get((e2.index - bni) as usize) {
                        let got_reads = code.ops.iter().filter(|o| o.name == "LocalGet" && matches!(o.args.first(), Some(decode::Arg::Ref(Space::Local, i)) if (*i as usize) < np)).count();
                        if got_reads != want_reads {
                            fails.push(("C18:replacement-does-not-read-its-parameters".into(), format!("the generated body reads {} arguments, the emitted replacement has {} reads of its {} parameters", want_reads, got_reads, np)));
                            fails.push(("C15:replacement-parameter-not-at-its-position".into(), format!("a replacement body built from the argument locals handed to the builder reads {} arguments, the emitted function has {} reads of its {} parameter positions", want_reads, got_reads, np)));
                        }
                    }
                }
            }
        }
    }
    // the body that was built is the body that is written: operator by operator, by name (indices are
    // renumbered, names are not), for the replacement wherever the emitter put it
    if let Some(idx) = *whereis.lock().unwrap() {
        let bni = b.n_imported(Space::Func);
        let np = a.func_type(target).and_then(|t| a.types.get(t as usize)).map(|t| t.0.len()).unwrap_or(0);
        if idx >= bni {
            if let Some(code) = b.code.get((idx - bni) as usize) {
                let want: Vec<String> = body_text(&body, np).split(' ').filter(|t| !t.starts_with("locals:")).map(|t| t.split('/').next().unwrap_or("").to_string()).collect();
                let got: Vec<String> = code.ops.iter().map(|o| o.name.to_string()).collect();
                if want != got {
                    fails.push(("C18:replacement-body-differs-from-what-was-built".into(), format!("built {:?}, emitted {:?}", want, got)));
                    fails.push(("C15:built-replacement-body-is-not-what-is-emitted".into(), format!("built {:?}, emitted {:?}", want, got)));
                }
            }
        } else {
            fails.push(("C18:replacement-is-an-import".into(), format!("the replacement function is emitted at index {}, among the imports", idx)));
        }
    }
    let want_funcs = a.count(Space::Func) + if kind_imp { 0 } else { 1 };
    if b.count(Space::Func) != want_funcs {
        fails.push(("C18:function-count".into(), format!("{} functions after the edit, expected {}", b.count(Space::Func), want_funcs)));
    }
    // does anything inside the module refer to the target (callers, element segments)?
    let t = target;
    let referenced = a.code.iter().any(|bd| bd.ops.iter().any(|o| o.args.iter().any(|x| *x == decode::Arg::Ref(Space::Func, t))))
        || a.elems.iter().any(|e| match &e.items {
            decode::ElemItems::Funcs(fs) => fs.contains(&t),
            decode::ElemItems::Exprs(_, es) => es.iter().any(|c| c.ops().iter().any(|o| o.args.iter().any(|x| *x == decode::Arg::Ref(Space::Func, t)))),
        });
    if referenced {
        stats.with_callers += 1;
    }
    // ---- behaviour: specified module vs real output
    let req = format!(
        "replace {} {} {} 2 300 {} ;; {} || {}",
        if kind_imp { "imp" } else { "exp" },
        target,
        seed % 1000000007,
        body_text(&body, nparams),
        modtext::module_text(&a, false, false),
        modtext::module_text(&b, false, false)
    );
    // (C15 looks at this suite for the builder's part only: parameters at their positions, the
    // built body emitted as built; the behavioural tie belongs to C18)
    if std::env::var("VERIF_PROPERTY").unwrap_or_default() != "C15" {
        out::corr(case, referenced || !kind_imp, &req, "same");
    }
    report(case, fails, &only);
}

fn report(case: &str, mut fails: Vec<(String, String)>, only: &str) {
    if std::env::var("VERIF_PROPERTY").unwrap_or_default() == "C15" {
        fails.retain(|f| f.0.starts_with("C15:"));
    } else {
        fails.retain(|f| !f.0.starts_with("C15:"));
    }
    if fails.is_empty() {
        out::oracle(case, true, "", "");
    } else {
        let mut seen = std::collections::HashSet::new();
        for (k, t) in fails {
            if seen.insert(k.clone()) {
                out::oracle(case, false, &k, &format!("{} | only: {}", t, only));
            }
        }
    }
}

pub fn main(seed: u64, tier: &str, only: Option<&str>) {
    let mut stats = Stats::default();
    if let Some(o) = only {
        let f: Vec<&str> = o.split(' ').collect();
        run_case("replay", &out::unhex(f[3]), f[0] == "imp", f[1].parse().unwrap(), f[2].parse().unwrap(), &mut stats);
        return;
    }
    let n = if tier == "thorough" { 6000 * crate::out::thorough_scale() } else { 500 };
    for case in 0..n {
        let mut rng = Rng::new(seed ^ 0xc18, case as u64);
        let mut g = exec_cfg(&mut rng, case);
        g.max_funcs = g.max_funcs.max(3);
        g.big_offsets = false; // D5 (memarg offsets >= 2^32) is reported under C01/C03/C06
        let (wasm, _) = gen::gen_valid(&mut rng, &g);
        run_case(&format!("r{}", case), &wasm, case % 2 == 0, rng.next() % 1000, rng.next() % 1000000007, &mut stats);
    }
    out::stat("replace.imported_edits", stats.imp);
    out::stat("replace.exported_edits", stats.exp);
    out::stat("replace.refused_edits", stats.rejected);
    out::stat("replace.forwarding_bodies", stats.forward);
    out::stat("replace.target_referenced_inside_module", stats.with_callers);
}
