//! Suite `dwarf` (C10): synthesised well-formed DWARF through walrus with `generate_dwarf(true)`.
use crate::code;
use crate::decode::{self, AMod, Space};
use crate::gen::{self, GenCfg};
use crate::offsets::{self, Seen, Spy, Variant};
use crate::out;
use crate::rng::Rng;
use gimli::write::{self, Address, AttributeValue, EndianVec, LineProgram, LineString, Sections, Unit};
use gimli::{Encoding, Format, LineEncoding, LittleEndian};
use std::sync::{Arc, Mutex};
use walrus::ModuleConfig;

pub fn append_custom(wasm: &mut Vec<u8>, name: &str, data: &[u8]) {
    let mut payload = vec![];
    leb(&mut payload, name.len() as u64);
    payload.extend_from_slice(name.as_bytes());
    payload.extend_from_slice(data);
    wasm.push(0);
    leb(wasm, payload.len() as u64);
    wasm.extend_from_slice(&payload);
}
fn leb(out: &mut Vec<u8>, mut v: u64) {
    loop {
        let b = (v & 0x7f) as u8;
        v >>= 7;
        if v == 0 {
            out.push(b);
            break;
        }
        out.push(b | 0x80);
    }
}

#[derive(Clone, Debug)]
pub struct InRow {
    pub addr: u64, // relative to the contents of the input code section
    pub line: u64,
    pub func: usize, // input local-function ordinal
    pub op: usize,   // operator index in the input body
}
#[derive(Clone, Debug)]
pub struct InSeq {
    pub base: u64,
    pub rows: Vec<InRow>,
    pub end: u64,
}
#[derive(Clone, Debug, Default)]
pub struct InDwarf {
    pub seqs: Vec<InSeq>,
    pub subprograms: Vec<(u64, u64)>, // (low_pc, length), one per local function in input order
    pub version: u16,
}

/// synthesise DWARF for `wasm`: one subprogram per function, one row per instruction;
/// `span` = how many consecutive functions share one line sequence (1 = a sequence per function)
/// In a version-5 line program written by gimli, make every `DW_LNS_set_file 2` name file 0
/// instead (the primary source file, a valid index in DWARF 5 that `gimli::write` itself never
/// produces). Returns how many operands were patched.
fn patch_file0(d: &mut [u8]) -> usize {
    if d.len() < 20 || u16::from_le_bytes([d[4], d[5]]) != 5 {
        return 0;
    }
    let unit_end = 4 + u32::from_le_bytes([d[0], d[1], d[2], d[3]]) as usize;
    let header_len = u32::from_le_bytes([d[8], d[9], d[10], d[11]]) as usize;
    let opcode_base = d[17] as usize;
    let lengths: Vec<u8> = d[18..18 + opcode_base - 1].to_vec();
    let mut p = 12 + header_len;
    let mut patched = 0;
    let uleb = |d: &[u8], p: &mut usize| -> u64 {
        let (mut v, mut sh) = (0u64, 0);
        loop {
            let b = d[*p];
            *p += 1;
            v |= ((b & 0x7f) as u64) << sh;
            sh += 7;
            if b & 0x80 == 0 {
                return v;
            }
        }
    };
    while p < unit_end.min(d.len()) {
        let op = d[p] as usize;
        p += 1;
        if op == 0 {
            let len = uleb(d, &mut p) as usize;
            p += len;
        } else if op >= opcode_base {
            // special opcode: no operands
        } else if op == 9 {
            p += 2; // DW_LNS_fixed_advance_pc: one u16
        } else {
            for k in 0..lengths[op - 1] {
                if op == 4 && k == 0 && d[p] == 2 {
                    d[p] = 0;
                    patched += 1;
                }
                uleb(d, &mut p);
            }
        }
    }
    patched
}

pub fn synthesize(wasm: &[u8], a: &AMod, version: u16, span: usize) -> (Vec<u8>, InDwarf) {
    // version 55 = DWARF 5 with rows that name file index 0
    let (version, file0) = if version == 55 { (5, true) } else { (version, false) };
    let encoding = Encoding { format: Format::Dwarf32, version, address_size: 4 };
    let mut dwarf = write::Dwarf::new();
    let comp_dir = LineString::new(&b"/verif"[..], encoding, &mut dwarf.line_strings);
    let comp_file = LineString::new(&b"unit.c"[..], encoding, &mut dwarf.line_strings);
    let mut program = LineProgram::new(encoding, LineEncoding::default(), comp_dir, comp_file, None);
    let dir = program.default_directory();
    let n1 = LineString::new(&b"a.c"[..], encoding, &mut dwarf.line_strings);
    let n2 = LineString::new(&b"b.c"[..], encoding, &mut dwarf.line_strings);
    let f1 = program.add_file(n1, dir, None);
    let f2 = program.add_file(n2, dir, None);
    // a module without a code section: a unit with no line sequences and no subprograms
    let content = a.code_section_range.map(|r| r.0).unwrap_or(0) as u64;
    let mut info = InDwarf { version, ..Default::default() };
    let mut line = 1u64;
    let nf = a.code.len();
    let mut k = 0;
    while k < nf {
        let group: Vec<usize> = (k..(k + span).min(nf)).collect();
        let first = &a.code[group[0]];
        let base = first.ops[0].offset as u64 - content;
        program.begin_sequence(Some(Address::Constant(base)));
        let mut seq = InSeq { base, rows: vec![], end: 0 };
        for &fi in &group {
            for (oi, op) in a.code[fi].ops.iter().enumerate() {
                let addr = op.offset as u64 - content;
                let row = program.row();
                row.address_offset = addr - base;
                row.line = line;
                row.file = if fi % 2 == 0 { f1 } else { f2 };
                row.column = (oi % 7) as u64;
                program.generate_row();
                seq.rows.push(InRow { addr, line, func: fi, op: oi });
                line += 1;
            }
        }
        let last = &a.code[*group.last().unwrap()];
        let end = last.body_range.1 as u64 - content;
        program.end_sequence(end - base);
        seq.end = end;
        info.seqs.push(seq);
        k += span;
    }
    let mut unit = Unit::new(encoding, program);
    let root = unit.root();
    unit.get_mut(root).set(gimli::DW_AT_name, AttributeValue::String(b"unit.c".to_vec()));
    unit.get_mut(root).set(gimli::DW_AT_low_pc, AttributeValue::Address(Address::Constant(0)));
    for body in &a.code {
        let sp = unit.add(root, gimli::DW_TAG_subprogram);
        let low = body.body_range.0 as u64 - content;
        let len = (body.body_range.1 - body.body_range.0) as u64;
        unit.get_mut(sp).set(gimli::DW_AT_low_pc, AttributeValue::Address(Address::Constant(low)));
        unit.get_mut(sp).set(gimli::DW_AT_high_pc, AttributeValue::Udata(len));
        info.subprograms.push((low, len));
        // children, so that entries with children are followed by siblings (as in any compiled
        // unit): a lexical block covering the body from its first instruction, or a parameter
        // without addresses; every third subprogram stays childless
        let ord = info.subprograms.len() - 1;
        if ord % 3 == 0 {
            let first = body.ops[0].offset as u64 - content;
            let end = body.body_range.1 as u64 - content;
            let blk = unit.add(sp, gimli::DW_TAG_lexical_block);
            unit.get_mut(blk).set(gimli::DW_AT_low_pc, AttributeValue::Address(Address::Constant(first)));
            unit.get_mut(blk).set(gimli::DW_AT_high_pc, AttributeValue::Udata(end - first));
            let var = unit.add(blk, gimli::DW_TAG_variable);
            unit.get_mut(var).set(gimli::DW_AT_name, AttributeValue::String(b"v".to_vec()));
        } else if ord % 3 == 1 {
            let par = unit.add(sp, gimli::DW_TAG_formal_parameter);
            unit.get_mut(par).set(gimli::DW_AT_name, AttributeValue::String(b"p".to_vec()));
        }
    }
    dwarf.units.add(unit);
    let mut sections = Sections::new(EndianVec::new(LittleEndian));
    dwarf.write(&mut sections).expect("write dwarf");
    let mut out = wasm.to_vec();
    sections
        .for_each(|id, data| -> Result<(), ()> {
            if !data.slice().is_empty() {
                let mut bytes = data.slice().to_vec();
                if file0 && id.name() == ".debug_line" {
                    patch_file0(&mut bytes);
                }
                append_custom(&mut out, id.name(), &bytes);
            }
            Ok(())
        })
        .unwrap();
    (out, info)
}

#[derive(Debug, Clone)]
pub struct OutDwarf {
    pub rows: Vec<(u64, u64, bool)>, // (address, line, end_sequence)
    pub subprograms: Vec<(u64, u64)>,
}

pub fn read_back(m: &AMod) -> Result<OutDwarf, String> {
    use gimli::read;
    let load = |id: gimli::SectionId| -> Result<gimli::EndianSlice<LittleEndian>, gimli::Error> {
        let data = m.customs.iter().find(|c| c.name == id.name()).map(|c| &c.data[..]).unwrap_or(&[]);
        Ok(gimli::EndianSlice::new(data, LittleEndian))
    };
    let dwarf = read::Dwarf::load(load).map_err(|e| e.to_string())?;
    let mut rows = vec![];
    let mut subprograms = vec![];
    let mut units = dwarf.units();
    while let Some(h) = units.next().map_err(|e| e.to_string())? {
        let unit = dwarf.unit(h).map_err(|e| e.to_string())?;
        let mut entries = unit.entries();
        while let Some((_, e)) = entries.next_dfs().map_err(|e| e.to_string())? {
            if e.tag() == gimli::DW_TAG_subprogram {
                let low = match e.attr_value(gimli::DW_AT_low_pc).map_err(|e| e.to_string())? {
                    Some(read::AttributeValue::Addr(a)) => a,
                    _ => u64::MAX,
                };
                let high = match e.attr_value(gimli::DW_AT_high_pc).map_err(|e| e.to_string())? {
                    Some(read::AttributeValue::Udata(a)) => a,
                    _ => u64::MAX,
                };
                subprograms.push((low, high));
            }
        }
        if let Some(p) = unit.line_program.clone() {
            let mut r = p.rows();
            while let Some((_, row)) = r.next_row().map_err(|e| e.to_string())? {
                rows.push((row.address(), row.line().map(|l| l.get()).unwrap_or(0), row.end_sequence()));
            }
        }
    }
    Ok(OutDwarf { rows, subprograms })
}

#[derive(Default)]
pub struct Stats {
    pub cases: usize,
    pub rows_in: usize,
    pub rows_out: usize,
    pub rows_dropped_live: usize,
    pub samples: usize,
}

pub fn run_case(case: &str, wasm0: &[u8], version: u16, span: usize, variant: Variant, stats: &mut Stats) {
    let Ok(a) = decode::decode(wasm0) else { return };
    if a.code.is_empty() || a.code.iter().any(|c| c.ops.is_empty()) {
        return;
    }
    // `span` also carries the order in which the two switches DWARF generation depends on are set:
    // +100 = `preserve_code_transform(false)` after `generate_dwarf(true)`, +200 = before it
    let (order, span_arg) = (span / 100, span);
    let span = span % 100;
    let (wasm, info) = synthesize(wasm0, &a, version, span);
    let only = format!("{:?} {} {} {}", variant, version, span_arg, out::hex(wasm0));
    let seen = Arc::new(Mutex::new(Seen::default()));
    let mut cfg = ModuleConfig::new();
    if order == 2 {
        cfg.preserve_code_transform(false);
    }
    cfg.generate_dwarf(true);
    if order == 1 {
        cfg.preserve_code_transform(false);
    }
    let Ok(Ok(mut m)) = out::catch(|| cfg.parse(&wasm)) else {
        out::oracle(case, false, "C10:parse-failed", &format!("parse of a module with synthesised DWARF failed | only: {}", only));
        return;
    };
    m.customs.add(Spy(seen.clone()));
    let ni = a.n_imported(Space::Func) as usize;
    // input local-function ordinal -> (position among the surviving operators, operators inserted
    // there): at the start of the entry sequence, behind its first instruction when that is a plain
    // one, or at its end (an inserted instruction then has parsed neighbours with line rows)
    let mut inserted: std::collections::HashMap<usize, (usize, usize)> = Default::default();
    if variant == Variant::Inserted {
        let ids: Vec<_> = m.funcs.iter_local().map(|(id, _)| id).collect();
        for (k, id) in ids.iter().enumerate() {
            if k % 2 == 0 {
                let ord = id.index() - ni;
                let survivors = a.code.get(ord).map(|c| code::elide(&c.ops).len()).unwrap_or(1);
                let f = m.funcs.get_mut(*id).kind.unwrap_local_mut();
                let entry = f.entry_block();
                let len = f.block(entry).instrs.len();
                let first_is_plain = f.block(entry).instrs.first().map(|(i, _)| !matches!(i, walrus::ir::Instr::Block(_) | walrus::ir::Instr::Loop(_) | walrus::ir::Instr::IfElse(_))).unwrap_or(false);
                let (pos, flat) = match (k / 2) % 3 {
                    1 if first_is_plain => (1, 1),
                    2 => (len, survivors.saturating_sub(1)),
                    _ => (0, 0),
                };
                f.builder_mut().instr_seq(entry).drop_at(pos).const_at(pos, walrus::ir::Value::I32(7));
                inserted.insert(ord, (flat, 2));
            }
        }
    }
    if variant == Variant::Gc {
        walrus::passes::gc::run(&mut m);
    }
    let bytes = match out::catch(|| m.emit_wasm()) {
        Ok(b) => b,
        Err(p) => {
            out::corr(case, true, "dwarf-skip", "dwarf-skip");
            out::oracle(case, false, "C10:emit-panic", &format!("[{:?} v{} span{}] emit with DWARF generation panicked: {} | only: {}", variant, version, span, &p[..p.len().min(120)], only));
            return;
        }
    };
    let b = decode::decode(&bytes).expect("decode output");
    let s = seen.lock().unwrap().clone();
    let od = match read_back(&b) {
        Ok(o) => o,
        Err(e) => {
            out::oracle(case, false, "C10:output-dwarf-unreadable", &format!("{} | only: {}", e, only));
            return;
        }
    };
    stats.cases += 1;
    stats.rows_in += info.seqs.iter().map(|s| s.rows.len()).sum::<usize>();
    stats.rows_out += od.rows.len();
    let out_content = b.code_section_range.map(|r| r.0).unwrap_or(0);

    // ---- oracle
    // where does input operator (func k, op i) start in the output?  (None: not in the output)
    let mut out_of_in: std::collections::HashMap<usize, usize> = Default::default();
    let bni = b.n_imported(Space::Func) as usize;
    for (r, idx) in s.ranges.iter().zip(s.range_index.iter()) {
        if r.0.index() >= ni && (*idx as usize) >= bni {
            out_of_in.insert(r.0.index() - ni, *idx as usize - bni);
        }
    }
    let mut out_addr: std::collections::HashMap<(usize, usize), u64> = Default::default();
    for (k, body) in a.code.iter().enumerate() {
        let Some(&j) = out_of_in.get(&k) else { continue };
        // align the elided input stream with the output stream
        let e = code::elide(&body.ops);
        let (at, shift) = inserted.get(&k).copied().unwrap_or((0, 0));
        let ob = &b.code[j];
        if e.len() + shift != ob.ops.len() {
            continue;
        }
        // map input op index -> elided index via offsets
        let mut idx_of_off: std::collections::HashMap<usize, usize> = Default::default();
        for (ei, op) in e.iter().enumerate() {
            idx_of_off.entry(op.offset).or_insert(ei);
        }
        for (oi, op) in body.ops.iter().enumerate() {
            if let Some(&ei) = idx_of_off.get(&op.offset) {
                // the elided stream keeps the operator itself (same name) or, for the `end` of an
                // `if` without `else`, its stand-in `else`
                out_addr.insert((k, oi), (ob.ops[if ei < at { ei } else { ei + shift }].offset - out_content) as u64);
            }
        }
    }
    let mut by_line: std::collections::HashMap<u64, &InRow> = Default::default();
    for sq in &info.seqs {
        for r in &sq.rows {
            by_line.insert(r.line, r);
        }
    }
    let mut fails: Vec<(String, String)> = vec![];
    let mut seen_lines = std::collections::HashSet::new();
    // the base of each output sequence as written (= address of its first row), per line
    let mut written_base: std::collections::HashMap<u64, u64> = Default::default();
    {
        let mut cur: Option<u64> = None;
        for (addr, line, end) in &od.rows {
            if *end {
                cur = None;
                continue;
            }
            let b = *cur.get_or_insert(*addr);
            written_base.insert(*line, b);
        }
    }
    if std::env::var("VERIF_DUMP").is_ok() {
        eprintln!("IN  {:?}", info.seqs.iter().map(|sq| (sq.base, sq.rows.iter().map(|r| (r.addr, r.line, r.func, r.op)).collect::<Vec<_>>(), sq.end)).collect::<Vec<_>>());
        eprintln!("OUT {:?}", od.rows);
    }
    // index of the output sequence each output row belongs to
    let mut out_seq_of_row: Vec<usize> = vec![];
    {
        let mut k = 0;
        for (_, _, end) in &od.rows {
            out_seq_of_row.push(k);
            if *end {
                k += 1;
            }
        }
    }
    let mut invented_in_seq: Vec<(usize, u64)> = vec![];
    let mut clamped_out_seqs: std::collections::HashSet<usize> = Default::default();
    for (ri, (addr, line, end)) in od.rows.iter().enumerate() {
        if *end {
            continue;
        }
        let Some(r) = by_line.get(line) else {
            // decided below: inside a sequence that was clamped (open finding) the writer's encoding
            // of the following rows is garbage, line numbers included
            invented_in_seq.push((out_seq_of_row[ri], *line));
            continue;
        };
        seen_lines.insert(*line);
        match out_addr.get(&(r.func, r.op)) {
            Some(want) => {
                if want != addr {
                    // open finding: inside a sequence that spans several functions, a row whose
                    // function was emitted *before* the sequence's first instruction is clamped
                    // (saturating_sub) to the sequence base
                    let seq = info.seqs.iter().find(|sq| sq.rows.iter().any(|x| x.line == *line)).unwrap();
                    // the base is the first row's instruction; when that instruction was elided walrus
                    // resolves the base through the function's range instead, and the base is what was
                    // written
                    let base_out = out_addr.get(&(seq.rows[0].func, seq.rows[0].op)).copied().or_else(|| written_base.get(line).copied());
                    // some live row of this sequence lies before the sequence base in the output:
                    // its offset is clamped to 0 and every later row of the sequence is then encoded
                    // relative to a decreasing address (gimli's writer cannot express that)
                    let clamped = span > 1 && seq.rows.iter().any(|x| match (out_addr.get(&(x.func, x.op)), base_out) { (Some(w), Some(b)) => *w < b, _ => false });
                    if clamped {
                        clamped_out_seqs.insert(out_seq_of_row[ri]);
                    }
                    fails.push((
                        if clamped { "C10:row-clamped-to-sequence-base-in-multi-function-sequence".into() } else { "C10:row-address-wrong".into() },
                        format!("row line {} (input function {}, operator #{} at {}): output address {}, but that instruction starts at {} in the output", line, r.func, r.op, r.addr, addr, want),
                    ));
                }
            }
            None => {
                if *addr != 0xFFFF_FFFF {
                    let seq = info.seqs.iter().find(|sq| sq.rows.iter().any(|x| x.line == *line)).unwrap();
                    let base_out = out_addr.get(&(seq.rows[0].func, seq.rows[0].op)).copied();
                    let clamped = span > 1 && seq.rows.iter().any(|x| match (out_addr.get(&(x.func, x.op)), base_out) { (Some(w), Some(b)) => *w < b, _ => false });
                    if clamped {
                        clamped_out_seqs.insert(out_seq_of_row[ri]);
                    }
                    fails.push((if clamped { "C10:row-clamped-to-sequence-base-in-multi-function-sequence".into() } else { "C10:row-for-removed-code".into() }, format!("row line {} belongs to removed code (function {}, operator #{}) but is kept with address {}", line, r.func, r.op, addr)));
                }
            }
        }
    }
    // an output sequence also counts as clamped when the input sequence it comes from (found through
    // any row whose line is known) has a live row that lies before the sequence's base in the output
    for (ri, (_, line, end)) in od.rows.iter().enumerate() {
        if *end {
            continue;
        }
        if by_line.contains_key(line) {
            if let Some(seq) = info.seqs.iter().find(|sq| sq.rows.iter().any(|x| x.line == *line)) {
                let base_out = out_addr.get(&(seq.rows[0].func, seq.rows[0].op)).copied().or_else(|| written_base.get(line).copied());
                if span > 1 && seq.rows.iter().any(|x| match (out_addr.get(&(x.func, x.op)), base_out) { (Some(w), Some(b)) => *w < b, _ => false }) {
                    clamped_out_seqs.insert(out_seq_of_row[ri]);
                }
            }
        }
    }
    for (sq, line) in invented_in_seq {
        if clamped_out_seqs.contains(&sq) {
            fails.push(("C10:row-clamped-to-sequence-base-in-multi-function-sequence".into(), format!("output row with line {} that no input row has, in a sequence whose rows were clamped", line)));
        } else {
            fails.push(("C10:row-invented".into(), format!("output row with line {} that no input row has", line)));
        }
    }
    for (line, r) in &by_line {
        if out_addr.contains_key(&(r.func, r.op)) && !seen_lines.contains(line) {
            stats.rows_dropped_live += 1;
        }
    }
    // subprograms: same order as input functions
    if od.subprograms.len() != info.subprograms.len() {
        fails.push(("C10:subprogram-count".into(), format!("{} subprograms in, {} out", info.subprograms.len(), od.subprograms.len())));
    } else {
        for (k, (low, high)) in od.subprograms.iter().enumerate() {
            match out_of_in.get(&k) {
                Some(&j) => {
                    let ob = &b.code[j];
                    let (wl, wh) = ((ob.body_range.0 - out_content) as u64, (ob.body_range.1 - ob.body_range.0) as u64);
                    let in_leb = (a.code[k].body_range.0 - a.code[k].entry_range.0) as i64;
                    let out_leb = (ob.body_range.0 - ob.entry_range.0) as i64;
                    let exact = (*low, *high) == (wl, wh);
                    // an edited function: the range must lie within the function's entry and span
                    // every instruction that stems from the input (first original operator .. body end)
                    let first_orig = (ob.ops[match inserted.get(&k) { Some((0, n)) => *n, _ => 0 }].offset - out_content) as u64;
                    let entry_lo = (ob.entry_range.0 - out_content) as u64;
                    let covers = *low != 0xFFFF_FFFF && *low >= entry_lo && *low <= first_orig && low.wrapping_add(*high) == wl + wh;
                    let ok = if inserted.contains_key(&k) { covers } else { exact };
                    if !ok {
                        let first_elided = code::elide(&a.code[k].ops).first().map(|o| o.offset) != a.code[k].ops.first().map(|o| o.offset);
                        let no_locals = a.code[k].ops[0].offset - a.code[k].body_range.0 == 1;
                        let key = if *low == 0xFFFF_FFFF && first_elided && no_locals {
                            "C10:subprogram-tombstoned-because-first-instruction-was-elided"
                        } else if in_leb != out_leb && (*low as i64 - wl as i64) == in_leb - out_leb && low.wrapping_add(*high) == wl + wh {
                            "C10:subprogram-low-pc-off-by-size-leb-length-change"
                        } else {
                            "C10:subprogram-range"
                        };
                        fails.push((key.into(), format!("subprogram of input function {}: range {}+{}, the function's body in the output is {}+{} (size-LEB lengths in/out: {}/{})", k, low, high, wl, wh, in_leb, out_leb)));
                    }
                }
                None => {
                    if *low != 0xFFFF_FFFF && *low != 0 {
                        fails.push(("C10:subprogram-of-removed-function".into(), format!("subprogram of removed function {} keeps low_pc {}", k, low)));
                    }
                }
            }
        }
    }
    let any_clamped = fails.iter().any(|f| f.0.starts_with("C10:row-clamped"));
    // ---- correspondence: the address logic + row loop over abstract rows
    {
        let in_content = a.code_section_range.unwrap().0;
        let mut req = String::from("dwarf G");
        // ranges (start, end, id) relative to the input contents: [size LEB start, body end)
        for (k, body) in a.code.iter().enumerate() {
            req.push_str(&format!(" {}:{}:{}", body.entry_range.0 - in_content, body.entry_range.1 - in_content, ni + k));
        }
        req.push_str(" I");
        for body in &a.code {
            for op in &body.ops {
                req.push_str(&format!(" {}:{}", op.offset - in_content, op.offset));
            }
        }
        req.push_str(&format!(" T {} R", s.start));
        for r in &s.ranges {
            req.push_str(&format!(" {}:{}:{}", r.0.index(), r.1, r.2));
        }
        req.push_str(" M");
        for p in &s.map {
            req.push_str(&format!(" {}:{}", p.0, p.1));
        }
        req.push_str(" S");
        for sp in &info.subprograms {
            req.push_str(&format!(" {}:{}", sp.0, sp.1));
        }
        req.push_str(" L");
        for sq in &info.seqs {
            req.push_str(&format!(" a{}", sq.base));
            for r in &sq.rows {
                req.push_str(&format!(" r{}:{}", r.addr - sq.base, r.line));
            }
            req.push_str(&format!(" e{}", sq.end - sq.base));
        }
        let obs = format!(
            "S {} L {}",
            od.subprograms.iter().map(|p| format!("{}:{}", p.0, p.1)).collect::<Vec<_>>().join(" "),
            od.rows.iter().map(|r| if r.2 { format!("e{}", r.0) } else { format!("r{}:{}", r.0, r.1) }).collect::<Vec<_>>().join(" ")
        );
        if !any_clamped {
            out::corr(case, a.code.len() > 1, &req, &obs);
        }
        if stats.samples < 2 && req.len() < 900 {
            out::sample(&format!("{} => {}", req, obs));
            stats.samples += 1;
        }
    }

    if fails.is_empty() {
        out::oracle(case, true, "", "");
    } else {
        let mut keys = std::collections::HashSet::new();
        for (k, msg) in fails.iter() {
            if keys.insert(k.clone()) {
                out::oracle(case, false, k, &format!("[{:?} v{} span{}] {} | only: {}", variant, version, span, msg, only));
            }
        }
    }
}

pub fn main(seed: u64, tier: &str, only: Option<&str>) {
    let mut stats = Stats::default();
    if let Some(o) = only {
        let f: Vec<&str> = o.split(' ').collect();
        let v = match f[0] {
            "Inserted" => Variant::Inserted,
            "Gc" => Variant::Gc,
            _ => Variant::Unchanged,
        };
        run_case("replay", &out::unhex(f[3]), f[1].parse().unwrap(), f[2].parse().unwrap(), v, &mut stats);
        return;
    }
    let n = if tier == "thorough" { 2000 * crate::out::thorough_scale() } else { 120 };
    for case in 0..n {
        let mut rng = Rng::new(seed ^ 0xd3a2f, case as u64);
        let mut g = if case % 3 == 0 { GenCfg::mvp() } else { GenCfg::random(&mut rng) };
        let v = [Variant::Unchanged, Variant::Unchanged, Variant::Inserted, Variant::Gc][(case / 3) % 4];
        // (in the GC variant some functions have to be dead, or the pass removes nothing and the
        // debug info of removed functions is never looked at)
        g.export_all_funcs = v != Variant::Gc || case % 8 == 3;
        g.import_mem64 = false;
        g.big_offsets = false;
        g.extern_elem_global = false;
        g.customs = false;
        g.names = false;
        g.producers = false;
        let (wasm, _) = gen::gen_valid(&mut rng, &g);
        let version = if case % 2 == 0 { 4 } else if case % 6 == 5 { 55 } else { 5 };
        let span = [1usize, 1, 2, 3][(case / 2) % 4] + [0usize, 0, 0, 100, 200][case % 5];
        run_case(&format!("d{}", case), &wasm, version, span, v, &mut stats);
    }
    let shapes: &[(usize, usize)] = if tier == "thorough" { &[(1, 10), (2, 126), (2, 127), (2, 128), (2, 129), (127, 10), (128, 10), (129, 10), (300, 16383), (300, 16384)] } else { &[(1, 10), (2, 127), (2, 128), (127, 10), (128, 10)] };
    for (k, (nf, pad)) in shapes.iter().enumerate() {
        let wasm = offsets::many(*nf, *pad);
        for v in [Variant::Unchanged, Variant::Inserted] {
            run_case(&format!("many{}-{:?}", k, v), &wasm, 4, 1, v, &mut stats);
        }
    }
    let ishapes: &[(usize, usize, usize)] = if tier == "thorough" { &[(125, 10, 3), (126, 10, 3), (127, 10, 3), (127, 10, 1), (128, 10, 2), (2, 127, 2)] } else { &[(126, 10, 3), (127, 10, 1)] };
    for (k, (nf, pad, ni)) in ishapes.iter().enumerate() {
        let wasm = offsets::many_with_imports(*nf, *pad, *ni);
        for v in [Variant::Unchanged, Variant::Inserted] {
            run_case(&format!("imany{}-{:?}", k, v), &wasm, if k % 2 == 0 { 4 } else { 5 }, 1, v, &mut stats);
        }
    }
    // body sizes on both sides of a LEB-length boundary, functions with locals (the subprogram's
    // low_pc = body start is then not adjacent to an instruction and resolves through the function's
    // range)
    let eshapes: &[usize] = if tier == "thorough" { &[63, 64, 65, 127, 128, 129, 16383, 16384, 16385] } else { &[64, 127, 128, 129] };
    for (k, size) in eshapes.iter().enumerate() {
        let wasm = offsets::exact_with_locals(3, *size);
        run_case(&format!("exact{}", k), &wasm, if k % 2 == 0 { 4 } else { 5 }, 1, Variant::Unchanged, &mut stats);
    }
    out::stat("dwarf.cases", stats.cases);
    out::stat("dwarf.rows_in", stats.rows_in);
    out::stat("dwarf.rows_out", stats.rows_out);
    out::stat("dwarf.rows_of_live_instructions_dropped", stats.rows_dropped_live);
}
