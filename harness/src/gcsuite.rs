//! Suite `gc` (C07, C06, C02): the GC pass, and emission after the pass / after API edits.
use crate::decode::{self, AMod, Arg, Bt, CExpr, DataMode, ElemItems, ElemMode, ImportDesc, Space};
use crate::gen::{self, GenCfg};
use crate::modtext;
use crate::out;
use crate::rng::Rng;
use std::collections::HashSet;
use walrus::{FunctionBuilder, Module, ModuleConfig, ValType};

type Ent = (Space, u32);

fn cexpr_refs(c: &CExpr, out: &mut Vec<Ent>) {
    for op in c.ops() {
        for a in &op.args {
            if let Arg::Ref(sp, n) = a {
                out.push((*sp, *n));
            }
        }
    }
}

/// reachability over a *binary* (independent of walrus): what is referenced from the roots the
/// property lists
pub fn reachable(m: &AMod) -> HashSet<Ent> {
    reachable_with(m, false)
}

/// `live_code_only`: operands of syntactically unreachable code do not count (walrus drops that code
/// while parsing; used when the *input* is analysed)
pub fn reachable_with(m: &AMod, live_code_only: bool) -> HashSet<Ent> {
    reachable_from(m, live_code_only, &[])
}

/// `extra`: roots declared by custom sections
pub fn reachable_from(m: &AMod, live_code_only: bool, extra: &[Ent]) -> HashSet<Ent> {
    let mut seen: HashSet<Ent> = HashSet::new();
    let mut todo: Vec<Ent> = vec![];
    let push = |e: Ent, seen: &mut HashSet<Ent>, todo: &mut Vec<Ent>| {
        if seen.insert(e) {
            todo.push(e);
        }
    };
    for e in extra {
        push(*e, &mut seen, &mut todo);
    }
    for e in &m.exports {
        push((e.kind, e.index), &mut seen, &mut todo);
    }
    if let Some(s) = m.start {
        push((Space::Func, s), &mut seen, &mut todo);
    }
    let nit = m.n_imported(Space::Table);
    for (i, d) in m.datas.iter().enumerate() {
        if let DataMode::Active { .. } = d.mode {
            push((Space::Data, i as u32), &mut seen, &mut todo);
        }
    }
    for (i, e) in m.elems.iter().enumerate() {
        match &e.mode {
            ElemMode::Active { table, .. } => {
                if table.unwrap_or(0) < nit {
                    push((Space::Elem, i as u32), &mut seen, &mut todo);
                }
            }
            ElemMode::Declared => push((Space::Elem, i as u32), &mut seen, &mut todo),
            ElemMode::Passive => {}
        }
    }
    let nif = m.n_imported(Space::Func);
    let nig = m.n_imported(Space::Global);
    let imported_func_types: Vec<u32> = m.imports.iter().filter_map(|i| if let ImportDesc::Func(t) = i.desc { Some(t) } else { None }).collect();
    while let Some((sp, i)) = todo.pop() {
        let mut next: Vec<Ent> = vec![];
        match sp {
            Space::Func => {
                if i < nif {
                    next.push((Space::Type, imported_func_types[i as usize]));
                } else if let Some(body) = m.code.get((i - nif) as usize) {
                    next.push((Space::Type, m.funcs[(i - nif) as usize]));
                    let live;
                    let ops: &Vec<decode::AOp> = if live_code_only {
                        live = crate::code::elide(&body.ops);
                        &live
                    } else {
                        &body.ops
                    };
                    for op in ops {
                        for a in &op.args {
                            match a {
                                Arg::Ref(Space::Local, _) | Arg::Ref(Space::Label, _) => {}
                                Arg::Ref(s2, n) => next.push((*s2, *n)),
                                Arg::Bt(Bt::Ty(t)) => next.push((Space::Type, *t)),
                                _ => {}
                            }
                        }
                    }
                }
            }
            Space::Table => {
                for (k, e) in m.elems.iter().enumerate() {
                    if let ElemMode::Active { table, .. } = &e.mode {
                        if table.unwrap_or(0) == i {
                            next.push((Space::Elem, k as u32));
                        }
                    }
                }
            }
            Space::Global => {
                if i >= nig {
                    if let Some((_, init)) = m.globals.get((i - nig) as usize) {
                        cexpr_refs(init, &mut next);
                    }
                }
            }
            Space::Mem => {
                for (k, d) in m.datas.iter().enumerate() {
                    if let DataMode::Active { mem, .. } = &d.mode {
                        if *mem == i {
                            next.push((Space::Data, k as u32));
                        }
                    }
                }
            }
            Space::Data => {
                if let Some(d) = m.datas.get(i as usize) {
                    if let DataMode::Active { mem, offset } = &d.mode {
                        next.push((Space::Mem, *mem));
                        cexpr_refs(offset, &mut next);
                    }
                }
            }
            Space::Elem => {
                if let Some(e) = m.elems.get(i as usize) {
                    match &e.items {
                        ElemItems::Funcs(f) => next.extend(f.iter().map(|x| (Space::Func, *x))),
                        ElemItems::Exprs(_, es) => {
                            for c in es {
                                cexpr_refs(c, &mut next);
                            }
                        }
                    }
                    if let ElemMode::Active { table, offset } = &e.mode {
                        next.push((Space::Table, table.unwrap_or(0)));
                        cexpr_refs(offset, &mut next);
                    }
                }
            }
            _ => {}
        }
        for e in next {
            push(e, &mut seen, &mut todo);
        }
    }
    seen
}

/// C07 precision: everything in the output must be reachable (tolerance: one memory when data
/// segments are kept and no memory is otherwise reachable)
/// the roots a `verif-roots` custom section of the output declares (it writes the *emitted* index of
/// each of its roots into its payload: kind byte, u32 LE)
fn output_custom_roots(b: &AMod) -> Vec<Ent> {
    let mut v = vec![];
    for c in &b.customs {
        if c.name == "verif-roots" {
            for ch in c.data.chunks(5) {
                if ch.len() == 5 {
                    let i = u32::from_le_bytes([ch[1], ch[2], ch[3], ch[4]]);
                    let sp = match ch[0] {
                        b'f' => Space::Func,
                        b't' => Space::Table,
                        b'm' => Space::Mem,
                        _ => Space::Global,
                    };
                    v.push((sp, i));
                }
            }
        }
    }
    v
}

/// a custom section that declares GC roots (`CustomSection::add_gc_roots`)
#[derive(Debug, Default)]
struct RootsSection {
    funcs: Vec<walrus::FunctionId>,
    tables: Vec<walrus::TableId>,
    mems: Vec<walrus::MemoryId>,
    globals: Vec<walrus::GlobalId>,
}
impl walrus::CustomSection for RootsSection {
    fn name(&self) -> &str {
        "verif-roots"
    }
    fn data(&self, ids: &walrus::IdsToIndices) -> std::borrow::Cow<[u8]> {
        let mut v = vec![];
        for x in &self.funcs {
            v.push(b'f');
            v.extend(ids.get_func_index(*x).to_le_bytes());
        }
        for x in &self.tables {
            v.push(b't');
            v.extend(ids.get_table_index(*x).to_le_bytes());
        }
        for x in &self.mems {
            v.push(b'm');
            v.extend(ids.get_memory_index(*x).to_le_bytes());
        }
        for x in &self.globals {
            v.push(b'g');
            v.extend(ids.get_global_index(*x).to_le_bytes());
        }
        std::borrow::Cow::Owned(v)
    }
    fn add_gc_roots(&self, roots: &mut walrus::passes::Roots) {
        for x in &self.funcs {
            roots.push_func(*x);
        }
        for x in &self.tables {
            roots.push_table(*x);
        }
        for x in &self.mems {
            roots.push_memory(*x);
        }
        for x in &self.globals {
            roots.push_global(*x);
        }
    }
}

fn precision(b: &AMod) -> Vec<(String, String)> {
    let r = reachable_from(b, false, &output_custom_roots(b));
    let mut f = vec![];
    let mut unreachable_mems = vec![];
    for sp in [Space::Func, Space::Table, Space::Global, Space::Mem, Space::Type, Space::Data, Space::Elem] {
        for i in 0..b.count(sp) {
            if !r.contains(&(sp, i)) {
                if sp == Space::Mem {
                    unreachable_mems.push(i);
                } else {
                    f.push((format!("C07:unreachable-{}-kept", sp.tag()), format!("{:?} {} of the output is not reachable from the roots", sp, i)));
                }
            }
        }
    }
    let any_data = !b.datas.is_empty();
    let any_reachable_mem = (0..b.count(Space::Mem)).any(|i| r.contains(&(Space::Mem, i)));
    if !(unreachable_mems.is_empty() || (unreachable_mems.len() == 1 && any_data && !any_reachable_mem)) {
        f.push(("C07:unreachable-m-kept".into(), format!("memories {:?} of the output are not reachable from the roots", unreachable_mems)));
    }
    f
}

#[derive(Clone, Copy, PartialEq, Debug)]
enum Edit {
    None,
    AddFunc,
    DeleteExport,
    AddEntities,
    NameEverything,
    /// a built function whose blocks carry their type as a type id (`InstrSeqType::MultiValue`) for
    /// signatures the compact block-type encoding could also express: `() -> ()` and `() -> T`
    AddTypedBlocks,
    /// the usual find-or-add idiom for signatures `() -> R` where `R` is the result list of a
    /// function of the module: the type found (or added) is used by a new function import, by a
    /// call of it and by a block
    FindOrAddTypes,
}

fn apply_edit(m: &mut Module, e: Edit, rng: &mut Rng) {
    match e {
        Edit::None => {}
        Edit::AddFunc => {
            // a new function calling an existing () -> () function (if any), exported
            let callee = m.funcs.iter().find(|f| { let t = m.types.get(f.ty()); t.params().is_empty() && t.results().is_empty() }).map(|f| f.id());
            let mut b = FunctionBuilder::new(&mut m.types, &[ValType::I32], &[ValType::I32]);
            let l = m.locals.add(ValType::I32);
            {
                let mut body = b.func_body();
                if let Some(c) = callee {
                    body.call(c);
                }
                body.local_get(l).i32_const(rng.below(100) as i32).binop(walrus::ir::BinaryOp::I32Add);
            }
            let id = b.finish(vec![l], &mut m.funcs);
            m.exports.add("verif_added", id);
        }
        Edit::AddTypedBlocks => {
            let t = *rng.pick(&[ValType::I32, ValType::I64, ValType::F32, ValType::F64]);
            let unit = m.types.add(&[], &[]);
            let one = m.types.add(&[], &[t]);
            let mut b = FunctionBuilder::new(&mut m.types, &[ValType::F64, ValType::I64], &[ValType::I64]);
            let (p0, p1) = (m.locals.add(ValType::F64), m.locals.add(ValType::I64));
            {
                let mut body = b.func_body();
                body.block(walrus::ir::InstrSeqType::MultiValue(unit), |x| {
                    x.local_get(p0).drop();
                });
                body.block(walrus::ir::InstrSeqType::MultiValue(one), |x| {
                    match t {
                        ValType::I32 => x.i32_const(1),
                        ValType::I64 => x.i64_const(2),
                        ValType::F32 => x.f32_const(3.0),
                        _ => x.f64_const(4.0),
                    };
                });
                body.drop().local_get(p1);
            }
            let id = b.finish(vec![p0, p1], &mut m.funcs);
            m.exports.add("verif_typed_blocks", id);
        }
        Edit::FindOrAddTypes => {
            let mut seen: Vec<Vec<ValType>> = vec![];
            for f in m.funcs.iter() {
                let r = m.types.get(f.ty()).results().to_vec();
                if !seen.contains(&r) && seen.len() < 4 {
                    seen.push(r);
                }
            }
            for (k, r) in seen.iter().enumerate() {
                let ty = match m.types.find(&[], r) {
                    Some(t) => t,
                    None => m.types.add(&[], r),
                };
                let (imp, _) = m.add_import_func("verif", &format!("found_type_{}", k), ty);
                let seq_ty = if r.len() >= 2 {
                    match walrus::ir::InstrSeqType::existing(&m.types, &[], r) {
                        Some(t) => t,
                        None => walrus::ir::InstrSeqType::new(&mut m.types, &[], r),
                    }
                } else {
                    walrus::ir::InstrSeqType::MultiValue(ty)
                };
                let mut b = FunctionBuilder::new(&mut m.types, &[], &[]);
                {
                    let mut body = b.func_body();
                    body.call(imp);
                    for _ in r {
                        body.drop();
                    }
                    body.block(seq_ty, |x| {
                        x.unreachable();
                    });
                    for _ in r {
                        body.drop();
                    }
                }
                let id = b.finish(vec![], &mut m.funcs);
                m.exports.add(&format!("verif_found_type_{}", k), id);
            }
        }
        Edit::DeleteExport => {
            // (an export can be the only thing that makes a `ref.func` operand a declared function;
            // removing such an export is not a well-formed edit, so those exports are left alone)
            let mut ref_funcs = std::collections::HashSet::new();
            for (_, f) in m.funcs.iter_local() {
                for s in crate::irtext::reachable_seqs(f, f.entry_block()) {
                    for (i, _) in f.block(s).instrs.iter() {
                        if let walrus::ir::Instr::RefFunc(r) = i {
                            ref_funcs.insert(r.func);
                        }
                    }
                }
            }
            for g in m.globals.iter() {
                if let walrus::GlobalKind::Local(walrus::ConstExpr::RefFunc(f)) = g.kind {
                    ref_funcs.insert(f);
                }
            }
            let ids: Vec<_> = m.exports.iter().filter(|e| !matches!(e.item, walrus::ExportItem::Function(f) if ref_funcs.contains(&f))).map(|e| e.id()).collect();
            if !ids.is_empty() {
                let k = rng.below(ids.len() as u64) as usize;
                m.exports.delete(ids[k]);
            }
        }
        Edit::AddEntities => {
            let g = m.globals.add_local(ValType::I64, true, false, walrus::ConstExpr::Value(walrus::ir::Value::I64(7)));
            m.exports.add("verif_global", g);
            let mem = m.memories.iter().next().map(|x| x.id());
            if let Some(mem) = mem {
                if !m.memories.get(mem).memory64 {
                    let d = m.data.add(walrus::DataKind::Active { memory: mem, offset: walrus::ConstExpr::Value(walrus::ir::Value::I32(0)) }, vec![1, 2, 3]);
                    m.memories.get_mut(mem).data_segments.insert(d);
                }
            }
            let t = m.tables.add_local(false, 2, None, walrus::RefType::Funcref);
            m.exports.add("verif_table", t);
        }
        Edit::NameEverything => {
            let fids: Vec<_> = m.funcs.iter().map(|f| f.id()).collect();
            for f in fids {
                m.funcs.get_mut(f).name = Some(format!("f{}", f.index()));
            }
            let tids: Vec<_> = m.types.iter().map(|t| t.id()).collect();
            for t in tids {
                m.types.get_mut(t).name = Some(format!("t{}", t.index()));
            }
            m.name = Some("edited".into());
        }
    }
}

#[derive(Default)]
struct Stats {
    with_custom_roots: usize,
    post_gc_edits_reusing_a_collected_type: usize,
    cases: usize,
    samples: usize,
    removed_entities: usize,
    kept_entities: usize,
    edits: std::collections::BTreeMap<String, usize>,
}

fn count_all(m: &AMod) -> usize {
    [Space::Func, Space::Table, Space::Global, Space::Mem, Space::Type, Space::Data, Space::Elem].iter().map(|s| m.count(*s) as usize).sum()
}

fn show_roots(roots: &[Ent]) -> String {
    if roots.is_empty() {
        "-".into()
    } else {
        roots.iter().map(|r| format!("{}:{}", r.0.tag(), r.1)).collect::<Vec<_>>().join(",")
    }
}

fn parse_roots(s: &str) -> Vec<Ent> {
    s.split(',')
        .filter_map(|x| {
            let (k, i) = x.split_once(':')?;
            let sp = match k {
                "f" => Space::Func,
                "t" => Space::Table,
                "m" => Space::Mem,
                "g" => Space::Global,
                _ => return None,
            };
            Some((sp, i.parse().ok()?))
        })
        .collect()
}

fn run_wasm(case: &str, wasm: &[u8], edit: Edit, names_on: bool, roots: &[Ent], stats: &mut Stats, rng: &mut Rng) {
    let prop = std::env::var("VERIF_PROPERTY").unwrap_or_default();
    let only = format!("{:?} {} {} {}", edit, names_on as u8, out::hex(wasm), show_roots(roots));
    let Ok(a) = decode::decode(wasm) else { return };
    let mut cfg = ModuleConfig::new();
    cfg.generate_name_section(names_on);
    cfg.generate_producers_section(names_on);
    // roots declared by a custom section: the ids behind the chosen input indices are read from the
    // parse-time map
    let root_ids = std::sync::Arc::new(std::sync::Mutex::new(RootsSection::default()));
    if !roots.is_empty() {
        let sink = root_ids.clone();
        let wanted = roots.to_vec();
        cfg.on_parse(move |_, ids| {
            let mut rs = sink.lock().unwrap();
            for (sp, i) in &wanted {
                match sp {
                    Space::Func => rs.funcs.push(ids.get_func(*i)?),
                    Space::Table => rs.tables.push(ids.get_table(*i)?),
                    Space::Mem => rs.mems.push(ids.get_memory(*i)?),
                    _ => rs.globals.push(ids.get_global(*i)?),
                }
            }
            Ok(())
        });
    }
    let Ok(Ok(mut m)) = out::catch(|| cfg.parse(wasm)) else {
        out::oracle(case, false, "C05:valid-module-rejected-or-panic", &format!("parse failed | only: {}", only));
        return;
    };
    if !roots.is_empty() {
        let rs = std::mem::take(&mut *root_ids.lock().unwrap());
        m.customs.add(rs);
        stats.with_custom_roots += 1;
    }
    let rt = if roots.is_empty() { String::new() } else { format!(" RT {}", roots.iter().map(|r| format!("{}:{}", r.0.tag(), r.1)).collect::<Vec<_>>().join(" ")) };
    // ---- C02: emit without a pass (after the edit), then GC, emit again
    let mut fails: Vec<(String, String)> = vec![];
    let mut edit_rng = rng.clone();
    if out::catch(|| apply_edit(&mut m, edit, &mut edit_rng)).is_err() {
        fails.push(("C02:edit-panic".into(), format!("the edit {:?} panicked", edit)));
    }
    *stats.edits.entry(format!("{:?}", edit)).or_insert(0) += 1;
    let plain = out::catch(|| m.emit_wasm());
    match &plain {
        Err(p) => fails.push(("C02:emit-panic".into(), format!("emit (no pass, edit {:?}) panicked: {}", edit, &p[..p.len().min(160)]))),
        Ok(bytes) => {
            if let Err(e) = decode::validate(bytes, decode::walrus_features(false)) {
                fails.push(("C02:invalid-output".into(), format!("emit (no pass, edit {:?}) yields an invalid module: {}", edit, e)));
            }
        }
    }
    let gc1 = out::catch(|| {
        walrus::passes::gc::run(&mut m);
        m.emit_wasm()
    });
    let bytes = match gc1 {
        Err(p) => {
            let key = if p.contains("get_global_index") { "C02:gc-then-emit-panics-missing-global" } else { "C02:gc-then-emit-panic" };
            fails.push((key.into(), format!("GC + emit (edit {:?}) panicked: {}", edit, &p[..p.len().min(200)].replace('\n', " "))));
            fails.push(("C06:gc-then-emit-panics".into(), format!("GC + emit (edit {:?}) panicked, no module is produced: {}", edit, &p[..p.len().min(200)].replace('\n', " "))));
            if edit == Edit::None {
                // the model must predict the panic as a failed lookup
                out::corr(case, true, &format!("gc {}{}", modtext::module_text(&a, false, names_on), rt), "panic");
            }
            report(case, &prop, fails, &only);
            return;
        }
        Ok(b) => b,
    };
    if let Err(e) = decode::validate(&bytes, decode::walrus_features(false)) {
        fails.push(("C02:invalid-output-after-gc".into(), format!("GC + emit (edit {:?}) yields an invalid module: {}", edit, e)));
        fails.push(("C06:invalid-output-after-gc".into(), format!("GC + emit (edit {:?}) yields an invalid module: {}", edit, e)));
    }
    let b = decode::decode(&bytes).expect("decode output");
    stats.cases += 1;
    stats.kept_entities += count_all(&b);
    stats.removed_entities += count_all(&a).saturating_sub(count_all(&b));

    // ---- correspondence (unedited modules only: the model parses the input itself)
    if edit == Edit::None {
        let req = format!("gc {}{}", modtext::module_text(&a, false, names_on), rt);
        let obs = modtext::module_text(&b, false, names_on);
        out::corr(case, count_all(&b) < count_all(&a), &req, &obs);
        if stats.samples < 2 && req.len() < 700 {
            out::sample(&format!("{} => {}", req, obs));
            stats.samples += 1;
        }
    }

    // ---- C02: a well-formed edit made *after* the pass: a built function whose signature (also used
    // as a block type) is one the pass has just collected, if there is one
    if prop == "C02" {
        let kept: HashSet<&(Vec<String>, Vec<String>)> = b.types.iter().collect();
        let collected: Vec<&(Vec<String>, Vec<String>)> = a.types.iter().filter(|t| !kept.contains(t)).collect();
        let vt = |s: &String| -> Option<ValType> {
            Some(match s.as_str() {
                "i32" => ValType::I32,
                "i64" => ValType::I64,
                "f32" => ValType::F32,
                "f64" => ValType::F64,
                "v128" => ValType::V128,
                "funcref" => ValType::Ref(walrus::RefType::Funcref),
                "externref" => ValType::Ref(walrus::RefType::Externref),
                _ => return None,
            })
        };
        let sig: Option<(Vec<ValType>, Vec<ValType>)> = collected.first().and_then(|t| Some((t.0.iter().map(vt).collect::<Option<Vec<_>>>()?, t.1.iter().map(vt).collect::<Option<Vec<_>>>()?)));
        let (ps, rs) = sig.clone().unwrap_or((vec![ValType::I64, ValType::F32], vec![ValType::F32, ValType::I64]));
        if sig.is_some() {
            stats.post_gc_edits_reusing_a_collected_type += 1;
        }
        let r = out::catch(|| {
            let mut fb = FunctionBuilder::new(&mut m.types, &ps, &rs);
            let args: Vec<_> = ps.iter().map(|t| m.locals.add(*t)).collect();
            let bt = walrus::ir::InstrSeqType::new(&mut m.types, &ps, &rs);
            {
                let mut body = fb.func_body();
                for l in &args {
                    body.local_get(*l);
                }
                body.block(bt, |x| {
                    x.unreachable();
                });
            }
            let id = fb.finish(args, &mut m.funcs);
            m.exports.add("verif_added_after_gc", id);
            m.emit_wasm()
        });
        match r {
            Err(p) => fails.push(("C02:edit-after-gc-emit-panic".into(), format!("after GC, adding a built function of signature {:?} -> {:?} and emitting panicked: {}", ps, rs, &p[..p.len().min(200)].replace('\n', " ")))),
            Ok(bytes2) => {
                if let Err(e) = decode::validate(&bytes2, decode::walrus_features(false)) {
                    fails.push(("C02:edit-after-gc-invalid-output".into(), format!("after GC, adding a built function of signature {:?} -> {:?} yields an invalid module: {}", ps, rs, e)));
                }
                // the later passes of this case look at the module the first pass left: undo the edit
                let id = m.exports.iter().find(|e| e.name == "verif_added_after_gc").map(|e| e.id());
                if let Some(id) = id {
                    m.exports.delete(id);
                }
                let _ = out::catch(|| walrus::passes::gc::run(&mut m));
            }
        }
    }
    // ---- C07: precision and idempotence
    for f in precision(&b) {
        fails.push(f);
    }
    match out::catch(|| {
        walrus::passes::gc::run(&mut m);
        m.emit_wasm()
    }) {
        Ok(b2) => {
            if b2 != bytes {
                fails.push(("C07:second-gc-changes-output".into(), "running the pass a second time changes the emitted bytes".into()));
            }
        }
        Err(p) => fails.push(("C07:second-gc-panics".into(), format!("second GC + emit panicked: {}", &p[..p.len().min(160)]))),
    }
    // ---- C06: everything reachable in the input survives (independent reachability over the decoded
    // input; compared per index space by count, the memory residue aside)
    if edit == Edit::None {
        let r = reachable_from(&a, true, roots);
        for sp in [Space::Func, Space::Table, Space::Global, Space::Type, Space::Data, Space::Elem, Space::Mem] {
            let want = if sp == Space::Type {
                // types are de-duplicated: distinct reachable signatures
                (0..a.count(sp)).filter(|i| r.contains(&(sp, *i))).map(|i| a.types[i as usize].clone()).collect::<HashSet<_>>().len() as u32
            } else {
                (0..a.count(sp)).filter(|i| r.contains(&(sp, *i))).count() as u32
            };
            let got = b.count(sp);
            if got < want {
                fails.push((format!("C06:reachable-{}-dropped", sp.tag()), format!("{} {:?} entities are reachable from the roots of the input, the output has {}", want, sp, got)));
            }
        }
    }
    // ---- C06: exports survive (names, kinds, order); edits that change exports are accounted for
    if edit == Edit::None || edit == Edit::NameEverything {
        let ex = |m: &AMod| -> Vec<(String, Space)> { m.exports.iter().map(|e| (e.name.clone(), e.kind)).collect() };
        if ex(&a) != ex(&b) {
            fails.push(("C06:exports-changed".into(), "the export list (names, kinds, order) differs after GC".into()));
        }
        // every export still has the type it had
        for (x, y) in a.exports.iter().zip(b.exports.iter()) {
            if x.kind == Space::Func {
                let (sa, sb) = (a.func_type(x.index).and_then(|t| a.types.get(t as usize)), b.func_type(y.index).and_then(|t| b.types.get(t as usize)));
                if sa != sb {
                    fails.push(("C06:exported-function-signature".into(), format!("export {:?}: signature {:?} became {:?}", x.name, sa, sb)));
                }
            }
        }
    }
    report(case, &prop, fails, &only);
}

fn report(case: &str, prop: &str, fails: Vec<(String, String)>, only: &str) {
    let mine: Vec<&(String, String)> = fails.iter().filter(|f| f.0.starts_with(prop) && !prop.is_empty()).collect();
    if mine.is_empty() {
        out::oracle(case, true, "", "");
    } else {
        let mut keys = HashSet::new();
        for (k, m) in mine {
            if keys.insert(k.clone()) {
                out::oracle(case, false, k, &format!("{} | only: {}", m, only));
            }
        }
    }
}

/// a module in which every function, type, global, table and memory is reachable and only passive
/// segments are dead (a pass that has "nothing to sweep" in the large index spaces still has to
/// sweep the segments)
fn tight_module(rng: &mut Rng) -> Vec<u8> {
    use wasm_encoder::*;
    let mut m = wasm_encoder::Module::new();
    let mut t = TypeSection::new();
    t.function([], []);
    m.section(&t);
    let mut f = FunctionSection::new();
    let nf = rng.range(1, 3) as u32;
    for _ in 0..nf {
        f.function(0);
    }
    m.section(&f);
    let mut tb = TableSection::new();
    tb.table(TableType { element_type: RefType::FUNCREF, table64: false, minimum: 4, maximum: None, shared: false });
    m.section(&tb);
    let mut me = MemorySection::new();
    me.memory(MemoryType { minimum: 1, maximum: None, memory64: false, shared: false, page_size_log2: None });
    m.section(&me);
    let mut g = GlobalSection::new();
    g.global(GlobalType { val_type: ValType::I32, mutable: true, shared: false }, &ConstExpr::i32_const(1));
    m.section(&g);
    let mut ex = ExportSection::new();
    for i in 0..nf {
        ex.export(&format!("f{}", i), ExportKind::Func, i);
    }
    ex.export("t", ExportKind::Table, 0);
    ex.export("m", ExportKind::Memory, 0);
    ex.export("g", ExportKind::Global, 0);
    m.section(&ex);
    let mut el = ElementSection::new();
    el.active(None, &ConstExpr::i32_const(0), Elements::Functions(&[0]));
    let dead_elems = rng.below(3);
    for _ in 0..dead_elems {
        el.passive(Elements::Functions(&[nf - 1]));
    }
    m.section(&el);
    let mut code = CodeSection::new();
    for _ in 0..nf {
        let mut func = Function::new([]);
        func.instruction(&Instruction::GlobalGet(0));
        func.instruction(&Instruction::Drop);
        func.instruction(&Instruction::End);
        code.function(&func);
    }
    m.section(&code);
    let mut d = DataSection::new();
    d.active(0, &ConstExpr::i32_const(8), [1u8, 2, 3]);
    let dead_datas = if dead_elems == 0 { rng.range(1, 2) } else { rng.below(3) };
    for _ in 0..dead_datas {
        d.passive([0xdeu8, 0xad]);
    }
    m.section(&d);
    m.finish()
}

/// a plugin-style module whose only GC roots are element segments: nothing is exported, there is no
/// start function and no active data segment; an active segment of an imported table (its offset
/// optionally an imported global) and/or a declared segment name the functions, which call a helper
fn rootless_module(rng: &mut Rng) -> Vec<u8> {
    use wasm_encoder::*;
    let mut m = wasm_encoder::Module::new();
    let mut t = TypeSection::new();
    t.function([], []);
    m.section(&t);
    let variant = rng.below(3); // 0: active on the imported table, 1: declared only, 2: both
    let with_global = rng.chance(1, 2);
    let mut im = ImportSection::new();
    im.import("env", "tbl", TableType { element_type: RefType::FUNCREF, table64: false, minimum: 4, maximum: None, shared: false });
    if with_global {
        im.import("env", "base", GlobalType { val_type: ValType::I32, mutable: false, shared: false });
    }
    m.section(&im);
    let mut f = FunctionSection::new();
    let nf = 3 + rng.below(2) as u32;
    for _ in 0..nf {
        f.function(0);
    }
    m.section(&f);
    let mut el = ElementSection::new();
    let off = if with_global { ConstExpr::global_get(0) } else { ConstExpr::i32_const(0) };
    if variant != 1 {
        el.active(None, &off, Elements::Functions(&[1, 2]));
    }
    if variant != 0 {
        el.declared(Elements::Functions(&[1]));
    }
    m.section(&el);
    let mut code = CodeSection::new();
    for i in 0..nf {
        let mut func = Function::new([]);
        if i == 1 {
            func.instruction(&Instruction::Call(0));
        }
        if i == 2 && variant != 0 {
            func.instruction(&Instruction::RefFunc(1));
            func.instruction(&Instruction::Drop);
        }
        func.instruction(&Instruction::End);
        code.function(&func);
    }
    m.section(&code);
    m.finish()
}

pub fn main(seed: u64, tier: &str, only: Option<&str>) {
    let mut stats = Stats::default();
    if let Some(o) = only {
        let f: Vec<&str> = o.split(' ').collect();
        let e = match f[0] {
            "AddFunc" => Edit::AddFunc,
            "DeleteExport" => Edit::DeleteExport,
            "AddEntities" => Edit::AddEntities,
            "NameEverything" => Edit::NameEverything,
            "AddTypedBlocks" => Edit::AddTypedBlocks,
            "FindOrAddTypes" => Edit::FindOrAddTypes,
            _ => Edit::None,
        };
        let mut rng = Rng::new(seed, 0);
        let roots = f.get(3).map(|s| parse_roots(s)).unwrap_or_default();
        run_wasm("replay", &out::unhex(f[2]), e, f[1] == "1", &roots, &mut stats, &mut rng);
        return;
    }
    let n = if tier == "thorough" { 5000 * crate::out::thorough_scale() } else { 360 };
    let prop = std::env::var("VERIF_PROPERTY").unwrap_or_default();
    for case in 0..n {
        let mut rng = Rng::new(seed ^ 0x6c, case as u64);
        let mut g = if case % 4 == 0 { GenCfg::mvp() } else if case % 4 == 1 { GenCfg::full() } else { GenCfg::random(&mut rng) };
        g.customs = false;
        g.producers = rng.chance(1, 3);
        g.names = rng.chance(1, 2);
        g.extern_elem_global = true;
        let (wasm, _) = gen::gen_valid(&mut rng, &g);
        // edits only for C02 (the property that quantifies over them); others see plain modules
        let edit = if prop == "C02" {
            [Edit::None, Edit::AddFunc, Edit::DeleteExport, Edit::AddEntities, Edit::NameEverything, Edit::FindOrAddTypes, Edit::AddTypedBlocks][case % 7]
        } else if case % 5 == 4 {
            Edit::DeleteExport
        } else if prop == "C07" && case % 5 == 2 {
            Edit::AddTypedBlocks
        } else {
            Edit::None
        };
        // every third unedited module carries a custom section that declares one to three roots
        // (functions, tables, memories, globals: what `Roots` lets a custom section push)
        let mut roots: Vec<Ent> = vec![];
        if edit == Edit::None && case % 3 == 1 {
            if let Ok(a) = decode::decode(&wasm) {
                for _ in 0..rng.range(1, 3) {
                    let sp = *rng.pick(&[Space::Func, Space::Func, Space::Table, Space::Mem, Space::Global, Space::Global]);
                    let n = a.count(sp);
                    if n > 0 {
                        let e = (sp, rng.below(n as u64) as u32);
                        if !roots.contains(&e) {
                            roots.push(e);
                        }
                    }
                }
            }
        }
        run_wasm(&format!("g{}", case), &wasm, edit, case % 3 != 0, &roots, &mut stats, &mut rng);
    }
    for case in 0..(if tier == "thorough" { 60 } else { 12 }) {
        let mut rng = Rng::new(seed ^ 0x71, case as u64);
        let wasm = tight_module(&mut rng);
        run_wasm(&format!("tight{}", case), &wasm, Edit::None, case % 2 == 0, &[], &mut stats, &mut rng);
    }
    for case in 0..(if tier == "thorough" { 24 } else { 6 }) {
        let mut rng = Rng::new(seed ^ 0x72, case as u64);
        let wasm = rootless_module(&mut rng);
        run_wasm(&format!("rootless{}", case), &wasm, Edit::None, case % 2 == 0, &[], &mut stats, &mut rng);
    }
    out::stat("gc.cases_with_custom_section_roots", stats.with_custom_roots);
    out::stat("gc.cases", stats.cases);
    if prop == "C02" {
        out::stat("gc.post_gc_edits_reusing_a_collected_type", stats.post_gc_edits_reusing_a_collected_type);
    }
    out::stat("gc.entities_kept", stats.kept_entities);
    out::stat("gc.entities_removed", stats.removed_entities);
    for (k, v) in &stats.edits {
        out::stat(&format!("gc.edit.{}", k), *v);
    }
}
