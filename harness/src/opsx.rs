//! `gen::ops_exhaustive`: every operator of wasmparser's `for_each_operator!` whose proposal is in
//! walrus's feature set, instantiated with boundary immediates per field, each wrapped in a
//! function whose operand / result types are found by asking the reference validator.
use crate::decode;
use std::borrow::Cow;
use wasmparser::{BlockType, Ieee32, Ieee64, MemArg, Operator, V128};

/// proposals (the tags of `for_each_operator!`) that walrus's default feature set enables
pub const SUPPORTED_TAGS: &[&str] = &["mvp", "sign_extension", "saturating_float_to_int", "bulk_memory", "reference_types", "simd", "relaxed_simd", "tail_call", "threads"];

/// control operators: exercised by the module generator, not as "plain" operators here
pub const CONTROL: &[&str] = &["Block", "Loop", "If", "Else", "End", "Br", "BrIf", "BrTable", "Return", "Unreachable", "Nop"];

fn leak(v: Vec<u8>) -> &'static [u8] {
    Box::leak(v.into_boxed_slice())
}

fn parse_op(bytes: Vec<u8>) -> Operator<'static> {
    let b = leak(bytes);
    let mut r = wasmparser::BinaryReader::new(b, 0, decode::all_features());
    r.read_operator().expect("parse single operator")
}

/// one candidate value per (field, choice)
trait Pick: Sized {
    fn pick(field: &str, opname: &str, choice: usize) -> Self;
}

// The module every instance is validated in (see `wrap`): 3 functions types, 4 functions,
// 2 tables (funcref, externref), 2 memories (0: i32, 1: i64), globals 0..6 (one per value type, mutable),
// 2 data segments (passive), 2 element segments (passive funcref).
impl Pick for u32 {
    fn pick(field: &str, _op: &str, c: usize) -> u32 {
        let pickn = |vals: &[u32]| vals[c % vals.len()];
        match field {
            "function_index" => pickn(&[0, 1, 3]),
            // source and destination differ in two of three choices (a swap must be visible)
            "src_table" => pickn(&[0, 2, 0]),
            "table_index" | "table" | "dst_table" => pickn(&[0, 0, 2]),
            "global_index" => pickn(&[0, 1, 2, 3, 4, 5, 6]),
            "src_mem" => pickn(&[0, 0, 1]),
            "mem" | "dst_mem" => pickn(&[0, 1, 0]),
            "type_index" => pickn(&[0, 1, 2]),
            "local_index" => pickn(&[0, 1, 2, 3, 4, 5, 6]),
            "data_index" => pickn(&[0, 1]),
            "elem_index" => pickn(&[1, 2, 0]),
            "relative_depth" => 0,
            _ => 0,
        }
    }
}
impl Pick for u8 {
    fn pick(_f: &str, op: &str, c: usize) -> u8 {
        // lane index: 0 / last valid lane for the shape named by the operator
        let lanes = if op.contains("8x16") || op.contains("8Lane") {
            16
        } else if op.contains("16x8") || op.contains("16Lane") {
            8
        } else if op.contains("32x4") || op.contains("32Lane") {
            4
        } else {
            2
        };
        [0, lanes - 1, 1 % lanes][c % 3]
    }
}
impl Pick for i32 {
    fn pick(_f: &str, _o: &str, c: usize) -> i32 {
        [0, -1, i32::MIN, i32::MAX, 1, 0x7f, 0x80, -0x41][c % 8]
    }
}
impl Pick for i64 {
    fn pick(_f: &str, _o: &str, c: usize) -> i64 {
        [0, -1, i64::MIN, i64::MAX, 1, 1 << 32, -(1 << 33) - 1][c % 7]
    }
}
impl Pick for Ieee32 {
    fn pick(_f: &str, _o: &str, c: usize) -> Ieee32 {
        f32::from_bits([0u32, 0x8000_0000, 0x7f80_0000, 0xff80_0000, 0x7fc0_0000, 0x7fa0_0001, 0xffc1_2345, 1, 0x3f80_0000][c % 9]).into()
    }
}
impl Pick for Ieee64 {
    fn pick(_f: &str, _o: &str, c: usize) -> Ieee64 {
        f64::from_bits([0u64, 1 << 63, 0x7ff0_0000_0000_0000, 0xfff0_0000_0000_0000, 0x7ff8_0000_0000_0000, 0x7ff4_0000_0000_0001, 0xfff8_0000_dead_beef, 1][c % 8]).into()
    }
}
impl Pick for V128 {
    fn pick(_f: &str, _o: &str, c: usize) -> V128 {
        let pats: [[u8; 16]; 4] = [[0; 16], [0xff; 16], [0, 1, 2, 3, 4, 5, 6, 7, 8, 9, 10, 11, 12, 13, 14, 15], [0x80, 0, 0, 0x7f, 0xc0, 0x7f, 0, 0, 1, 0, 0, 0, 0, 0, 0xf8, 0xff]];
        let mut b = vec![0xfd, 0x0c];
        b.extend_from_slice(&pats[c % 4]);
        match parse_op(b) {
            Operator::V128Const { value } => value,
            _ => unreachable!(),
        }
    }
}
impl Pick for [u8; 16] {
    fn pick(_f: &str, _o: &str, c: usize) -> [u8; 16] {
        [[0; 16], [31; 16], [0, 31, 1, 30, 2, 29, 3, 28, 4, 27, 5, 26, 6, 25, 7, 24], [16, 17, 18, 19, 0, 1, 2, 3, 20, 21, 22, 23, 4, 5, 6, 7]][c % 4]
    }
}
impl Pick for MemArg {
    fn pick(_f: &str, op: &str, c: usize) -> MemArg {
        // natural alignment is found by the validator search (max_align is filled in by `wrap`)
        let _ = op;
        let (memory, offset) = [(0u32, 0u64), (0, 1), (0, 0xffff_ffff), (1, 0), (1, 0xffff_ffff), (1, 0x1_0000_0000), (1, 0x1_0000_0004), (1, u64::MAX >> 1), (0, 65535)][c % 9];
        MemArg { align: 0, max_align: 0, offset, memory }
    }
}
impl Pick for BlockType {
    fn pick(_f: &str, _o: &str, _c: usize) -> BlockType {
        BlockType::Empty
    }
}
impl Pick for wasmparser::ValType {
    fn pick(_f: &str, _o: &str, c: usize) -> wasmparser::ValType {
        use wasmparser::ValType::*;
        [I32, I64, F32, F64, V128, Ref(wasmparser::RefType::FUNCREF), Ref(wasmparser::RefType::EXTERNREF)][c % 7]
    }
}
impl Pick for wasmparser::HeapType {
    fn pick(_f: &str, _o: &str, c: usize) -> wasmparser::HeapType {
        [wasmparser::HeapType::FUNC, wasmparser::HeapType::EXTERN][c % 2]
    }
}
impl Pick for wasmparser::RefType {
    fn pick(_f: &str, _o: &str, _c: usize) -> wasmparser::RefType {
        wasmparser::RefType::FUNCREF
    }
}
impl Pick for wasmparser::Ordering {
    fn pick(_f: &str, _o: &str, _c: usize) -> wasmparser::Ordering {
        wasmparser::Ordering::SeqCst
    }
}
impl Pick for wasmparser::TryTable {
    fn pick(_f: &str, _o: &str, _c: usize) -> wasmparser::TryTable {
        wasmparser::TryTable { ty: BlockType::Empty, catches: vec![] }
    }
}
impl<'a> Pick for wasmparser::BrTable<'a> {
    fn pick(_f: &str, _o: &str, _c: usize) -> wasmparser::BrTable<'a> {
        match parse_op(vec![0x0e, 0x01, 0x00, 0x00]) {
            Operator::BrTable { targets } => targets,
            _ => unreachable!(),
        }
    }
}

macro_rules! build_all {
    ($(@$proposal:ident $op:ident $({ $($arg:ident: $argty:ty),* })? => $visit:ident)*) => {
        /// (operator name, proposal tag, number of immediates, instance for `choice`)
        pub fn all_ops<'a>(choice: usize) -> Vec<(&'static str, &'static str, usize, Operator<'a>)> {
            vec![$(
                (stringify!($op), stringify!($proposal), 0usize $($( + { let _ = stringify!($arg); 1 })*)?,
                 Operator::$op $({ $($arg: <$argty as Pick>::pick(stringify!($arg), stringify!($op), choice)),* })?)
            ),*]
        }
    }
}
wasmparser::for_each_operator!(build_all);

const VTS: [wasm_encoder::ValType; 7] = [
    wasm_encoder::ValType::I32,
    wasm_encoder::ValType::I64,
    wasm_encoder::ValType::F32,
    wasm_encoder::ValType::F64,
    wasm_encoder::ValType::V128,
    wasm_encoder::ValType::Ref(wasm_encoder::RefType::FUNCREF),
    wasm_encoder::ValType::Ref(wasm_encoder::RefType::EXTERNREF),
];

/// The fixed environment + one function `(params) -> ()` whose body is
/// `local.get 0..n ; <op> ; drop*k` (params are also the locals the operator may name).
pub fn wrap(op: &wasm_encoder::Instruction, params: &[usize], drops: usize, tail_dead: bool) -> Vec<u8> {
    use wasm_encoder::*;
    let mut m = Module::new();
    let mut types = TypeSection::new();
    types.function([], []); // 0
    types.function([ValType::I32], [ValType::I32]); // 1
    types.function([ValType::I64, ValType::F32], []); // 2
    // type 3: the test function: first 7 params are one of each type (so local_index 0..6 exist), then the operands
    let mut ps: Vec<ValType> = VTS.to_vec();
    ps.extend(params.iter().map(|p| VTS[*p]));
    types.function(ps.clone(), []);
    m.section(&types);
    let mut funcs = FunctionSection::new();
    funcs.function(0);
    funcs.function(1);
    funcs.function(2);
    funcs.function(0);
    funcs.function(3);
    m.section(&funcs);
    let mut tables = TableSection::new();
    tables.table(TableType { element_type: RefType::FUNCREF, table64: false, minimum: 4, maximum: Some(10), shared: false });
    tables.table(TableType { element_type: RefType::FUNCREF, table64: false, minimum: 4, maximum: None, shared: false });
    tables.table(TableType { element_type: RefType::FUNCREF, table64: false, minimum: 0, maximum: None, shared: false });
    m.section(&tables);
    let mut mems = MemorySection::new();
    mems.memory(MemoryType { minimum: 1, maximum: Some(4), memory64: false, shared: true, page_size_log2: None });
    mems.memory(MemoryType { minimum: 1, maximum: Some(4), memory64: true, shared: true, page_size_log2: None });
    m.section(&mems);
    let mut globals = GlobalSection::new();
    globals.global(GlobalType { val_type: ValType::I32, mutable: true, shared: false }, &ConstExpr::i32_const(0));
    globals.global(GlobalType { val_type: ValType::I64, mutable: true, shared: false }, &ConstExpr::i64_const(0));
    globals.global(GlobalType { val_type: ValType::F32, mutable: true, shared: false }, &ConstExpr::f32_const(0.0));
    globals.global(GlobalType { val_type: ValType::F64, mutable: true, shared: false }, &ConstExpr::f64_const(0.0));
    globals.global(GlobalType { val_type: ValType::V128, mutable: true, shared: false }, &ConstExpr::v128_const(0));
    globals.global(GlobalType { val_type: VTS[5], mutable: true, shared: false }, &ConstExpr::ref_null(HeapType::FUNC));
    globals.global(GlobalType { val_type: VTS[6], mutable: true, shared: false }, &ConstExpr::ref_null(HeapType::EXTERN));
    m.section(&globals);
    let mut ex = ExportSection::new();
    for i in 0..5 {
        ex.export(&format!("__f{}", i), ExportKind::Func, i);
    }
    m.section(&ex);
    let mut elems = ElementSection::new();
    // an empty segment first: the segments behind it must keep their indices
    elems.passive(Elements::Functions(&[]));
    elems.passive(Elements::Functions(&[0, 1]));
    elems.passive(Elements::Functions(&[3]));
    m.section(&elems);
    m.section(&DataCountSection { count: 2 });
    let mut code = CodeSection::new();
    for ty in [0u32, 1, 2, 0] {
        let mut f = Function::new([]);
        if ty == 1 {
            f.instruction(&Instruction::LocalGet(0));
        }
        f.instruction(&Instruction::End);
        code.function(&f);
    }
    let mut f = Function::new([]);
    for k in 0..params.len() {
        f.instruction(&Instruction::LocalGet((7 + k) as u32));
    }
    f.instruction(op);
    for _ in 0..drops {
        f.instruction(&Instruction::Drop);
    }
    if tail_dead {
        // the operator transfers control (return_call …): nothing may follow on the stack
    }
    f.instruction(&Instruction::End);
    code.function(&f);
    m.section(&code);
    let mut data = DataSection::new();
    data.passive([1u8, 2, 3]);
    data.passive([]);
    m.section(&data);
    let _ = Cow::Borrowed("");
    m.finish()
}

/// one tiny module per *numeric* operator without immediates (arithmetic, comparisons, conversions,
/// `select`, `drop`-free): `(func (export "f") (param …) (result r) local.get … <op>)`, operand and
/// result types found by search against the validator. For the execution suites: a slip in one
/// row of an operator table changes what such a function computes.
pub fn numeric_cases() -> Vec<(&'static str, Vec<u8>)> {
    use wasm_encoder::reencode::Reencode;
    use wasm_encoder::*;
    let features = decode::walrus_features(false);
    let num = [ValType::I32, ValType::I64, ValType::F32, ValType::F64];
    let mut out = vec![];
    for (name, tag, nimm, op) in all_ops(0) {
        if !["mvp", "sign_extension", "saturating_float_to_int"].contains(&tag) || CONTROL.contains(&name) || nimm != 0 {
            continue;
        }
        let Ok(instr) = wasm_encoder::reencode::RoundtripReencoder.instruction(op) else { continue };
        let build = |ps: &[ValType], r: ValType| -> Vec<u8> {
            let mut m = Module::new();
            let mut types = TypeSection::new();
            types.function(ps.to_vec(), [r]);
            m.section(&types);
            let mut funcs = FunctionSection::new();
            funcs.function(0);
            m.section(&funcs);
            let mut ex = ExportSection::new();
            ex.export("f", ExportKind::Func, 0);
            m.section(&ex);
            let mut code = CodeSection::new();
            let mut f = Function::new([]);
            for k in 0..ps.len() {
                f.instruction(&Instruction::LocalGet(k as u32));
            }
            f.instruction(&instr);
            f.instruction(&Instruction::End);
            code.function(&f);
            m.section(&code);
            m.finish()
        };
        let mut found = None;
        'search: for n in 1..=3usize {
            let mut idx = vec![0usize; n];
            loop {
                let ps: Vec<ValType> = idx.iter().map(|i| num[*i]).collect();
                for r in num {
                    let w = build(&ps, r);
                    if decode::validate(&w, features).is_ok() {
                        found = Some(w);
                        break 'search;
                    }
                }
                let mut k = 0;
                while k < n {
                    idx[k] += 1;
                    if idx[k] < 4 {
                        break;
                    }
                    idx[k] = 0;
                    k += 1;
                }
                if k == n {
                    break;
                }
            }
        }
        if let Some(w) = found {
            out.push((name, w));
        }
    }
    out
}

pub struct OpCase {
    pub name: &'static str,
    pub proposal: &'static str,
    pub choice: usize,
    pub wasm: Vec<u8>,
}

pub struct Universe {
    pub cases: Vec<OpCase>,
    pub supported_plain: usize,
    pub typed: usize,
    pub untypable: Vec<String>,
    pub unsupported: usize,
}

/// search operand types (≤3 operands) and result count (≤2) that make `op` valid in the wrapper;
/// memory operators are first typed with alignment 0, then given the largest alignment the
/// validator accepts (the natural one).
fn find_typing(op: &Operator<'static>, cache: &mut std::collections::HashMap<&'static str, (Vec<usize>, usize)>, name: &'static str) -> Option<(Vec<usize>, usize, wasm_encoder::Instruction<'static>)> {
    use wasm_encoder::reencode::Reencode;
    let features = decode::walrus_features(false);
    let reenc = |o: Operator<'static>| -> Option<wasm_encoder::Instruction<'static>> {
        let i = wasm_encoder::reencode::RoundtripReencoder.instruction(o).ok()?;
        // SAFETY: the operator only borrows leaked ('static) buffers
        Some(unsafe { std::mem::transmute::<wasm_encoder::Instruction<'_>, wasm_encoder::Instruction<'static>>(i) })
    };
    let valid = |instr: &wasm_encoder::Instruction<'static>, params: &[usize], drops: usize| decode::validate(&wrap(instr, params, drops, false), features).is_ok();
    let mut found: Option<(Vec<usize>, usize)> = None;
    let mut instr0 = reenc(with_align(op.clone(), 0))?;
    // atomic accesses demand exactly the natural alignment: search over the alignment as well
    'aligns: for a0 in [0u8, 1, 2, 3, 4] {
        instr0 = reenc(with_align(op.clone(), a0))?;
        if let Some((p, d)) = cache.get(name) {
            if valid(&instr0, p, *d) {
                found = Some((p.clone(), *d));
                break 'aligns;
            }
        }
        for n in 0..=3usize {
            let mut idx = vec![0usize; n];
            loop {
                for drops in 0..=2 {
                    if valid(&instr0, &idx, drops) {
                        found = Some((idx.clone(), drops));
                        break 'aligns;
                    }
                }
                let mut k = 0;
                while k < n {
                    idx[k] += 1;
                    if idx[k] < 7 {
                        break;
                    }
                    idx[k] = 0;
                    k += 1;
                }
                if k == n {
                    break;
                }
            }
        }
        if !format!("{:?}", op).contains("MemArg") {
            break;
        }
    }
    let (params, drops) = found?;
    cache.insert(name, (params.clone(), drops));
    let mut best = instr0;
    for a in [4u8, 3, 2, 1] {
        if let Some(i) = reenc(with_align(op.clone(), a)) {
            if valid(&i, &params, drops) {
                best = i;
                break;
            }
        }
    }
    Some((params, drops, best))
}

fn with_align(op: Operator<'static>, align: u8) -> Operator<'static> {
    // rewrite the `align` of the memarg, if the operator has one, through its Debug-independent structure
    macro_rules! set_align {
        ($(@$proposal:ident $opn:ident $({ $($arg:ident: $argty:ty),* })? => $visit:ident)*) => {
            match op {
                $( Operator::$opn $({ $($arg),* })? => {
                    $($( let $arg = SetAlign::set($arg, align); )*)?
                    Operator::$opn $({ $($arg),* })?
                } )*
            }
        }
    }
    wasmparser::for_each_operator!(set_align)
}
trait SetAlign {
    fn set(self, a: u8) -> Self;
}
impl SetAlign for MemArg {
    fn set(mut self, a: u8) -> Self {
        self.align = a;
        self.max_align = a;
        self
    }
}
macro_rules! noalign { ($($t:ty),*) => { $( impl SetAlign for $t { fn set(self, _a: u8) -> Self { self } } )* } }
noalign!(u32, u8, i32, i64, Ieee32, Ieee64, V128, [u8; 16], BlockType, wasmparser::ValType, wasmparser::HeapType, wasmparser::RefType, wasmparser::Ordering, wasmparser::TryTable);
impl<'a> SetAlign for wasmparser::BrTable<'a> {
    fn set(self, _a: u8) -> Self {
        self
    }
}

/// `nchoices` instances per operator (different boundary immediates)
pub fn universe(nchoices: usize) -> Universe {
    let mut cases = vec![];
    let mut cache = std::collections::HashMap::new();
    let mut supported_plain = 0;
    let mut typed = std::collections::HashSet::new();
    let mut untypable = vec![];
    let mut unsupported = 0;
    let names: Vec<(&'static str, &'static str, usize)> = all_ops(0).into_iter().map(|x| (x.0, x.1, x.2)).collect();
    for (name, tag, _) in &names {
        if !SUPPORTED_TAGS.contains(tag) {
            unsupported += 1;
        } else if !CONTROL.contains(name) {
            supported_plain += 1;
        }
    }
    for choice in 0..nchoices {
        for (name, tag, nimm, op) in all_ops(choice) {
            if !SUPPORTED_TAGS.contains(&tag) || CONTROL.contains(&name) {
                continue;
            }
            if nimm == 0 && choice > 0 {
                continue; // no immediates: one instance is all there is
            }
            match find_typing(&op, &mut cache, name) {
                Some((params, drops, instr)) => {
                    typed.insert(name);
                    cases.push(OpCase { name, proposal: tag, choice, wasm: wrap(&instr, &params, drops, false) });
                }
                None => {
                    if choice == 0 {
                        untypable.push(name.to_string());
                    }
                }
            }
        }
    }
    Universe { cases, supported_plain, typed: typed.len(), untypable, unsupported }
}
