//! Suite `par` (C09): the same inputs through the serial and the `parallel` build of walrus.
//!
//! The serial build (`--role serial`) prints one digest line per case. The parallel build
//! (feature `parallel`) obtains those lines by running the serial binary (VERIF_SERIAL_BIN) and
//! compares its own result for every thread count and repetition.
use crate::gen::{self, GenCfg};
use crate::out;
use crate::rng::Rng;
use wasm_encoder::*;

fn digest(bytes: &[u8]) -> String {
    // FNV-1a 64 + length: enough to tell outputs apart, printed in the replay
    let mut h: u64 = 0xcbf29ce484222325;
    for b in bytes {
        h ^= *b as u64;
        h = h.wrapping_mul(0x100000001b3);
    }
    format!("{:016x}/{}", h, bytes.len())
}

/// many functions of equal and unequal size; `bad` lists function indices whose body is invalid
fn many_funcs(rng: &mut Rng, n: usize, bad: &[usize]) -> Vec<u8> {
    let mut m = Module::new();
    let mut types = TypeSection::new();
    types.function([], []);
    types.function([ValType::I32], [ValType::I32]);
    m.section(&types);
    let mut funcs = FunctionSection::new();
    let tys: Vec<u32> = (0..n).map(|_| rng.below(2) as u32).collect();
    for t in &tys {
        funcs.function(*t);
    }
    m.section(&funcs);
    // a table filled by element segments of both styles, in both orders (decided from `n`, no random
    // draw): expression items (`ref.func`) and function indices in one element section
    let with_elems = n >= 4;
    if with_elems {
        let mut tabs = TableSection::new();
        tabs.table(TableType { element_type: RefType::FUNCREF, minimum: 8, maximum: None, table64: false, shared: false });
        m.section(&tabs);
    }
    let mut mem = MemorySection::new();
    mem.memory(MemoryType { minimum: 1, maximum: None, memory64: false, shared: false, page_size_log2: None });
    m.section(&mem);
    let mut ex = ExportSection::new();
    for i in 0..n {
        if rng.chance(1, 2) {
            ex.export(&format!("f{}", i), ExportKind::Func, i as u32);
        }
    }
    m.section(&ex);
    if with_elems {
        let mut els = ElementSection::new();
        let (a, b, c, d) = (0u32, (n / 2) as u32, (n - 1) as u32, (n - 2) as u32);
        let exprs = [ConstExpr::ref_func(a), ConstExpr::ref_func(b)];
        if n % 2 == 0 {
            els.passive(Elements::Expressions(RefType::FUNCREF, &exprs));
            els.active(None, &ConstExpr::i32_const(0), Elements::Functions(&[c, d]));
            els.declared(Elements::Functions(&[d, a]));
        } else {
            els.active(None, &ConstExpr::i32_const(2), Elements::Functions(&[c, d]));
            els.active(Some(0), &ConstExpr::i32_const(4), Elements::Expressions(RefType::FUNCREF, &exprs));
            els.passive(Elements::Functions(&[b, c, a]));
        }
        m.section(&els);
    }
    // an active data segment whose only users (`data.drop`, `memory.init`) sit in one or two
    // functions, often the last ones: whether the data count section is written is decided by a
    // scan over all functions
    let with_data = rng.chance(1, 2);
    let mut droppers: Vec<usize> = vec![];
    if with_data {
        droppers.push(if rng.chance(1, 2) { n - 1 } else { rng.below(n as u64) as usize });
        if rng.chance(1, 4) {
            droppers.push(n - 1 - rng.below(n.min(4) as u64) as usize);
        }
        m.section(&DataCountSection { count: 1 });
    }
    let mut code = CodeSection::new();
    let equal_size = rng.chance(1, 3);
    for i in 0..n {
        let mut f = Function::new([(rng.below(3) as u32, ValType::I32)]);
        let reps = if equal_size { 3 } else { *rng.pick(&[0u64, 1, 1, 2, 5, 20, 60]) };
        for _ in 0..reps {
            f.instruction(&Instruction::I32Const(rng.below(1000) as i32));
            f.instruction(&Instruction::I32Const(0));
            f.instruction(&Instruction::I32Store(MemArg { offset: rng.below(64), align: 2, memory_index: 0 }));
            if rng.chance(1, 4) {
                let callee = rng.below(n as u64) as usize;
                if tys[callee] == 0 {
                    f.instruction(&Instruction::Call(callee as u32));
                }
            }
        }
        if droppers.contains(&i) {
            if i % 2 == 0 {
                f.instruction(&Instruction::DataDrop(0));
            } else {
                f.instruction(&Instruction::I32Const(0));
                f.instruction(&Instruction::I32Const(0));
                f.instruction(&Instruction::I32Const(0));
                f.instruction(&Instruction::MemoryInit { mem: 0, data_index: 0 });
            }
        }
        // fix up calls: simplest is to avoid them when types differ; regenerate deterministic tail
        if tys[i] == 1 {
            f.instruction(&Instruction::LocalGet(0));
        }
        if bad.contains(&i) {
            // leaves an extra value on the stack / reads a missing local: rejected by validation
            if i % 2 == 0 {
                f.instruction(&Instruction::I32Const(7));
            } else {
                f.instruction(&Instruction::LocalGet(9999));
                f.instruction(&Instruction::Drop);
            }
        }
        f.instruction(&Instruction::End);
        code.function(&f);
    }
    m.section(&code);
    if with_data {
        let mut data = DataSection::new();
        data.active(0, &ConstExpr::i32_const(16), [1u8, 2, 3, 4]);
        m.section(&data);
    }
    m.finish()
}

fn case_input(seed: u64, case: u64) -> (Vec<u8>, String) {
    let mut rng = Rng::new(seed ^ 0x9a7, case);
    match case % 4 {
        0 => {
            let mut g = GenCfg::random(&mut rng);
            g.import_mem64 = false;
            g.big_offsets = false;
            g.extern_elem_global = false;
            g.max_funcs = 40;
            (gen::gen_valid(&mut rng, &g).0, "generated".into())
        }
        1 => {
            let n = *rng.pick(&[2usize, 17, 23, 64, 130, 300]);
            (many_funcs(&mut rng, n, &[]), format!("many-funcs n={}", n))
        }
        2 => {
            let n = *rng.pick(&[8usize, 33, 120]);
            let k = rng.range(1, 4) as usize;
            let bad: Vec<usize> = (0..k).map(|_| rng.below(n as u64) as usize).collect();
            (many_funcs(&mut rng, n, &bad), format!("failing-bodies n={} bad={:?}", n, bad))
        }
        _ => {
            let n = *rng.pick(&[50usize, 200]);
            (many_funcs(&mut rng, n, &[]), format!("many-funcs n={}", n))
        }
    }
}

fn without_calls_fix(wasm: Vec<u8>) -> Vec<u8> {
    wasm
}

fn result_of(wasm: &[u8]) -> String {
    match out::catch(|| {
        let mut cfg = walrus::ModuleConfig::new();
        cfg.preserve_code_transform(true);
        cfg.parse(wasm)
    }) {
        Err(p) => format!("PANIC:{}", &p[..p.len().min(60)]),
        Ok(Err(e)) => format!("ERR:{}", format!("{:#}", e).replace(['\n', '\t', ' '], "_")),
        Ok(Ok(mut m)) => {
            // also what extension code is handed: the code transform (offset pairs, function ranges,
            // code section start) seen by a custom section
            let seen = std::sync::Arc::new(std::sync::Mutex::new(crate::offsets::Seen::default()));
            m.customs.add(crate::offsets::Spy(seen.clone()));
            match out::catch(|| m.emit_wasm()) {
                Ok(b) => {
                    let s = seen.lock().unwrap();
                    let mut ranges: Vec<(usize, usize, usize)> = s.ranges.iter().map(|r| (r.0.index(), r.1, r.2)).collect();
                    ranges.sort();
                    let t = format!("{:?}|{}|{:?}", s.map, s.start, ranges);
                    format!("OK:{}+T{}", digest(&b), digest(t.as_bytes()))
                }
                Err(p) => format!("EMIT-PANIC:{}", &p[..p.len().min(60)]),
            }
        }
    }
}

pub fn main(seed: u64, tier: &str, role: &str) {
    let n: u64 = if tier == "thorough" { 400 } else { 60 };
    if role == "serial" {
        for case in 0..n {
            let (wasm, _) = case_input(seed, case);
            let wasm = without_calls_fix(wasm);
            println!("D\t{}\t{}", case, result_of(&wasm));
        }
        return;
    }
    #[cfg(not(feature = "parallel"))]
    {
        eprintln!("the `par` suite must be run from the build with feature `parallel`");
        std::process::exit(2);
    }
    #[cfg(feature = "parallel")]
    {
        let serial_bin = std::env::var("VERIF_SERIAL_BIN").expect("VERIF_SERIAL_BIN");
        let o = std::process::Command::new(&serial_bin).args(["par", "--tier", tier, "--role", "serial"]).env("VERIF_SEED", seed.to_string()).output().expect("run serial binary");
        let text = String::from_utf8_lossy(&o.stdout).to_string();
        let mut serial = std::collections::HashMap::new();
        for l in text.lines() {
            let f: Vec<&str> = l.split('\t').collect();
            if f.len() == 3 && f[0] == "D" {
                serial.insert(f[1].parse::<u64>().unwrap(), f[2].to_string());
            }
        }
        let threads: &[usize] = if tier == "thorough" { &[1, 2, 3, 4, 5, 6, 7, 8, 9, 10, 11, 12, 13, 14, 15, 16] } else { &[1, 2, 4, 16] };
        let repeats = if tier == "thorough" { 5 } else { 2 };
        let mut runs = 0;
        let mut accepted = 0;
        let mut rejected = 0;
        let mut distinct = std::collections::HashSet::new();
        for case in 0..n {
            let (wasm, what) = case_input(seed, case);
            let want = serial.get(&case).cloned().unwrap_or("MISSING".into());
            if want.starts_with("OK") {
                accepted += 1
            } else {
                rejected += 1
            }
            let mut ok = true;
            for &t in threads {
                let pool = rayon::ThreadPoolBuilder::new().num_threads(t).build().unwrap();
                for rep in 0..repeats {
                    let got = pool.install(|| result_of(&wasm));
                    runs += 1;
                    if got != want {
                        ok = false;
                        out::oracle(&format!("p{}", case), false, "C09:parallel-differs-from-serial", &format!("{}: threads={} repeat={} serial={} parallel={} | only: {}", what, t, rep, &want[..want.len().min(120)], &got[..got.len().min(120)], case));
                        break;
                    }
                }
                if !ok {
                    break;
                }
            }
            if ok {
                out::oracle(&format!("p{}", case), true, "", "");
            }
            distinct.insert(want.clone());
            if case < 4 {
                out::sample(&format!("{} -> {}", what, &want[..want.len().min(100)]));
            }
        }
        out::stat("par.cases", n);
        out::stat("par.runs", runs);
        out::stat("par.accepted", accepted);
        out::stat("par.rejected", rejected);
        out::stat("par.distinct_results", distinct.len());
        out::stat("distinct_nontrivial", distinct.len());
    }
}
