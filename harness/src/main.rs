//! wharness: drives the real walrus (path dependency on /repo) for the correspondence checks
//! and the property oracles. One sub-command per suite; see `out.rs` for the output protocol.
mod arena;
mod out;
mod rng;

fn main() {
    let args: Vec<String> = std::env::args().collect();
    let suite = args.get(1).map(|s| s.as_str()).unwrap_or("");
    let mut tier = "quick".to_string();
    let mut only: Option<String> = None;
    let mut i = 2;
    while i < args.len() {
        match args[i].as_str() {
            "--tier" => {
                tier = args[i + 1].clone();
                i += 1;
            }
            "--only" => {
                only = Some(args[i + 1].clone());
                i += 1;
            }
            _ => {}
        }
        i += 1;
    }
    let seed: u64 = std::env::var("VERIF_SEED").ok().and_then(|s| s.parse().ok()).unwrap_or(1);
    out::quiet_panics();
    match suite {
        "arena" => arena::main(seed, &tier, only.as_deref()),
        _ => {
            eprintln!("unknown suite {:?}", suite);
            std::process::exit(2);
        }
    }
}
