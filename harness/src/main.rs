//! wharness: drives the real walrus (path dependency on /repo) for the correspondence checks
//! and the property oracles. One sub-command per suite; see `out.rs` for the output protocol.
mod arena;
mod builder;
mod code;
mod irtext;
mod maps;
mod modsuite;
mod modtext;
mod offsets;
mod visit;
mod decode;
mod features;
mod gate;
mod gcsuite;
mod execsuite;
mod ctrlgen;
mod replsuite;
mod model;
mod dwarf;
mod gen;
mod opsx;
mod out;
mod par;
mod rng;
mod sections;

fn main() {
    let args: Vec<String> = std::env::args().collect();
    let suite = args.get(1).map(|s| s.as_str()).unwrap_or("");
    let mut tier = "quick".to_string();
    let mut only: Option<String> = None;
    let mut role = "parallel".to_string();
    let mut i = 2;
    while i < args.len() {
        match args[i].as_str() {
            "--tier" => {
                tier = args[i + 1].clone();
                i += 1;
            }
            "--role" => {
                role = args[i + 1].clone();
                i += 1;
            }
            "--only" => {
                only = Some(args[i + 1].clone());
                i += 1;
            }
            _ => {}
        }
        i += 1;
    }
    let seed: u64 = std::env::var("VERIF_SEED").ok().and_then(|s| s.parse().ok()).unwrap_or(1);
    if std::env::var("VERIF_LOUD").is_err() { out::quiet_panics(); }
    match suite {
        "arena" => arena::main(seed, &tier, only.as_deref()),
        "sections" => sections::main(seed, &tier, only.as_deref()),
        "par" => par::main(seed, &tier, &role),
        "visit" => visit::main(seed, &tier, only.as_deref()),
        "visit-deep" => visit::deep_shape(args[2].parse().unwrap(), args.get(3).map(|s| s.as_str()).unwrap_or("blocks")),
        "builder" => builder::main(seed, &tier, only.as_deref()),
        "code" => code::main(seed, &tier, only.as_deref()),
        "offsets" => offsets::main(seed, &tier, only.as_deref()),
        "dwarf" => dwarf::main(seed, &tier, only.as_deref()),
        "module" => modsuite::main(seed, &tier, only.as_deref()),
        "maps" => maps::main(seed, &tier, only.as_deref()),
        "features" => features::main(seed, &tier, only.as_deref()),
        "gate" => gate::main(seed, &tier, only.as_deref()),
        "gc" => gcsuite::main(seed, &tier, only.as_deref()),
        "exec" => execsuite::main(seed, &tier, only.as_deref()),
        "replace" => replsuite::main(seed, &tier, only.as_deref()),
        "gate-deep" => gate::deep(args[2].parse().unwrap()),
        "wat2hex" => {
            let bytes = wat::parse_file(&args[2]).expect("wat");
            println!("{}", out::hex(&bytes));
        }
        "rtdump" => {
            // debugging aid: `rtdump <dwarf 0|1> <hexfile> <outprefix>`: emit, re-parse, emit; write both
            let wasm = out::unhex(std::fs::read_to_string(&args[3]).unwrap().trim());
            // args[2]: `1`/`0` (DWARF switch) or four bits: skip name, skip producers, DWARF, preserve
            let bits: Vec<char> = args[2].chars().collect();
            let mk = || {
                let mut c = walrus::ModuleConfig::new();
                if bits.len() >= 4 {
                    c.generate_name_section(bits[0] != '1');
                    c.generate_producers_section(bits[1] != '1');
                    c.generate_dwarf(bits[2] == '1');
                    c.preserve_code_transform(bits[3] == '1');
                } else {
                    c.generate_dwarf(args[2] == "1");
                }
                c
            };
            let b1 = mk().parse(&wasm).unwrap().emit_wasm();
            let b2 = mk().parse(&b1).unwrap().emit_wasm();
            std::fs::write(format!("{}.1.wasm", args[4]), &b1).unwrap();
            std::fs::write(format!("{}.2.wasm", args[4]), &b2).unwrap();
            println!("{} {} equal={}", b1.len(), b2.len(), b1 == b2);
        }
        "opsxtest" => {
            let u = opsx::universe(1);
            println!("supported plain ops {} typed {} unsupported {} cases {} untypable {:?}", u.supported_plain, u.typed, u.unsupported, u.cases.len(), u.untypable);
        }
        "gentest" => {
            // generator self-test: how often are generated modules valid, what do they contain
            let mut rejected = 0;
            let mut ops = std::collections::BTreeMap::new();
            for case in 0..300u64 {
                let mut rng = rng::Rng::new(seed, case);
                let cfg = if case % 3 == 0 { gen::GenCfg::mvp() } else if case % 3 == 1 { gen::GenCfg::full() } else { gen::GenCfg::random(&mut rng) };
                let (wasm, rej) = gen::gen_valid(&mut rng, &cfg);
                rejected += rej;
                let m = decode::decode(&wasm).unwrap();
                for b in &m.code { for o in &b.ops { *ops.entry(o.name).or_insert(0usize) += 1; } }
            }
            println!("rejected {} distinct ops {}", rejected, ops.len());
            println!("{:?}", ops);
        }
        _ => {
            eprintln!("unknown suite {:?}", suite);
            std::process::exit(2);
        }
    }
}
