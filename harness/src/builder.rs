//! Suite `builder` (C15) and the built trees used by `visit` (C16).
//!
//! A random *well-typed instruction tree* over a small instruction alphabet is built through the
//! public `FunctionBuilder` / `InstrSeqBuilder` API in a random construction order (append,
//! positional insert, dangling sequence attached later), emitted, and the emitted body compared
//! with (a) the Lean model driven by the same builder trace and (b) the harness's own in-order
//! flattening of the tree.
use crate::decode;
use crate::irtext;
use crate::out;
use crate::rng::Rng;
use walrus::ir::*;
use walrus::{FunctionBuilder, FunctionId, GlobalId, InstrSeqBuilder, LocalId, Module, ModuleConfig, ValType};

#[derive(Clone, Debug)]
pub enum Leaf {
    ConstDrop(i32),         // i32.const k ; drop
    GetSet(usize, usize),   // local.get a ; local.set b   (same type)
    TeeDrop(usize),         // i32.const 1 ; local.tee a ; drop   (a : i32)
    GlobalRW(usize),        // global.get g ; global.set g
    Call,                   // call helper ([] -> [])
    Add,                    // i32.const 1 ; i32.const 2 ; i32.add ; drop
    BrIf(usize),            // i32.const 0 ; br_if <enclosing #n, counted from outermost>
    Br(usize),              // br <enclosing>         (rest of the sequence is dead but valid)
    BrTable(Vec<usize>, usize), // i32.const 0 ; br_table
    Return,
    Unreachable,
    MemCopy(usize, usize),  // i32.const 0 x3 ; memory.copy from memory #src to memory #dst (two memories)
    Unop(usize),            // i32.const 1 ; UNOPS[k] ; drop
    Binop(usize),           // i32.const 1 ; i32.const 2 ; BINOPS[k] ; drop
}

/// unary operators on an i32 operand, by walrus name and by the name of the wasm operator they stand
/// for (each is built as `i32.const 1 ; <op> ; drop`)
const UNOPS: &[(UnaryOp, &str)] = &[
    (UnaryOp::I32Eqz, "I32Eqz"),
    (UnaryOp::I32Clz, "I32Clz"),
    (UnaryOp::I32Ctz, "I32Ctz"),
    (UnaryOp::I32Popcnt, "I32Popcnt"),
    (UnaryOp::I64ExtendSI32, "I64ExtendI32S"),
    (UnaryOp::I64ExtendUI32, "I64ExtendI32U"),
    (UnaryOp::F32ConvertSI32, "F32ConvertI32S"),
    (UnaryOp::F32ConvertUI32, "F32ConvertI32U"),
    (UnaryOp::F64ConvertSI32, "F64ConvertI32S"),
    (UnaryOp::F64ConvertUI32, "F64ConvertI32U"),
    (UnaryOp::F32ReinterpretI32, "F32ReinterpretI32"),
    (UnaryOp::I32Extend8S, "I32Extend8S"),
    (UnaryOp::I32Extend16S, "I32Extend16S"),
];
/// binary operators on two i32 operands
const BINOPS: &[(BinaryOp, &str)] = &[
    (BinaryOp::I32Add, "I32Add"),
    (BinaryOp::I32Sub, "I32Sub"),
    (BinaryOp::I32Mul, "I32Mul"),
    (BinaryOp::I32DivS, "I32DivS"),
    (BinaryOp::I32DivU, "I32DivU"),
    (BinaryOp::I32RemS, "I32RemS"),
    (BinaryOp::I32RemU, "I32RemU"),
    (BinaryOp::I32ShrS, "I32ShrS"),
    (BinaryOp::I32ShrU, "I32ShrU"),
    (BinaryOp::I32LtS, "I32LtS"),
    (BinaryOp::I32LtU, "I32LtU"),
    (BinaryOp::I32GeS, "I32GeS"),
    (BinaryOp::I32GeU, "I32GeU"),
    (BinaryOp::I32Rotl, "I32Rotl"),
    (BinaryOp::I32Rotr, "I32Rotr"),
];

#[derive(Clone, Debug)]
pub enum Node {
    Leaf(Leaf),
    Block(bool, Ty, Vec<Node>),        // is_loop, type, body
    If(Ty, Vec<Node>, Vec<Node>),      // i32.const c ; if
}

#[derive(Clone, Copy, Debug, PartialEq)]
pub enum Ty {
    Empty,
    I32,       // result i32: body ends with `i32.const`, construct followed by `drop`
    Multi,     // (i32) -> (i32): preceded by `i32.const`, body `i32.eqz`-like, followed by `drop`
}

struct Env {
    locals: Vec<(LocalId, ValType)>, // params first
    nparams: usize,
    globals: Vec<GlobalId>,
    mems: Vec<walrus::MemoryId>,
    helper: FunctionId,
    multi_ty: walrus::TypeId,
    /// the same signature as a sequence type, obtained either from the id or through `InstrSeqType::new`
    multi_sty: InstrSeqType,
}

fn gen_nodes(rng: &mut Rng, depth: usize, enclosing: usize, budget: &mut i64, env_locals: &[(usize, ValType)], nglobals: usize) -> Vec<Node> {
    let n = rng.below(5);
    let mut v = vec![];
    for _ in 0..n {
        if *budget <= 0 {
            break;
        }
        *budget -= 1;
        let c = rng.below(100);
        if c < 50 || depth == 0 {
            let i32s: Vec<usize> = env_locals.iter().filter(|l| l.1 == ValType::I32).map(|l| l.0).collect();
            let leaf = match rng.below(14) {
                0 | 1 => Leaf::ConstDrop(rng.next() as i32),
                2 if !env_locals.is_empty() => {
                    let a = *rng.pick(env_locals);
                    let same: Vec<usize> = env_locals.iter().filter(|l| l.1 == a.1).map(|l| l.0).collect();
                    Leaf::GetSet(a.0, *rng.pick(&same))
                }
                3 if !i32s.is_empty() => Leaf::TeeDrop(*rng.pick(&i32s)),
                4 if nglobals > 0 => Leaf::GlobalRW(rng.below(nglobals as u64) as usize),
                5 => Leaf::Call,
                6 => Leaf::Add,
                7 => Leaf::BrIf(rng.below(enclosing as u64) as usize),
                8 if rng.chance(1, 3) => Leaf::Br(rng.below(enclosing as u64) as usize),
                9 if rng.chance(1, 2) => {
                    let k = rng.below(4);
                    Leaf::BrTable((0..k).map(|_| rng.below(enclosing as u64) as usize).collect(), rng.below(enclosing as u64) as usize)
                }
                10 if rng.chance(1, 4) => {
                    if rng.chance(1, 2) {
                        Leaf::Return
                    } else {
                        Leaf::Unreachable
                    }
                }
                11 if rng.chance(2, 3) => Leaf::MemCopy(rng.below(2) as usize, rng.below(2) as usize),
                12 => Leaf::Unop(rng.below(UNOPS.len() as u64) as usize),
                13 => Leaf::Binop(rng.below(BINOPS.len() as u64) as usize),
                _ => Leaf::ConstDrop(rng.below(10) as i32),
            };
            v.push(Node::Leaf(leaf));
        } else if c < 80 {
            let ty = *rng.pick(&[Ty::Empty, Ty::Empty, Ty::I32, Ty::Multi]);
            let body = gen_nodes(rng, depth - 1, enclosing + 1, budget, env_locals, nglobals);
            v.push(Node::Block(rng.chance(1, 3), ty, body));
        } else {
            let ty = *rng.pick(&[Ty::Empty, Ty::Empty, Ty::I32]);
            let a = gen_nodes(rng, depth - 1, enclosing + 1, budget, env_locals, nglobals);
            let b = gen_nodes(rng, depth - 1, enclosing + 1, budget, env_locals, nglobals);
            v.push(Node::If(ty, a, b));
        }
    }
    v
}

/// Branch targets: labels whose type is empty can be targeted freely by our value-less branches.
/// To keep every tree well-typed, branches only target *empty-typed* enclosing constructs or loops
/// without parameters; targets to other constructs are redirected to the nearest allowed one (the
/// function body when its result list is empty).
fn fix_targets(nodes: &mut Vec<Node>, allowed: &Vec<bool>) {
    let nearest = |t: usize, allowed: &Vec<bool>| -> Option<usize> {
        // prefer t, else search outward then inward
        if allowed.get(t).copied().unwrap_or(false) {
            return Some(t);
        }
        (0..allowed.len()).rev().find(|&k| allowed[k])
    };
    let mut k = 0;
    while k < nodes.len() {
        let mut remove = false;
        match &mut nodes[k] {
            Node::Leaf(Leaf::BrIf(t)) | Node::Leaf(Leaf::Br(t)) => match nearest(*t, allowed) {
                Some(n) => *t = n,
                None => remove = true,
            },
            Node::Leaf(Leaf::BrTable(ts, d)) => {
                match nearest(*d, allowed) {
                    Some(n) => *d = n,
                    None => remove = true,
                }
                for t in ts.iter_mut() {
                    if let Some(n) = nearest(*t, allowed) {
                        *t = n
                    } else {
                        remove = true
                    }
                }
            }
            Node::Block(is_loop, ty, body) => {
                let mut a = allowed.clone();
                // a loop's label carries its parameters; a block's its results
                a.push(if *is_loop { *ty != Ty::Multi } else { *ty == Ty::Empty });
                fix_targets(body, &a);
            }
            Node::If(ty, x, y) => {
                let mut a = allowed.clone();
                a.push(*ty == Ty::Empty);
                fix_targets(x, &a);
                fix_targets(y, &a);
            }
            _ => {}
        }
        if remove {
            nodes.remove(k);
        } else {
            k += 1;
        }
    }
}

// ---------------------------------------------------------------------------------------------
// expected in-order flattening (independent of walrus): op tokens in the decoder's text form,
// locals written as `x:<local ordinal>` (ordinal = position in env.locals), globals / functions by
// their final index (the harness chooses modules where these are known).

fn flatten(nodes: &[Node], depth_stack: &mut Vec<usize>, out: &mut Vec<String>, ctx: &FlatCtx) {
    // depth_stack[k] = nesting level of the construct with "enclosing ordinal" k (0 = function body)
    let cur = depth_stack.len() - 1;
    let rel = |target: usize| -> usize { cur - target };
    for n in nodes {
        match n {
            Node::Leaf(l) => match l {
                Leaf::ConstDrop(k) => {
                    out.push(format!("I32Const/i:{}", *k as u32));
                    out.push("Drop".into());
                }
                Leaf::GetSet(a, b) => {
                    out.push(format!("LocalGet/x:{}", a));
                    out.push(format!("LocalSet/x:{}", b));
                }
                Leaf::TeeDrop(a) => {
                    out.push("I32Const/i:1".into());
                    out.push(format!("LocalTee/x:{}", a));
                    out.push("Drop".into());
                }
                Leaf::GlobalRW(g) => {
                    out.push(format!("GlobalGet/g:{}", g));
                    out.push(format!("GlobalSet/g:{}", g));
                }
                Leaf::Call => out.push(format!("Call/f:{}", ctx.helper_index)),
                Leaf::Unop(k) => {
                    out.push("I32Const/i:1".into());
                    out.push(UNOPS[*k].1.into());
                    out.push("Drop".into());
                }
                Leaf::Binop(k) => {
                    out.push("I32Const/i:1".into());
                    out.push("I32Const/i:2".into());
                    out.push(BINOPS[*k].1.into());
                    out.push("Drop".into());
                }
                Leaf::MemCopy(src, dst) => {
                    for _ in 0..3 {
                        out.push("I32Const/i:0".into());
                    }
                    // the binary names the destination memory first
                    out.push(format!("MemoryCopy/m:{}/m:{}", dst, src));
                }
                Leaf::Add => {
                    out.push("I32Const/i:1".into());
                    out.push("I32Const/i:2".into());
                    out.push("I32Add".into());
                    out.push("Drop".into());
                }
                Leaf::BrIf(t) => {
                    out.push("I32Const/i:0".into());
                    out.push(format!("BrIf/l:{}", rel(*t)));
                }
                Leaf::Br(t) => out.push(format!("Br/l:{}", rel(*t))),
                Leaf::BrTable(ts, d) => {
                    out.push("I32Const/i:0".into());
                    let mut s = "BrTable".to_string();
                    for t in ts {
                        s.push_str(&format!("/l:{}", rel(*t)));
                    }
                    s.push_str(&format!("/l:{}", rel(*d)));
                    out.push(s);
                }
                Leaf::Return => out.push("Return".into()),
                Leaf::Unreachable => out.push("Unreachable".into()),
            },
            Node::Block(is_loop, ty, body) => {
                if *ty == Ty::Multi {
                    out.push("I32Const/i:7".into());
                }
                let bt = match ty {
                    Ty::Empty => "be".to_string(),
                    Ty::I32 => "bvi32".to_string(),
                    Ty::Multi => format!("by{}", ctx.multi_index),
                };
                out.push(format!("{}/{}", if *is_loop { "Loop" } else { "Block" }, bt));
                depth_stack.push(0);
                flatten(body, depth_stack, out, ctx);
                depth_stack.pop();
                match ty {
                    Ty::I32 => out.push("I32Const/i:5".into()),
                    Ty::Multi => out.push("I32Eqz".into()),
                    Ty::Empty => {}
                }
                out.push("End".into());
                if *ty != Ty::Empty {
                    out.push("Drop".into());
                }
            }
            Node::If(ty, a, b) => {
                out.push("I32Const/i:1".into());
                out.push(format!("If/{}", if *ty == Ty::Empty { "be" } else { "bvi32" }));
                depth_stack.push(0);
                flatten(a, depth_stack, out, ctx);
                if *ty == Ty::I32 {
                    out.push("I32Const/i:5".into());
                }
                out.push("Else".into());
                flatten(b, depth_stack, out, ctx);
                if *ty == Ty::I32 {
                    out.push("I32Const/i:5".into());
                }
                depth_stack.pop();
                out.push("End".into());
                if *ty != Ty::Empty {
                    out.push("Drop".into());
                }
            }
        }
    }
}

struct FlatCtx {
    helper_index: u32,
    multi_index: u32,
}

// ---------------------------------------------------------------------------------------------
// building through the API, logging a trace for the Lean model
//
// trace tokens (one builder "history"):
//   D<id>:<ty>            dangling_instr_seq(ty) returned sequence <id>
//   P<seq>:<instr>        instr(..) appended to <seq>
//   A<seq>:<pos>:<instr>  instr_at(pos, ..)
//   block()/loop_()/if_else() are logged as the primitive steps they perform, in the order they
//   perform them (allocation of the new sequence(s), the closure's steps, the final push/insert).
// <instr> uses the IR text form of `irtext` (Variant@loc/field=kind:ids) plus the wasm-level
// payload the model needs to print the emitted operator: `!<op token with ids>`.

struct Tracer {
    trace: Vec<String>,
}

fn seq_ty_token(ty: InstrSeqType) -> String {
    match ty {
        InstrSeqType::Simple(None) => "e".into(),
        InstrSeqType::Simple(Some(t)) => format!("v{}", t),
        InstrSeqType::MultiValue(t) => format!("y{}", t.index()),
    }
}

/// wasm-level operator of an IR instruction of the alphabet, with arena ids in reference slots
fn op_token(i: &Instr) -> String {
    match i {
        Instr::Const(c) => match c.value {
            Value::I32(v) => format!("I32Const/i:{}", v as u32),
            _ => "?".into(),
        },
        Instr::Drop(_) => "Drop".into(),
        Instr::LocalGet(e) => format!("LocalGet/x:{}", e.local.index()),
        Instr::LocalSet(e) => format!("LocalSet/x:{}", e.local.index()),
        Instr::LocalTee(e) => format!("LocalTee/x:{}", e.local.index()),
        Instr::GlobalGet(e) => format!("GlobalGet/g:{}", e.global.index()),
        Instr::GlobalSet(e) => format!("GlobalSet/g:{}", e.global.index()),
        Instr::Call(e) => format!("Call/f:{}", e.func.index()),
        Instr::MemoryCopy(e) => format!("MemoryCopy/m:{}/m:{}", e.dst.index(), e.src.index()),
        Instr::Binop(e) => BINOPS.iter().find(|b| std::mem::discriminant(&b.0) == std::mem::discriminant(&e.op)).map(|b| b.1).unwrap_or("?").into(),
        Instr::Unop(e) => UNOPS.iter().find(|u| std::mem::discriminant(&u.0) == std::mem::discriminant(&e.op)).map(|u| u.1).unwrap_or("?").into(),
        Instr::Return(_) => "Return".into(),
        Instr::Unreachable(_) => "Unreachable".into(),
        Instr::Br(e) => format!("Br/s:{}", e.block.index()),
        Instr::BrIf(e) => format!("BrIf/s:{}", e.block.index()),
        Instr::BrTable(e) => {
            let mut s = "BrTable".to_string();
            for b in e.blocks.iter() {
                s.push_str(&format!("/s:{}", b.index()));
            }
            s.push_str(&format!("/s:{}", e.default.index()));
            s
        }
        Instr::Block(e) => format!("Block/s:{}", e.seq.index()),
        Instr::Loop(e) => format!("Loop/s:{}", e.seq.index()),
        Instr::IfElse(e) => format!("IfElse/s:{}/s:{}", e.consequent.index(), e.alternative.index()),
        _ => "?".into(),
    }
}

fn push_instr(b: &mut InstrSeqBuilder, tr: &mut Tracer, rng: &mut Rng, i: Instr) {
    let seq = b.id().index();
    let len = b.instrs().len();
    let tok = op_token(&i);
    if rng.chance(1, 3) {
        // positional insert at the end (same result as append)
        tr.trace.push(format!("A{}:{}:{}", seq, len, tok));
        b.instr_at(len, i);
    } else {
        tr.trace.push(format!("P{}:{}", seq, tok));
        b.instr(i);
    }
}

/// Build `nodes` into the sequence of `b`. `enclosing[k]` = sequence id of enclosing construct k.
/// With probability, the list is built out of order with `instr_at`.
fn build_nodes(b: &mut InstrSeqBuilder, nodes: &[Node], enclosing: &mut Vec<InstrSeqId>, env: &Env, tr: &mut Tracer, rng: &mut Rng) {
    for n in nodes {
        match n {
            Node::Leaf(l) => {
                let instrs: Vec<Instr> = match l {
                    Leaf::ConstDrop(k) => vec![Const { value: Value::I32(*k) }.into(), Drop {}.into()],
                    Leaf::GetSet(a, c) => vec![LocalGet { local: env.locals[*a].0 }.into(), LocalSet { local: env.locals[*c].0 }.into()],
                    Leaf::TeeDrop(a) => vec![Const { value: Value::I32(1) }.into(), LocalTee { local: env.locals[*a].0 }.into(), Drop {}.into()],
                    Leaf::GlobalRW(g) => vec![GlobalGet { global: env.globals[*g] }.into(), GlobalSet { global: env.globals[*g] }.into()],
                    Leaf::Call => vec![Call { func: env.helper }.into()],
                    Leaf::Unop(k) => vec![Const { value: Value::I32(1) }.into(), Unop { op: UNOPS[*k].0 }.into(), Drop {}.into()],
                    Leaf::Binop(k) => vec![Const { value: Value::I32(1) }.into(), Const { value: Value::I32(2) }.into(), Binop { op: BINOPS[*k].0 }.into(), Drop {}.into()],
                    Leaf::MemCopy(src, dst) => vec![
                        Const { value: Value::I32(0) }.into(),
                        Const { value: Value::I32(0) }.into(),
                        Const { value: Value::I32(0) }.into(),
                        MemoryCopy { src: env.mems[*src], dst: env.mems[*dst] }.into(),
                    ],
                    Leaf::Add => vec![Const { value: Value::I32(1) }.into(), Const { value: Value::I32(2) }.into(), Binop { op: BinaryOp::I32Add }.into(), Drop {}.into()],
                    Leaf::BrIf(t) => vec![Const { value: Value::I32(0) }.into(), BrIf { block: enclosing[*t] }.into()],
                    Leaf::Br(t) => vec![Br { block: enclosing[*t] }.into()],
                    Leaf::BrTable(ts, d) => vec![Const { value: Value::I32(0) }.into(), BrTable { blocks: ts.iter().map(|t| enclosing[*t]).collect::<Vec<_>>().into_boxed_slice(), default: enclosing[*d] }.into()],
                    Leaf::Return => vec![Return {}.into()],
                    Leaf::Unreachable => vec![Unreachable {}.into()],
                };
                if instrs.len() >= 2 && rng.chance(1, 4) {
                    // out-of-order construction: push the last first, then insert the others before it
                    let base = b.instrs().len();
                    let seq = b.id().index();
                    let last = instrs.last().unwrap().clone();
                    tr.trace.push(format!("P{}:{}", seq, op_token(&last)));
                    b.instr(last);
                    for (k, i) in instrs[..instrs.len() - 1].iter().enumerate() {
                        tr.trace.push(format!("A{}:{}:{}", seq, base + k, op_token(i)));
                        b.instr_at(base + k, i.clone());
                    }
                } else {
                    for i in instrs {
                        push_instr(b, tr, rng, i);
                    }
                }
            }
            Node::Block(is_loop, ty, body) => {
                let sty: InstrSeqType = match ty {
                    Ty::Empty => None.into(),
                    Ty::I32 => ValType::I32.into(),
                    Ty::Multi => env.multi_sty,
                };
                if *ty == Ty::Multi {
                    push_instr(b, tr, rng, Const { value: Value::I32(7) }.into());
                }
                let strategy = rng.below(3);
                if strategy == 0 {
                    // dangling sequence, filled first, attached later by hand
                    let id = {
                        let mut nb = b.dangling_instr_seq(sty);
                        let id = nb.id();
                        tr.trace.push(format!("D{}:{}", id.index(), seq_ty_token(sty)));
                        enclosing.push(id);
                        build_nodes(&mut nb, body, enclosing, env, tr, rng);
                        finish_typed(&mut nb, *ty, tr, rng);
                        enclosing.pop();
                        id
                    };
                    let i: Instr = if *is_loop { Loop { seq: id }.into() } else { Block { seq: id }.into() };
                    push_instr(b, tr, rng, i);
                } else {
                    // block()/loop_()/block_at()/loop_at(): allocate, run the closure, attach
                    let seq = b.id().index();
                    let pos = b.instrs().len();
                    let at = strategy == 2;
                    let mut inner_id = None;
                    {
                        let tr_ptr: *mut Tracer = tr;
                        let enc_ptr: *mut Vec<InstrSeqId> = enclosing;
                        let rng_ptr: *mut Rng = rng;
                        let closure = |nb: &mut InstrSeqBuilder| {
                            // SAFETY: the closure runs synchronously inside the call below; these
                            // are the unique live references to tr / enclosing / rng at that time.
                            let (tr, enclosing, rng) = unsafe { (&mut *tr_ptr, &mut *enc_ptr, &mut *rng_ptr) };
                            let id = nb.id();
                            inner_id = Some(id);
                            tr.trace.push(format!("D{}:{}", id.index(), seq_ty_token(sty)));
                            enclosing.push(id);
                            build_nodes(nb, body, enclosing, env, tr, rng);
                            finish_typed(nb, *ty, tr, rng);
                            enclosing.pop();
                        };
                        match (is_loop, at) {
                            (false, false) => b.block(sty, closure),
                            (false, true) => b.block_at(pos, sty, closure),
                            (true, false) => b.loop_(sty, closure),
                            (true, true) => b.loop_at(pos, sty, closure),
                        };
                    }
                    let id = inner_id.unwrap().index();
                    let tok = format!("{}/s:{}", if *is_loop { "Loop" } else { "Block" }, id);
                    if at {
                        tr.trace.push(format!("A{}:{}:{}", seq, pos, tok));
                    } else {
                        tr.trace.push(format!("P{}:{}", seq, tok));
                    }
                }
                if *ty != Ty::Empty {
                    push_instr(b, tr, rng, Drop {}.into());
                }
            }
            Node::If(ty, x, y) => {
                let sty: InstrSeqType = match ty {
                    Ty::Empty => None.into(),
                    _ => ValType::I32.into(),
                };
                push_instr(b, tr, rng, Const { value: Value::I32(1) }.into());
                let seq = b.id().index();
                let pos = b.instrs().len();
                let at = rng.chance(1, 2);
                let mut ids = vec![];
                {
                    let tr_ptr: *mut Tracer = tr;
                    let enc_ptr: *mut Vec<InstrSeqId> = enclosing;
                    let rng_ptr: *mut Rng = rng;
                    let ids_ptr: *mut Vec<usize> = &mut ids;
                    let mk = |body: &[Node]| {
                        let body = body.to_vec();
                        move |nb: &mut InstrSeqBuilder| {
                            // SAFETY: as above (synchronous closures, one at a time)
                            let (tr, enclosing, rng, ids) = unsafe { (&mut *tr_ptr, &mut *enc_ptr, &mut *rng_ptr, &mut *ids_ptr) };
                            let id = nb.id();
                            ids.push(id.index());
                            tr.trace.push(format!("D{}:{}", id.index(), seq_ty_token(sty)));
                            enclosing.push(id);
                            build_nodes(nb, &body, enclosing, env, tr, rng);
                            finish_typed(nb, *ty, tr, rng);
                            enclosing.pop();
                        }
                    };
                    if at {
                        b.if_else_at(pos, sty, mk(x), mk(y));
                    } else {
                        b.if_else(sty, mk(x), mk(y));
                    }
                }
                let tok = format!("IfElse/s:{}/s:{}", ids[0], ids[1]);
                if at {
                    tr.trace.push(format!("A{}:{}:{}", seq, pos, tok));
                } else {
                    tr.trace.push(format!("P{}:{}", seq, tok));
                }
                if *ty != Ty::Empty {
                    push_instr(b, tr, rng, Drop {}.into());
                }
            }
        }
    }
}

fn finish_typed(nb: &mut InstrSeqBuilder, ty: Ty, tr: &mut Tracer, rng: &mut Rng) {
    match ty {
        Ty::I32 => push_instr(nb, tr, rng, Const { value: Value::I32(5) }.into()),
        Ty::Multi => push_instr(nb, tr, rng, Unop { op: UnaryOp::I32Eqz }.into()),
        Ty::Empty => {}
    }
}

pub struct Built {
    pub module: Module,
    pub func: FunctionId,
    pub trace: String,
    pub expected: Vec<String>,
    pub nparams: usize,
    pub local_tys: Vec<ValType>,
    pub entry: usize,
    pub locals_ids: Vec<usize>,
    pub helper_id: usize,
    pub global_ids: Vec<usize>,
    pub multi_ty_id: usize,
    pub size_nodes: usize,
}

pub fn build_case(seed: u64, case: u64) -> Built {
    let mut rng = Rng::new(seed ^ 0xb111, case);
    let mut module = Module::with_config(ModuleConfig::new());
    // environment: helper function, globals, locals
    let helper = {
        let b = FunctionBuilder::new(&mut module.types, &[], &[]);
        b.finish(vec![], &mut module.funcs)
    };
    let nglobals = rng.below(3) as usize;
    let globals: Vec<GlobalId> = (0..nglobals).map(|k| module.globals.add_local(ValType::I32, true, false, walrus::ConstExpr::Value(Value::I32(k as i32)))).collect();
    let tys = [ValType::I32, ValType::I64, ValType::F32, ValType::F64];
    let nparams = rng.below(4) as usize;
    let nlocals = rng.below(6) as usize;
    let local_tys: Vec<ValType> = (0..nparams + nlocals).map(|_| *rng.pick(&tys)).collect();
    // local ids are allocated in positional order in half of the cases and in a shuffled order in the
    // other half (nothing says that a parameter's id is smaller than the next parameter's)
    let mut alloc_order: Vec<usize> = (0..local_tys.len()).collect();
    if case % 2 == 1 {
        for i in (1..alloc_order.len()).rev() {
            let j = rng.below(i as u64 + 1) as usize;
            alloc_order.swap(i, j);
        }
    }
    let mut slots: Vec<Option<(LocalId, ValType)>> = vec![None; local_tys.len()];
    for pos in alloc_order {
        slots[pos] = Some((module.locals.add(local_tys[pos]), local_tys[pos]));
    }
    let locals: Vec<(LocalId, ValType)> = slots.into_iter().map(|x| x.unwrap()).collect();
    let multi_ty = module.types.add(&[ValType::I32], &[ValType::I32]);
    // the documented way to get a sequence type from a signature, in half of the cases
    let multi_sty: InstrSeqType = if rng.chance(1, 2) { InstrSeqType::new(&mut module.types, &[ValType::I32], &[ValType::I32]) } else { multi_ty.into() };
    // two memories, so that an instruction can name two different ones
    let mems: Vec<walrus::MemoryId> = (0..2).map(|_| module.memories.add_local(false, false, 1, None, None)).collect();
    let env = Env { locals: locals.clone(), nparams, globals: globals.clone(), mems, helper, multi_ty, multi_sty };
    let env_locals: Vec<(usize, ValType)> = locals.iter().enumerate().map(|(k, l)| (k, l.1)).collect();
    let mut budget = *rng.pick(&[4i64, 12, 30, 60]);
    let depth = rng.range(1, 6) as usize;
    let mut nodes = gen_nodes(&mut rng, depth, 1, &mut budget, &env_locals, nglobals);
    fix_targets(&mut nodes, &vec![true]);
    let params: Vec<ValType> = local_tys[..nparams].to_vec();
    let mut fb = FunctionBuilder::new(&mut module.types, &params, &[]);
    let mut tr = Tracer { trace: vec![] };
    let entry = fb.func_body_id();
    tr.trace.push(format!("D{}:e", entry.index()));
    {
        let mut body = fb.func_body();
        let mut enclosing = vec![entry];
        build_nodes(&mut body, &nodes, &mut enclosing, &env, &mut tr, &mut rng);
    }
    let args: Vec<LocalId> = locals[..nparams].iter().map(|l| l.0).collect();
    let func = fb.finish(args, &mut module.funcs);
    module.exports.add("f", func);
    module.exports.add("h", helper);
    // expected flattening: helper is function index ? (emission sorts by size, then id) — resolved
    // by the caller from the emitted module (the helper has an empty body).
    fn count(ns: &[Node]) -> usize {
        ns.iter().map(|n| match n { Node::Leaf(_) => 1, Node::Block(_, _, b) => 1 + count(b), Node::If(_, a, b) => 1 + count(a) + count(b) }).sum()
    }
    let size_nodes = count(&nodes);
    let mut expected = vec![];
    // placeholder indices, patched by the caller
    flatten(&nodes, &mut vec![0], &mut expected, &FlatCtx { helper_index: u32::MAX, multi_index: u32::MAX });
    expected.push("End".into());
    Built {
        module,
        func,
        trace: tr.trace.join(" "),
        expected,
        nparams,
        local_tys,
        entry: entry.index(),
        locals_ids: locals.iter().map(|l| l.0.index()).collect(),
        helper_id: helper.index(),
        global_ids: globals.iter().map(|g| g.index()).collect(),
        multi_ty_id: multi_ty.index(),
        size_nodes,
    }
}

/// C16: run the recording visitors over built functions
pub fn visit_built(seed: u64, n: usize, stats: &mut crate::visit::Stats) {
    for case in 0..n as u64 {
        let mut b = build_case(seed, case);
        let f = b.module.funcs.get_mut(b.func).kind.unwrap_local_mut();
        crate::visit::run_function(&format!("b{}", case), f, stats, &format!("built:{}:{}", seed, case));
        stats.built += 1;
    }
}

pub fn replay(tape: &str, stats: &mut crate::visit::Stats) {
    let f: Vec<&str> = tape.split(':').collect();
    let (seed, case): (u64, u64) = (f[0].parse().unwrap(), f[1].parse().unwrap());
    let mut b = build_case(seed, case);
    let func = b.module.funcs.get_mut(b.func).kind.unwrap_local_mut();
    crate::visit::run_function("replay", func, stats, tape);
}

// ---------------------------------------------------------------------------------------------
// C15 suite

fn run_c15(case_name: &str, seed: u64, case: u64, stats: &mut BStats) {
    let mut b = match out::catch(|| build_case(seed, case)) {
        Ok(b) => b,
        Err(p) => {
            out::oracle(case_name, false, "C15:builder-panic", &format!("building panicked: {} | only: {}:{}", p, seed, case));
            return;
        }
    };
    let only = format!("{}:{}", seed, case);
    let ir_text = {
        let f = b.module.funcs.get(b.func).kind.unwrap_local();
        irtext::func_text(f, f.entry_block())
    };
    let _ = ir_text;
    let wasm = match out::catch(|| b.module.emit_wasm()) {
        Ok(w) => w,
        Err(p) => {
            out::oracle(case_name, false, "C15:emit-panic", &format!("emit panicked: {} | only: {}", p, only));
            return;
        }
    };
    let valid = decode::validate(&wasm, decode::walrus_features(false));
    let m = decode::decode(&wasm).expect("decode emitted");
    // locate the built function and the helper in the output through the exports
    let fidx = m.exports.iter().find(|e| e.name == "f").unwrap().index;
    let hidx = m.exports.iter().find(|e| e.name == "h").unwrap().index;
    let body = &m.code[(fidx - m.n_imported(decode::Space::Func)) as usize];
    let got: Vec<String> = body.ops.iter().map(|o| o.text()).collect();
    // type index of (i32)->(i32)
    let multi_index = m.types.iter().position(|t| t.0 == vec!["i32".to_string()] && t.1 == vec!["i32".to_string()]).map(|x| x as u32).unwrap_or(u32::MAX);

    // ---- correspondence request: trace + environment; the model answers the emitted body with
    // locals as slots and entity references as output indices
    // id -> index maps observed from the output for the entities the body can mention
    let mut req = format!("builder {} np{}", b.entry, b.nparams);
    req.push_str(&format!(" L{}", b.locals_ids.iter().zip(b.local_tys.iter()).map(|(i, t)| format!("{}:{}", i, t)).collect::<Vec<_>>().join(",")));
    req.push_str(&format!(" F{}:{}", b.helper_id, hidx));
    req.push_str(&format!(" G{}", b.global_ids.iter().enumerate().map(|(k, g)| format!("{}:{}", g, k)).collect::<Vec<_>>().join(",")));
    req.push_str(&format!(" Y{}:{}", b.multi_ty_id, multi_index));
    req.push_str(" | ");
    req.push_str(&b.trace);
    let locals_decl = body.locals.iter().map(|(n, t)| format!("{}x{}", n, t)).collect::<Vec<_>>().join(",");
    let observed = format!("[{}] {}", locals_decl, got.join(" "));
    out::corr(case_name, b.size_nodes >= 3, &req, &observed);
    stats.cases += 1;
    stats.nodes += b.size_nodes;
    stats.ops += got.len();
    if stats.samples < 3 && b.size_nodes >= 3 && got.len() < 40 {
        out::sample(&format!("{} => {}", req, observed));
        stats.samples += 1;
    }

    // ---- oracle: emitted body = in-order flattening of the built tree
    let mut ok = true;
    if let Err(e) = valid {
        ok = false;
        out::oracle(case_name, false, "C15:invalid-output", &format!("emitted module does not validate: {} | only: {}", e, only));
    }
    // patch placeholders in the expectation
    let expected: Vec<String> = b.expected.iter().map(|t| t.replace(&format!("f:{}", u32::MAX), &format!("f:{}", hidx)).replace(&format!("by{}", u32::MAX), &format!("by{}", multi_index))).collect();
    // compare modulo the local map: collect ordinal -> slot
    let mut map: std::collections::HashMap<usize, u32> = Default::default();
    if expected.len() != got.len() {
        ok = false;
        out::oracle(case_name, false, "C15:body-differs", &format!("emitted body has {} operators, the flattening of the built tree {} | only: {}", got.len(), expected.len(), only));
    } else {
        for (k, (e, g)) in expected.iter().zip(got.iter()).enumerate() {
            let (en, gn) = (e.split('/').next().unwrap(), g.split('/').next().unwrap());
            if en.starts_with("Local") && en == gn {
                let ord: usize = e.split("x:").nth(1).unwrap().parse().unwrap();
                let slot: u32 = g.split("x:").nth(1).unwrap().parse().unwrap();
                if let Some(prev) = map.insert(ord, slot) {
                    if prev != slot {
                        ok = false;
                        out::oracle(case_name, false, "C15:local-slot-unstable", &format!("local #{} emitted as slot {} and {} | only: {}", ord, prev, slot, only));
                        break;
                    }
                }
            } else if e != g {
                ok = false;
                out::oracle(case_name, false, "C15:body-differs", &format!("operator #{}: emitted {}, flattening of the built tree has {} | only: {}", k, g, e, only));
                break;
            }
        }
    }
    if ok {
        // parameters at their positions, distinct slots, matching types
        let mut slots: Vec<u32> = map.values().copied().collect();
        slots.sort();
        let distinct = slots.windows(2).all(|w| w[0] != w[1]);
        let mut decl: Vec<String> = vec![];
        for (n, t) in &body.locals {
            for _ in 0..*n {
                decl.push(t.clone());
            }
        }
        let mut bad = None;
        for (ord, slot) in &map {
            if *ord < b.nparams {
                if *slot as usize != *ord {
                    bad = Some(format!("parameter #{} emitted as slot {}", ord, slot));
                }
            } else {
                let k = *slot as usize;
                if k < b.nparams || k - b.nparams >= decl.len() {
                    bad = Some(format!("local #{} emitted as slot {} outside the declared locals", ord, slot));
                } else if decl[k - b.nparams] != format!("{}", b.local_tys[*ord]) {
                    bad = Some(format!("local #{} of type {} emitted as slot {} of type {}", ord, b.local_tys[*ord], slot, decl[k - b.nparams]));
                }
            }
        }
        let used_nonparam = map.keys().filter(|o| **o >= b.nparams).count();
        if !distinct {
            bad = Some("two locals share a slot".into());
        }
        if bad.is_none() && used_nonparam != decl.len() {
            bad = Some(format!("{} locals declared for {} used non-parameter locals", decl.len(), used_nonparam));
        }
        if let Some(bad) = bad {
            ok = false;
            out::oracle(case_name, false, "C15:locals", &format!("{} | only: {}", bad, only));
        }
    }
    if ok {
        out::oracle(case_name, true, "", "");
    }
}

#[derive(Default)]
struct BStats {
    cases: usize,
    nodes: usize,
    ops: usize,
    samples: usize,
}

pub fn main(seed: u64, tier: &str, only: Option<&str>) {
    let mut stats = BStats::default();
    if let Some(o) = only {
        let f: Vec<&str> = o.split(':').collect();
        run_c15("replay", f[0].parse().unwrap(), f[1].parse().unwrap(), &mut stats);
        return;
    }
    let n = if tier == "thorough" { 10_000 * crate::out::thorough_scale() } else { 500 };
    for case in 0..n {
        run_c15(&format!("b{}", case), seed, case as u64, &mut stats);
    }
    out::stat("builder.cases", stats.cases);
    out::stat("builder.tree_nodes", stats.nodes);
    out::stat("builder.emitted_operators", stats.ops);
}
