//! Suite `code` (C03; also feeds C01/C04 later): function bodies through parse -> emit.
//!
//! Correspondence: the Lean model (`roundTripCode`: type de-duplication/sorting, size-sorted
//! function order, local compaction, control-stack parse, in-order emit) must predict the emitted
//! type section, function order, declared locals and every operator exactly.
//! Oracle (independent of the model): input and output bodies decoded with wasmparser and compared
//! after (i) the renaming read off the two binaries, (ii) nop / dead-code elision on the flat
//! stream, (iii) identifying `if … end` with `if … else end`.
use crate::decode::{self, AMod, AOp, Arg, Bt, Space};
use crate::gen::{self, GenCfg};
use crate::opsx;
use crate::out;
use crate::rng::Rng;
use std::collections::HashMap;

fn sig_text(s: &(Vec<String>, Vec<String>)) -> String {
    format!("{}>{}", s.0.join(","), s.1.join(","))
}

fn locals_text(l: &[(u32, String)]) -> String {
    if l.is_empty() {
        "-".into()
    } else {
        l.iter().map(|(n, t)| format!("{}x{}", n, t)).collect::<Vec<_>>().join(",")
    }
}

pub fn request(a: &AMod) -> String {
    let mut s = format!("code {} T", a.n_imported(Space::Func));
    for t in &a.types {
        s.push(' ');
        s.push_str(&sig_text(t));
    }
    for (k, body) in a.code.iter().enumerate() {
        s.push_str(&format!(" F {} {}", a.funcs[k], locals_text(&body.locals)));
        for op in &body.ops {
            s.push_str(&format!(" {}@{}", op.text(), op.offset));
        }
    }
    s
}

/// input function index -> output function index, through the `__f<i>` exports
fn func_map(a: &AMod, b: &AMod) -> Option<HashMap<u32, u32>> {
    let mut m = HashMap::new();
    for e in &b.exports {
        if let Some(i) = e.name.strip_prefix("__f") {
            if let Ok(i) = i.parse::<u32>() {
                if e.kind == Space::Func {
                    m.insert(i, e.index);
                }
            }
        }
    }
    if m.len() as u32 == a.count(Space::Func) {
        Some(m)
    } else {
        None
    }
}

pub fn observed(a: &AMod, b: &AMod) -> String {
    let ni = b.n_imported(Space::Func);
    let fm = func_map(a, b);
    let order: Vec<String> = match &fm {
        Some(fm) => {
            let mut inv: HashMap<u32, u32> = HashMap::new();
            for (i, o) in fm {
                inv.insert(*o, *i);
            }
            (0..b.code.len() as u32).map(|j| inv.get(&(ni + j)).map(|i| (i - ni).to_string()).unwrap_or("?".into())).collect()
        }
        None => vec!["?".into()],
    };
    let mut s = format!("O{} T", order.join(","));
    for t in &b.types {
        s.push(' ');
        s.push_str(&sig_text(t));
    }
    for (k, body) in b.code.iter().enumerate() {
        s.push_str(&format!(" | t{} [{}]", b.funcs[k], if body.locals.is_empty() { "".to_string() } else { locals_text(&body.locals) }));
        for op in &body.ops {
            s.push(' ');
            s.push_str(&op.text());
        }
    }
    s
}

// ---------------------------------------------------------------------------------------------
// oracle

/// nop and dead-code elision on a flat, well-nested operator stream; also writes the `else` of
/// every `if` (the binary format's `if … end` abbreviates `if … else end`)
pub fn elide(ops: &[AOp]) -> Vec<AOp> {
    #[derive(Clone, Copy, PartialEq)]
    enum K {
        Func,
        Block,
        If,
        Else,
    }
    struct F {
        kind: K,
        dead: bool,      // nothing more of this frame is kept
        kept: bool,      // the construct itself is kept (its parent was live when it started)
    }
    let mut out = vec![];
    let mut st: Vec<F> = vec![F { kind: K::Func, dead: false, kept: true }];
    for op in ops {
        let live = { let f = st.last().unwrap(); f.kept && !f.dead };
        match op.name {
            "Block" | "Loop" | "If" => {
                if live {
                    out.push(op.clone());
                }
                st.push(F { kind: if op.name == "If" { K::If } else { K::Block }, dead: false, kept: live });
            }
            "Else" => {
                let f = st.last_mut().unwrap();
                f.kind = K::Else;
                f.dead = false;
                if f.kept {
                    out.push(op.clone());
                }
            }
            "End" => {
                let f = st.pop().unwrap();
                if f.kept {
                    if f.kind == K::If {
                        let mut e = op.clone();
                        e.name = "Else";
                        out.push(e);
                    }
                    out.push(op.clone());
                }
            }
            "Nop" => {}
            _ => {
                if live {
                    out.push(op.clone());
                    if matches!(op.name, "Br" | "BrTable" | "Return" | "Unreachable") {
                        st.last_mut().unwrap().dead = true;
                    }
                }
            }
        }
    }
    out
}

fn bt_sig(m: &AMod, bt: &Bt) -> String {
    match bt {
        Bt::Empty => ">".into(),
        Bt::Val(v) => format!(">{}", v),
        Bt::Ty(i) => m.types.get(*i as usize).map(sig_text).unwrap_or("?".into()),
    }
}

/// operator with entity operands renamed / resolved so that input and output are comparable
fn canon(m: &AMod, op: &AOp, fmap: Option<&HashMap<u32, u32>>, lmap: Option<&mut HashMap<u32, u32>>, out_side_local: Option<u32>) -> String {
    let _ = (lmap, out_side_local);
    let mut s = op.name.to_string();
    for a in &op.args {
        s.push('/');
        match a {
            Arg::Ref(Space::Func, n) => s.push_str(&format!("f:{}", fmap.map(|f| f.get(n).copied().unwrap_or(u32::MAX)).unwrap_or(*n))),
            Arg::Ref(Space::Type, n) => s.push_str(&format!("y:{}", m.types.get(*n as usize).map(sig_text).unwrap_or("?".into()))),
            Arg::Ref(Space::Local, _) => s.push_str("x:_"),
            // an element or data segment operand must denote the same segment: index and content
            Arg::Ref(Space::Elem, n) => s.push_str(&format!("e:{}[{}]", n, elem_sig(m, *n, fmap))),
            Arg::Ref(Space::Data, n) => s.push_str(&format!("d:{}[{}]", n, m.datas.get(*n as usize).map(|d| format!("{}:{}", matches!(d.mode, crate::decode::DataMode::Passive) as u8, crate::out::hex(&d.bytes))).unwrap_or("?".into()))),
            Arg::Ref(sp, n) => s.push_str(&format!("{}:{}", sp.tag(), n)),
            Arg::Imm(i) => s.push_str(&format!("i:{}", i)),
            Arg::Bt(bt) => s.push_str(&format!("b{}", bt_sig(m, bt))),
        }
    }
    s
}

/// what an element segment is, with function indices followed through the round trip
fn elem_sig(m: &AMod, n: u32, fmap: Option<&HashMap<u32, u32>>) -> String {
    let f = |x: u32| fmap.map(|fm| fm.get(&x).copied().unwrap_or(u32::MAX)).unwrap_or(x);
    match m.elems.get(n as usize) {
        None => "?".into(),
        Some(e) => {
            let mode = match &e.mode {
                crate::decode::ElemMode::Active { table, .. } => format!("a{}", table.unwrap_or(0)),
                crate::decode::ElemMode::Passive => "p".into(),
                crate::decode::ElemMode::Declared => "d".into(),
            };
            let items = match &e.items {
                crate::decode::ElemItems::Funcs(fs) => fs.iter().map(|x| f(*x).to_string()).collect::<Vec<_>>().join(","),
                crate::decode::ElemItems::Exprs(_, es) => es
                    .iter()
                    .map(|c| c.ops().iter().map(|o| match o.args.first() { Some(Arg::Ref(Space::Func, x)) => f(*x).to_string(), Some(Arg::Ref(sp, x)) => format!("{}{}", sp.tag(), x), _ => "n".into() }).collect::<Vec<_>>().join("."))
                    .collect::<Vec<_>>()
                    .join(","),
            };
            format!("{}:{}", mode, items)
        }
    }
}

fn local_of(op: &AOp) -> Option<u32> {
    op.args.iter().find_map(|a| if let Arg::Ref(Space::Local, n) = a { Some(*n) } else { None })
}

fn local_types(m: &AMod, k: usize) -> Vec<String> {
    let mut v: Vec<String> = m.types[m.funcs[k] as usize].0.clone();
    for (n, t) in &m.code[k].locals {
        for _ in 0..*n {
            v.push(t.clone());
        }
    }
    v
}

pub fn oracle_c03(a: &AMod, b: &AMod) -> Result<(), (String, String)> {
    let fm = func_map(a, b).ok_or(("C03:function-correspondence".to_string(), "cannot follow functions through the `__f<i>` exports".to_string()))?;
    let ni = a.n_imported(Space::Func);
    if a.code.len() != b.code.len() {
        return Err(("C03:function-count".into(), format!("{} bodies in, {} out", a.code.len(), b.code.len())));
    }
    for k in 0..a.code.len() {
        let out_idx = *fm.get(&(ni + k as u32)).unwrap();
        if out_idx < ni {
            return Err(("C03:function-correspondence".into(), format!("local function {} became import {}", k, out_idx)));
        }
        let j = (out_idx - ni) as usize;
        let want = elide(&a.code[k].ops);
        let got = &b.code[j].ops;
        // function signature (structural)
        let (sa, sb) = (&a.types[a.funcs[k] as usize], &b.types[b.funcs[j] as usize]);
        if sa != sb {
            return Err(("C03:function-signature".into(), format!("function {}: signature {} became {}", k, sig_text(sa), sig_text(sb))));
        }
        if want.len() != got.len() {
            let at = want.iter().zip(got.iter()).position(|(x, y)| canon(a, x, Some(&fm), None, None) != canon(b, y, None, None, None)).unwrap_or(want.len().min(got.len()));
            return Err((
                "C03:operator-count".into(),
                format!("function {}: {} operators expected after elision, {} emitted; first difference at #{}: expected {:?}, got {:?}", k, want.len(), got.len(), at, want.get(at).map(|o| o.text()), got.get(at).map(|o| o.text())),
            ));
        }
        let (lta, ltb) = (local_types(a, k), local_types(b, j));
        let nparams = sa.0.len() as u32;
        let mut lmap: HashMap<u32, u32> = HashMap::new();
        let mut rev: HashMap<u32, u32> = HashMap::new();
        for (n, (x, y)) in want.iter().zip(got.iter()).enumerate() {
            let (cx, cy) = (canon(a, x, Some(&fm), None, None), canon(b, y, None, None, None));
            if cx != cy {
                let mut key = if x.name != y.name { "C03:opcode-changed" } else { "C03:immediate-changed" };
                // the one open finding of this property has a precise signature: a memarg offset >= 2^32
                // that comes out reduced modulo 2^32, everything else equal
                if x.name == y.name && x.args.len() == y.args.len() {
                    let diffs: Vec<usize> = (0..x.args.len()).filter(|i| x.args[*i] != y.args[*i]).collect();
                    if diffs.len() == 1 {
                        let d = diffs[0];
                        if let (Arg::Imm(w), Arg::Imm(g), Some(Arg::Ref(Space::Mem, _))) = (&x.args[d], &y.args[d], x.args.get(d + 1)) {
                            if let (Ok(w), Ok(g)) = (w.parse::<u64>(), g.parse::<u64>()) {
                                if w >= (1 << 32) && g == w % (1 << 32) {
                                    key = "C03:memarg-offset-truncated-to-u32";
                                }
                            }
                        }
                    }
                }
                return Err((key.into(), format!("function {} operator #{}: {} became {}", k, n, x.text(), y.text())));
            }
            if let (Some(lx), Some(ly)) = (local_of(x), local_of(y)) {
                if let Some(p) = lmap.insert(lx, ly) {
                    if p != ly {
                        return Err(("C03:local-renaming".into(), format!("function {}: local {} emitted as {} and as {}", k, lx, p, ly)));
                    }
                }
                if let Some(p) = rev.insert(ly, lx) {
                    if p != lx {
                        return Err(("C03:local-renaming".into(), format!("function {}: locals {} and {} share slot {}", k, p, lx, ly)));
                    }
                }
                if lx < nparams && ly != lx {
                    return Err(("C03:local-renaming".into(), format!("function {}: parameter {} emitted as local {}", k, lx, ly)));
                }
                if lta.get(lx as usize) != ltb.get(ly as usize) {
                    return Err(("C03:local-renaming".into(), format!("function {}: local {} of type {:?} emitted as slot {} of type {:?}", k, lx, lta.get(lx as usize), ly, ltb.get(ly as usize))));
                }
            }
        }
    }
    Ok(())
}

#[derive(Default)]
pub struct Stats {
    pub modules: usize,
    pub bodies: usize,
    pub ops_in: usize,
    pub ops_elided: usize,
    pub samples: usize,
    pub op_names: std::collections::BTreeSet<&'static str>,
}

pub fn run_wasm(case: &str, wasm: &[u8], stats: &mut Stats, nontrivial_hint: bool) {
    let prop = std::env::var("VERIF_PROPERTY").unwrap_or_default();
    let only = out::hex(wasm);
    let a = match decode::decode(wasm) {
        Ok(a) => a,
        Err(_) => return,
    };
    let res = out::catch(|| walrus::Module::from_buffer(wasm).map(|mut m| m.emit_wasm()));
    let bytes = match res {
        Err(p) => {
            out::corr(case, false, &request(&a), "PANIC");
            out::oracle(case, false, "C02:panic", &format!("round trip panicked: {} | only: {}", p, only));
            return;
        }
        Ok(Err(e)) => {
            out::corr(case, false, &request(&a), "REJECTED");
            out::oracle(case, false, "C05:valid-module-rejected", &format!("walrus rejects a module the reference validator accepts: {:#} | only: {}", e, only));
            return;
        }
        Ok(Ok(b)) => b,
    };
    let b = decode::decode(&bytes).expect("decode walrus output");
    let req = request(&a);
    let obs = observed(&a, &b);
    let nt = nontrivial_hint || a.code.iter().any(|c| c.ops.iter().any(|o| matches!(o.name, "Block" | "Loop" | "If")));
    out::corr(case, nt, &req, &obs);
    stats.modules += 1;
    stats.bodies += a.code.len();
    for c in &a.code {
        stats.ops_in += c.ops.len();
        stats.ops_elided += c.ops.len() - elide(&c.ops).len() + c.ops.iter().filter(|o| o.name == "If").count();
        for o in &c.ops {
            stats.op_names.insert(o.name);
        }
    }
    if stats.samples < 3 && req.len() < 500 && nt {
        out::sample(&format!("{} => {}", req, obs));
        stats.samples += 1;
    }
    if prop == "C03" || prop.is_empty() {
        match oracle_c03(&a, &b) {
            Ok(()) => out::oracle(case, true, "", ""),
            Err((key, msg)) => out::oracle(case, false, &key, &format!("{} | only: {}", msg, only)),
        }
    }
}

pub fn main(seed: u64, tier: &str, only: Option<&str>) {
    let mut stats = Stats::default();
    if let Some(o) = only {
        run_wasm("replay", &out::unhex(o), &mut stats, true);
        return;
    }
    // 1. every supported plain operator, with boundary immediates
    let nchoices = if tier == "thorough" { 9 } else { 3 };
    let u = opsx::universe(nchoices);
    let mut per_op = std::collections::BTreeSet::new();
    for (k, c) in u.cases.iter().enumerate() {
        // instances whose immediates are the open finding of C03 (memory64 offsets >= 2^32) are generated too
        run_wasm(&format!("op{}.{}.{}", k, c.name, c.choice), &c.wasm, &mut stats, true);
        per_op.insert(c.name);
    }
    out::stat("code.operators_supported_plain", u.supported_plain);
    out::stat("code.operators_exercised", per_op.len());
    out::stat("code.operator_instances", u.cases.len());
    out::stat("code.operators_untypable", u.untypable.len());
    // 2. generated modules
    let n = if tier == "thorough" { 4000 * crate::out::thorough_scale() } else { 250 };
    for case in 0..n {
        let mut rng = Rng::new(seed ^ 0xc0de, case as u64);
        let mut g = if case % 3 == 0 { GenCfg::mvp() } else { GenCfg::random(&mut rng) };
        g.export_all_funcs = true;
        g.import_mem64 = false; // D2 (C04) kept out of this suite's inputs
        g.extern_elem_global = false;
        g.names = false;
        g.producers = false;
        g.customs = false;
        let (wasm, _) = gen::gen_valid(&mut rng, &g);
        run_wasm(&format!("g{}", case), &wasm, &mut stats, false);
    }
    out::stat("code.modules", stats.modules);
    out::stat("code.bodies", stats.bodies);
    out::stat("code.operators_in", stats.ops_in);
    out::stat("code.operators_elided_or_completed", stats.ops_elided);
    out::stat("code.distinct_operator_names", stats.op_names.len());
}
