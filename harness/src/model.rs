//! Access to the compiled Lean model (`wmodel`) from inside the harness, for suites that use the
//! Lean interpreter as an independent oracle (it links nothing of walrus).
use std::io::Write;
use std::process::{Command, Stdio};

pub fn path() -> String {
    std::env::var("VERIF_WMODEL").unwrap_or_else(|_| "/verif/lean/.lake/build/bin/wmodel".to_string())
}

/// one request per line in, one answer per line out
pub fn ask(reqs: &[String]) -> Vec<String> {
    if reqs.is_empty() {
        return vec![];
    }
    let mut child = Command::new(path()).stdin(Stdio::piped()).stdout(Stdio::piped()).spawn().expect("spawn wmodel");
    let mut stdin = child.stdin.take().unwrap();
    let body = reqs.join("\n") + "\n";
    let w = std::thread::spawn(move || {
        stdin.write_all(body.as_bytes()).unwrap();
    });
    let out = child.wait_with_output().expect("wmodel output");
    w.join().unwrap();
    let text = String::from_utf8_lossy(&out.stdout).to_string();
    let ans: Vec<String> = text.lines().map(|s| s.to_string()).collect();
    assert_eq!(ans.len(), reqs.len(), "wmodel answered {} of {} requests", ans.len(), reqs.len());
    ans
}
