//! Suite `module` (C04, C13; also the whole-module correspondence): parse -> emit of complete
//! generated modules. The Lean model `roundTripModule` must predict the decoded output exactly.
use crate::decode::{self, AMod, Arg, CExpr, DataMode, ElemItems, ElemMode, ImportDesc, Space};
use crate::gen::{self, GenCfg};
use crate::modtext;
use crate::out;
use crate::rng::Rng;
use std::collections::HashMap;

pub struct Rho {
    pub funcs: HashMap<u32, u32>,
}

pub fn rho(a: &AMod, b: &AMod) -> Option<Rho> {
    let mut m = HashMap::new();
    for e in &b.exports {
        if let Some(i) = e.name.strip_prefix("__f") {
            if let Ok(i) = i.parse::<u32>() {
                if e.kind == Space::Func {
                    m.insert(i, e.index);
                }
            }
        }
    }
    if m.len() as u32 == a.count(Space::Func) {
        Some(Rho { funcs: m })
    } else {
        None
    }
}

fn sig(m: &AMod, t: u32) -> String {
    m.types.get(t as usize).map(|s| format!("{}>{}", s.0.join(","), s.1.join(","))).unwrap_or("?".into())
}

/// constant expression with function references renamed (input side) — other spaces keep indices
fn cexpr_canon(c: &CExpr, fm: Option<&HashMap<u32, u32>>) -> String {
    c.ops()
        .iter()
        .map(|o| {
            let mut s = o.name.to_string();
            for a in &o.args {
                match a {
                    Arg::Ref(Space::Func, n) => s.push_str(&format!("/f:{}", fm.map(|f| f.get(n).copied().unwrap_or(u32::MAX)).unwrap_or(*n))),
                    Arg::Ref(sp, n) => s.push_str(&format!("/{}:{}", sp.tag(), n)),
                    Arg::Imm(i) => s.push_str(&format!("/i:{}", i)),
                    Arg::Bt(_) => s.push_str("/b"),
                }
            }
            s
        })
        .collect::<Vec<_>>()
        .join("+")
}

pub fn oracle_c04(a: &AMod, b: &AMod) -> Vec<(String, String)> {
    let mut f = vec![];
    let Some(r) = rho(a, b) else {
        f.push(("C04:function-correspondence".into(), "cannot follow functions through the `__f<i>` exports".into()));
        return f;
    };
    // imports
    if a.imports.len() != b.imports.len() {
        f.push(("C04:import-count".into(), format!("{} imports in, {} out", a.imports.len(), b.imports.len())));
    } else {
        for (k, (x, y)) in a.imports.iter().zip(b.imports.iter()).enumerate() {
            if x.module != y.module || x.name != y.name {
                f.push(("C04:import-name-or-order".into(), format!("import #{}: {}.{} became {}.{}", k, x.module, x.name, y.module, y.name)));
                continue;
            }
            match (&x.desc, &y.desc) {
                (ImportDesc::Func(t1), ImportDesc::Func(t2)) => {
                    if sig(a, *t1) != sig(b, *t2) {
                        f.push(("C04:import-func-type".into(), format!("import #{}: signature {} became {}", k, sig(a, *t1), sig(b, *t2))));
                    }
                }
                (ImportDesc::Table(t1), ImportDesc::Table(t2)) => {
                    if t1 != t2 {
                        f.push(("C04:import-table-type".into(), format!("import #{}: {:?} became {:?}", k, t1, t2)));
                    }
                }
                (ImportDesc::Mem(m1), ImportDesc::Mem(m2)) => {
                    if m1 != m2 {
                        let only64 = { let mut c = m2.clone(); c.mem64 = m1.mem64; c.page_log2 = m1.page_log2; &c == m1 };
                        f.push((if only64 { "C04:imported-memory-loses-64bit-or-page-size".into() } else { "C04:import-memory-type".into() }, format!("import #{}: {:?} became {:?}", k, m1, m2)));
                    }
                }
                (ImportDesc::Global(g1), ImportDesc::Global(g2)) => {
                    if g1 != g2 {
                        f.push(("C04:import-global-type".into(), format!("import #{}: {:?} became {:?}", k, g1, g2)));
                    }
                }
                _ => f.push(("C04:import-kind".into(), format!("import #{} changed kind", k))),
            }
        }
    }
    // local tables / memories / globals
    if a.tables.iter().map(|t| &t.0).collect::<Vec<_>>() != b.tables.iter().map(|t| &t.0).collect::<Vec<_>>() {
        f.push(("C04:tables".into(), format!("tables {:?} became {:?}", a.tables, b.tables)));
    }
    if a.memories != b.memories {
        f.push(("C04:memories".into(), format!("memories {:?} became {:?}", a.memories, b.memories)));
    }
    if a.globals.len() != b.globals.len() {
        f.push(("C04:global-count".into(), format!("{} globals in, {} out", a.globals.len(), b.globals.len())));
    } else {
        for (k, (x, y)) in a.globals.iter().zip(b.globals.iter()).enumerate() {
            if x.0 != y.0 || cexpr_canon(&x.1, Some(&r.funcs)) != cexpr_canon(&y.1, None) {
                f.push(("C04:global".into(), format!("global #{}: {:?} = {} became {:?} = {}", k, x.0, cexpr_canon(&x.1, Some(&r.funcs)), y.0, cexpr_canon(&y.1, None))));
            }
        }
    }
    // exports
    let ex = |m: &AMod, fm: Option<&HashMap<u32, u32>>| -> Vec<(String, Space, u32)> {
        m.exports.iter().map(|e| (e.name.clone(), e.kind, if e.kind == Space::Func { fm.map(|f| f.get(&e.index).copied().unwrap_or(u32::MAX)).unwrap_or(e.index) } else { e.index })).collect()
    };
    if ex(a, Some(&r.funcs)) != ex(b, None) {
        f.push(("C04:exports".into(), "export list (name, kind, target, order) changed".into()));
    }
    // start
    if a.start.map(|s| r.funcs.get(&s).copied().unwrap_or(u32::MAX)) != b.start {
        f.push(("C04:start".into(), format!("start {:?} became {:?}", a.start, b.start)));
    }
    // function signatures
    let ni = a.n_imported(Space::Func);
    for k in 0..a.funcs.len() as u32 {
        let o = r.funcs.get(&(ni + k)).copied().unwrap_or(u32::MAX);
        if o < ni || (o - ni) as usize >= b.funcs.len() {
            f.push(("C04:function-lost".into(), format!("local function {} has no local counterpart", k)));
            continue;
        }
        if sig(a, a.funcs[k as usize]) != sig(b, b.funcs[(o - ni) as usize]) {
            f.push(("C04:function-signature".into(), format!("function {}: {} became {}", k, sig(a, a.funcs[k as usize]), sig(b, b.funcs[(o - ni) as usize]))));
        }
    }
    // element segments (mode, target, offset, items, order); the flag encoding may change
    if a.elems.len() != b.elems.len() {
        f.push(("C04:element-count".into(), format!("{} element segments in, {} out", a.elems.len(), b.elems.len())));
    } else {
        for (k, (x, y)) in a.elems.iter().zip(b.elems.iter()).enumerate() {
            let mode = |e: &decode::AElem, fm: Option<&HashMap<u32, u32>>| match &e.mode {
                ElemMode::Active { table, offset } => format!("active t{} @{}", table.unwrap_or(0), cexpr_canon(offset, fm)),
                ElemMode::Passive => "passive".into(),
                ElemMode::Declared => "declared".into(),
            };
            // items as a list of constant expressions (a function index i is `ref.func i`)
            let items = |e: &decode::AElem, fm: Option<&HashMap<u32, u32>>| -> (String, Vec<String>) {
                match &e.items {
                    ElemItems::Funcs(v) => ("funcref".into(), v.iter().map(|i| format!("RefFunc/f:{}", fm.map(|f| f.get(i).copied().unwrap_or(u32::MAX)).unwrap_or(*i))).collect()),
                    ElemItems::Exprs(t, es) => (t.clone(), es.iter().map(|c| cexpr_canon(c, fm)).collect()),
                }
            };
            if mode(x, Some(&r.funcs)) != mode(y, None) {
                f.push(("C04:element-mode".into(), format!("element segment #{}: {} became {}", k, mode(x, Some(&r.funcs)), mode(y, None))));
            }
            if items(x, Some(&r.funcs)) != items(y, None) {
                f.push(("C04:element-items".into(), format!("element segment #{}: items {:?} became {:?}", k, items(x, Some(&r.funcs)), items(y, None))));
            }
        }
    }
    // data segments
    if a.datas.len() != b.datas.len() {
        f.push(("C04:data-count".into(), format!("{} data segments in, {} out", a.datas.len(), b.datas.len())));
    } else {
        for (k, (x, y)) in a.datas.iter().zip(b.datas.iter()).enumerate() {
            let mode = |d: &decode::AData| match &d.mode {
                DataMode::Active { mem, offset } => format!("active m{} @{}", mem, cexpr_canon(offset, None)),
                DataMode::Passive => "passive".into(),
            };
            if mode(x) != mode(y) || x.bytes != y.bytes {
                f.push(("C04:data-segment".into(), format!("data segment #{}: {} ({} bytes) became {} ({} bytes)", k, mode(x), x.bytes.len(), mode(y), y.bytes.len())));
            }
        }
    }
    f
}

/// names of the input must re-appear attached to the renumbered entity
pub fn oracle_c13(a: &AMod, b: &AMod) -> Vec<(String, String)> {
    oracle_c13_with(a, b, false)
}

/// `extra_ok`: the configuration adds names of its own (synthetic names for anonymous items); then
/// only the entities the input names are looked at, and there the input's name has to be found
pub fn oracle_c13_with(a: &AMod, b: &AMod, extra_ok: bool) -> Vec<(String, String)> {
    let mut f = vec![];
    // (every name section of the input counts: walrus applies them all, in order)
    let Some(na) = a.names_lenient() else { return f };
    let nb = match b.names() {
        Some(Ok(n)) => n,
        Some(Err(e)) => {
            f.push(("C13:output-name-section-unreadable".into(), e.to_string()));
            return f;
        }
        None => decode::ANames::default(),
    };
    let Some(r) = rho(a, b) else { return f };
    if na.module != nb.module {
        f.push(("C13:module-name".into(), format!("{:?} became {:?}", na.module, nb.module)));
    }
    // functions: expected map through rho (last name for an index wins)
    let last = |m: &[(u32, String)]| -> HashMap<u32, String> { m.iter().cloned().collect() };
    let mut want: Vec<(u32, String)> = last(&na.funcs).into_iter().filter_map(|(i, n)| r.funcs.get(&i).map(|o| (*o, n))).collect();
    want.sort();
    let mut got = nb.funcs.clone();
    if extra_ok {
        got.retain(|(i, _)| want.iter().any(|(j, _)| j == i));
    }
    got.sort();
    if want != got {
        f.push(("C13:function-names".into(), format!("expected {:?}, output has {:?}", want, got)));
    }
    // identity spaces
    for (what, x, y) in [("table", &na.tables, &nb.tables), ("memory", &na.memories, &nb.memories), ("global", &na.globals, &nb.globals), ("element", &na.elems, &nb.elems), ("data", &na.datas, &nb.datas)] {
        let mut w: Vec<(u32, String)> = last(x).into_iter().collect();
        w.sort();
        let mut g = y.clone();
        if extra_ok {
            g.retain(|(i, _)| w.iter().any(|(j, _)| j == i));
        }
        g.sort();
        if w != g {
            f.push((format!("C13:{}-names", what), format!("expected {:?}, output has {:?}", w, g)));
        }
    }
    // types: every output type name must be one of the names given to a type with the same signature,
    // and every named signature must keep some name
    for (j, n) in &nb.types {
        let s = sig(b, *j);
        if !extra_ok && !na.types.iter().any(|(i, m)| m == n && sig(a, *i) == s) {
            f.push(("C13:type-name-migrated".into(), format!("output type {} ({}) is named {:?}, which no input type of that signature carried", j, s, n)));
        }
    }
    for (i, n) in &na.types {
        let s = sig(a, *i);
        if !nb.types.iter().any(|(j, _)| sig(b, *j) == s) {
            f.push(("C13:type-name-lost".into(), format!("input type {} ({}) named {:?}: no output type of that signature is named", i, s, n)));
        }
    }
    // locals: names of *used* locals must follow the local through the compaction; names may not migrate
    let ni = a.n_imported(Space::Func);
    let mut lost = 0;
    let mut total_named_used = 0;
    for (fi, m) in &na.locals {
        if *fi < ni {
            continue;
        }
        let Some(&fo) = r.funcs.get(fi) else { continue };
        let (ka, kb) = ((*fi - ni) as usize, (fo - ni) as usize);
        if ka >= a.code.len() || kb >= b.code.len() {
            continue;
        }
        // local index map of this function, from the aligned operator streams
        let ea = crate::code::elide(&a.code[ka].ops);
        let eb = &b.code[kb].ops;
        let mut lmap: HashMap<u32, u32> = HashMap::new();
        if ea.len() == eb.len() {
            for (x, y) in ea.iter().zip(eb.iter()) {
                let lx = x.args.iter().find_map(|q| if let Arg::Ref(Space::Local, n) = q { Some(*n) } else { None });
                let ly = y.args.iter().find_map(|q| if let Arg::Ref(Space::Local, n) = q { Some(*n) } else { None });
                if let (Some(lx), Some(ly)) = (lx, ly) {
                    lmap.insert(lx, ly);
                }
            }
        }
        let out_names: HashMap<u32, String> = nb.locals.iter().find(|(f2, _)| *f2 == fo).map(|(_, m)| m.iter().cloned().collect()).unwrap_or_default();
        let in_names: HashMap<u32, String> = m.iter().cloned().collect();
        for (li, name) in &in_names {
            // (with synthetic names on, walrus documents that an empty local name counts as no name)
            if extra_ok && name.is_empty() {
                continue;
            }
            if let Some(lo) = lmap.get(li) {
                total_named_used += 1;
                match out_names.get(lo) {
                    Some(n2) if n2 == name => {}
                    Some(n2) => f.push(("C13:local-name-wrong".into(), format!("function {} local {} ({:?}) is output local {} named {:?}", fi, li, name, lo, n2))),
                    None => lost += 1,
                }
            }
        }
        // no migration: every output local name belongs to the input local that maps there
        for (lo, n2) in out_names.iter().filter(|_| !extra_ok) {
            let src: Vec<&u32> = lmap.iter().filter(|(_, o)| *o == lo).map(|(i, _)| i).collect();
            if !src.iter().any(|i| in_names.get(i) == Some(n2)) {
                f.push(("C13:local-name-migrated".into(), format!("function {} output local {} is named {:?} but no input local mapping there has that name", fo, lo, n2)));
            }
        }
    }
    if lost > 0 {
        f.push(("C13:local-names-lost".into(), format!("{} of {} names of used locals are missing from the output name section", lost, total_named_used)));
    }
    f
}

#[derive(Default)]
pub struct Stats {
    pub modules: usize,
    pub samples: usize,
    pub with_names: usize,
    pub imports: usize,
    pub elems: usize,
    pub datas: usize,
    pub mem64_imports: usize,
}

pub fn run_wasm(case: &str, wasm: &[u8], stats: &mut Stats) {
    let prop = std::env::var("VERIF_PROPERTY").unwrap_or_default();
    let only = out::hex(wasm);
    let Ok(a) = decode::decode(wasm) else { return };
    let req = format!("module {}", modtext::module_text(&a, false, true));
    let bytes = match out::catch(|| walrus::Module::from_buffer(wasm).map(|mut m| m.emit_wasm())) {
        Err(p) => {
            out::corr(case, true, &req, "PANIC");
            out::oracle(case, false, "C02:panic", &format!("round trip panicked: {} | only: {}", &p[..p.len().min(200)], only));
            return;
        }
        Ok(Err(e)) => {
            out::corr(case, true, &req, "REJECTED");
            out::oracle(case, false, "C05:valid-module-rejected", &format!("{:#} | only: {}", e, only));
            return;
        }
        Ok(Ok(b)) => b,
    };
    let b = decode::decode(&bytes).expect("decode output");
    let obs = modtext::module_text(&b, false, true);
    out::corr(case, a.imports.len() + a.elems.len() + a.datas.len() > 0, &req, &obs);
    stats.modules += 1;
    stats.imports += a.imports.len();
    stats.elems += a.elems.len();
    stats.datas += a.datas.len();
    stats.mem64_imports += a.imports.iter().filter(|i| matches!(&i.desc, ImportDesc::Mem(m) if m.mem64)).count();
    if a.names().is_some() {
        stats.with_names += 1;
    }
    if stats.samples < 2 && req.len() < 900 {
        out::sample(&format!("{} => {}", req, obs));
        stats.samples += 1;
    }
    let fails = match prop.as_str() {
        "C04" => oracle_c04(&a, &b),
        "C13" => oracle_c13(&a, &b),
        _ => vec![],
    };
    let mut fails = fails;
    if prop == "C13" {
        // the names must stay where they are under every configuration that leaves the name section
        // on: the other switches have nothing to say about it
        for (vname, mk) in [
            ("producers off", (|c: &mut walrus::ModuleConfig| { c.generate_producers_section(false); }) as fn(&mut walrus::ModuleConfig)),
            ("code transform preserved", |c| { c.preserve_code_transform(true); }),
            ("DWARF on", |c| { c.generate_dwarf(true); }),
            ("producers off, name section asked for explicitly", |c| { c.generate_producers_section(false).generate_name_section(true); }),
            ("strict validation off", |c| { c.strict_validate(false); }),
            ("synthetic names for anonymous items", |c| { c.generate_synthetic_names_for_anonymous_items(true); }),
        ] {
            let mut cfg = walrus::ModuleConfig::new();
            mk(&mut cfg);
            let extra_ok = vname.starts_with("synthetic");
            match out::catch(|| cfg.parse(wasm).map(|mut m| m.emit_wasm())) {
                Ok(Ok(bv)) => {
                    if let Ok(dv) = decode::decode(&bv) {
                        for (k, msg) in oracle_c13_with(&a, &dv, extra_ok) {
                            fails.push((k, format!("[configuration: {}] {}", vname, msg)));
                        }
                    }
                }
                _ => fails.push(("C13:round-trip-fails-under-configuration".into(), format!("[configuration: {}] the round trip fails", vname))),
            }
        }
    }
    if prop == "C04" || prop == "C13" {
        if fails.is_empty() {
            out::oracle(case, true, "", "");
        } else {
            let mut keys = std::collections::HashSet::new();
            for (k, msg) in fails {
                if keys.insert(k.clone()) {
                    out::oracle(case, false, &k, &format!("{} | only: {}", &msg[..msg.len().min(400)], only));
                }
            }
        }
    }
}

pub fn main(seed: u64, tier: &str, only: Option<&str>) {
    let mut stats = Stats::default();
    if let Some(o) = only {
        run_wasm("replay", &out::unhex(o), &mut stats);
        return;
    }
    let n = if tier == "thorough" { 4000 * crate::out::thorough_scale() } else { 300 };
    for case in 0..n {
        let mut rng = Rng::new(seed ^ 0x30d, case as u64);
        let mut g = if case % 4 == 0 { GenCfg::mvp() } else if case % 4 == 1 { GenCfg::full() } else { GenCfg::random(&mut rng) };
        g.export_all_funcs = true;
        g.extern_elem_global = false; // D4 is a GC matter (C06/C02)
        g.customs = false;
        g.producers = false;
        g.names = case % 2 == 0;
        let (wasm, _) = gen::gen_valid(&mut rng, &g);
        run_wasm(&format!("m{}", case), &wasm, &mut stats);
    }
    out::stat("module.modules", stats.modules);
    out::stat("module.with_name_section", stats.with_names);
    out::stat("module.imports", stats.imports);
    out::stat("module.imported_64bit_memories", stats.mem64_imports);
    out::stat("module.element_segments", stats.elems);
    out::stat("module.data_segments", stats.datas);
}
