//! Independent decoder: wasm bytes -> `AMod`, an index-based abstract module, using wasmparser
//! only (never walrus). Used by every oracle and to produce the text form sent to the Lean model.
//!
//! Operators are decoded *generically* through wasmparser's `for_each_operator!`: an operator is
//! its variant name plus its immediates in declaration order; an immediate is classified as an
//! entity reference (by the field name wasmparser gives it), a block type, or an opaque bit
//! pattern. Nothing here knows walrus's IR.
use anyhow::{bail, Result};
use wasmparser::*;

#[derive(Clone, Copy, Debug, PartialEq, Eq, Hash, PartialOrd, Ord)]
pub enum Space {
    Func,
    Table,
    Global,
    Mem,
    Type,
    Local,
    Data,
    Elem,
    Label,
}

impl Space {
    pub fn tag(self) -> &'static str {
        match self {
            Space::Func => "f",
            Space::Table => "t",
            Space::Global => "g",
            Space::Mem => "m",
            Space::Type => "y",
            Space::Local => "x",
            Space::Data => "d",
            Space::Elem => "e",
            Space::Label => "l",
        }
    }
}

#[derive(Clone, Debug, PartialEq, Eq, Hash)]
pub enum Bt {
    Empty,
    Val(String),
    Ty(u32),
}

#[derive(Clone, Debug, PartialEq, Eq, Hash)]
pub enum Arg {
    Ref(Space, u32),
    Imm(String),
    Bt(Bt),
}

#[derive(Clone, Debug, PartialEq, Eq, Hash)]
pub struct AOp {
    pub name: &'static str,
    pub proposal: &'static str,
    pub args: Vec<Arg>,
    /// byte offset of the operator in the binary it was decoded from
    pub offset: usize,
}

impl AOp {
    pub fn text(&self) -> String {
        let mut s = self.name.to_string();
        for a in &self.args {
            s.push('/');
            match a {
                Arg::Ref(sp, n) => s.push_str(&format!("{}:{}", sp.tag(), n)),
                Arg::Imm(i) => s.push_str(&format!("i:{}", i)),
                Arg::Bt(Bt::Empty) => s.push_str("be"),
                Arg::Bt(Bt::Val(v)) => s.push_str(&format!("bv{}", v)),
                Arg::Bt(Bt::Ty(n)) => s.push_str(&format!("by{}", n)),
            }
        }
        s
    }
    pub fn is(&self, n: &str) -> bool {
        self.name == n
    }
}

pub fn vt(t: ValType) -> String {
    match t {
        ValType::I32 => "i32".into(),
        ValType::I64 => "i64".into(),
        ValType::F32 => "f32".into(),
        ValType::F64 => "f64".into(),
        ValType::V128 => "v128".into(),
        ValType::Ref(r) => rt(r),
    }
}
pub fn rt(r: RefType) -> String {
    if r == RefType::FUNCREF {
        "funcref".into()
    } else if r == RefType::EXTERNREF {
        "externref".into()
    } else {
        format!("ref<{:?}>", r).replace(' ', "")
    }
}

trait PushArg {
    fn push(&self, field: &'static str, out: &mut Vec<Arg>);
}
impl PushArg for u32 {
    fn push(&self, field: &'static str, out: &mut Vec<Arg>) {
        let sp = match field {
            "function_index" => Some(Space::Func),
            "table_index" | "table" | "src_table" | "dst_table" => Some(Space::Table),
            "global_index" => Some(Space::Global),
            "mem" | "src_mem" | "dst_mem" => Some(Space::Mem),
            "type_index" => Some(Space::Type),
            "local_index" => Some(Space::Local),
            "data_index" => Some(Space::Data),
            "elem_index" => Some(Space::Elem),
            "relative_depth" => Some(Space::Label),
            _ => None,
        };
        match sp {
            Some(sp) => out.push(Arg::Ref(sp, *self)),
            None => out.push(Arg::Imm(format!("{}.{}", field, self))),
        }
    }
}
impl PushArg for u8 {
    fn push(&self, _f: &'static str, out: &mut Vec<Arg>) {
        out.push(Arg::Imm(self.to_string()))
    }
}
impl PushArg for i32 {
    fn push(&self, _f: &'static str, out: &mut Vec<Arg>) {
        out.push(Arg::Imm((*self as u32).to_string()))
    }
}
impl PushArg for i64 {
    fn push(&self, _f: &'static str, out: &mut Vec<Arg>) {
        out.push(Arg::Imm((*self as u64).to_string()))
    }
}
impl PushArg for Ieee32 {
    fn push(&self, _f: &'static str, out: &mut Vec<Arg>) {
        out.push(Arg::Imm(self.bits().to_string()))
    }
}
impl PushArg for Ieee64 {
    fn push(&self, _f: &'static str, out: &mut Vec<Arg>) {
        out.push(Arg::Imm(self.bits().to_string()))
    }
}
impl PushArg for V128 {
    fn push(&self, _f: &'static str, out: &mut Vec<Arg>) {
        out.push(Arg::Imm((self.i128() as u128).to_string()))
    }
}
impl PushArg for [u8; 16] {
    fn push(&self, _f: &'static str, out: &mut Vec<Arg>) {
        out.push(Arg::Imm(u128::from_le_bytes(*self).to_string()))
    }
}
impl PushArg for MemArg {
    fn push(&self, _f: &'static str, out: &mut Vec<Arg>) {
        out.push(Arg::Imm(self.align.to_string()));
        out.push(Arg::Imm(self.offset.to_string()));
        out.push(Arg::Ref(Space::Mem, self.memory));
    }
}
impl PushArg for BlockType {
    fn push(&self, _f: &'static str, out: &mut Vec<Arg>) {
        out.push(Arg::Bt(match self {
            BlockType::Empty => Bt::Empty,
            BlockType::Type(t) => Bt::Val(vt(*t)),
            BlockType::FuncType(i) => Bt::Ty(*i),
        }))
    }
}
impl<'a> PushArg for BrTable<'a> {
    fn push(&self, _f: &'static str, out: &mut Vec<Arg>) {
        for t in self.targets() {
            out.push(Arg::Ref(Space::Label, t.unwrap_or(u32::MAX)));
        }
        out.push(Arg::Ref(Space::Label, self.default()));
    }
}
impl PushArg for ValType {
    fn push(&self, _f: &'static str, out: &mut Vec<Arg>) {
        out.push(Arg::Imm(vt(*self)))
    }
}
impl PushArg for HeapType {
    fn push(&self, _f: &'static str, out: &mut Vec<Arg>) {
        out.push(Arg::Imm(match self {
            HeapType::Abstract { shared: false, ty: AbstractHeapType::Func } => "func".to_string(),
            HeapType::Abstract { shared: false, ty: AbstractHeapType::Extern } => "extern".to_string(),
            other => format!("{:?}", other).replace(' ', ""),
        }))
    }
}
impl PushArg for RefType {
    fn push(&self, _f: &'static str, out: &mut Vec<Arg>) {
        out.push(Arg::Imm(rt(*self)))
    }
}
impl PushArg for Ordering {
    fn push(&self, _f: &'static str, out: &mut Vec<Arg>) {
        out.push(Arg::Imm(format!("{:?}", self)))
    }
}
impl PushArg for TryTable {
    fn push(&self, _f: &'static str, out: &mut Vec<Arg>) {
        out.push(Arg::Imm(format!("{:?}", self).replace(' ', "")))
    }
}

struct OpDecoder {
    offset: usize,
}

macro_rules! define_visit {
    ($(@$proposal:ident $op:ident $({ $($arg:ident: $argty:ty),* })? => $visit:ident)*) => {
        $(
            #[allow(unused_mut)]
            fn $visit(&mut self $($(,$arg: $argty)*)?) -> AOp {
                let mut args = Vec::new();
                $($( PushArg::push(&$arg, stringify!($arg), &mut args); )*)?
                AOp { name: stringify!($op), proposal: stringify!($proposal), args, offset: self.offset }
            }
        )*
    }
}

impl<'a> VisitOperator<'a> for OpDecoder {
    type Output = AOp;
    for_each_operator!(define_visit);
}

pub fn decode_op(op: &Operator, offset: usize) -> AOp {
    OpDecoder { offset }.visit_operator(op)
}

/// every operator name known to wasmparser with its proposal tag
pub fn operator_universe() -> Vec<(&'static str, &'static str)> {
    macro_rules! list {
        ($(@$proposal:ident $op:ident $({ $($arg:ident: $argty:ty),* })? => $visit:ident)*) => {
            vec![$((stringify!($op), stringify!($proposal))),*]
        }
    }
    for_each_operator!(list)
}

// ---------------------------------------------------------------------------------------------

#[derive(Clone, Debug, PartialEq, Eq, Hash)]
pub enum CExpr {
    /// a single constant / global.get / ref.null / ref.func followed by `end`
    Ops(Vec<AOp>),
}

impl CExpr {
    pub fn text(&self) -> String {
        let CExpr::Ops(o) = self;
        o.iter().map(|x| x.text()).collect::<Vec<_>>().join(",")
    }
    pub fn ops(&self) -> &Vec<AOp> {
        let CExpr::Ops(o) = self;
        o
    }
}

#[derive(Clone, Debug, PartialEq, Eq, Hash)]
pub struct TableTy {
    pub elem: String,
    pub min: u64,
    pub max: Option<u64>,
    pub table64: bool,
    pub shared: bool,
}
#[derive(Clone, Debug, PartialEq, Eq, Hash)]
pub struct MemTy {
    pub min: u64,
    pub max: Option<u64>,
    pub shared: bool,
    pub mem64: bool,
    pub page_log2: Option<u32>,
}
#[derive(Clone, Debug, PartialEq, Eq, Hash)]
pub struct GlobalTy {
    pub ty: String,
    pub mutable: bool,
    pub shared: bool,
}
#[derive(Clone, Debug, PartialEq, Eq, Hash)]
pub enum ImportDesc {
    Func(u32),
    Table(TableTy),
    Mem(MemTy),
    Global(GlobalTy),
}
#[derive(Clone, Debug, PartialEq, Eq, Hash)]
pub struct AImport {
    pub module: String,
    pub name: String,
    pub desc: ImportDesc,
}
#[derive(Clone, Debug, PartialEq, Eq, Hash)]
pub struct AExport {
    pub name: String,
    pub kind: Space,
    pub index: u32,
}
#[derive(Clone, Debug, PartialEq, Eq, Hash)]
pub enum ElemMode {
    Active { table: Option<u32>, offset: CExpr },
    Passive,
    Declared,
}
#[derive(Clone, Debug, PartialEq, Eq, Hash)]
pub enum ElemItems {
    Funcs(Vec<u32>),
    Exprs(String, Vec<CExpr>),
}
#[derive(Clone, Debug, PartialEq, Eq, Hash)]
pub struct AElem {
    pub mode: ElemMode,
    pub items: ElemItems,
    /// the leading flag byte of the segment (0..7)
    pub flag: u8,
}
#[derive(Clone, Debug, PartialEq, Eq, Hash)]
pub enum DataMode {
    Active { mem: u32, offset: CExpr },
    Passive,
}
#[derive(Clone, Debug, PartialEq, Eq, Hash)]
pub struct AData {
    pub mode: DataMode,
    pub bytes: Vec<u8>,
    pub flag: u8,
}
#[derive(Clone, Debug, PartialEq, Eq, Hash)]
pub struct ABody {
    /// declared locals (count, type), as written
    pub locals: Vec<(u32, String)>,
    pub ops: Vec<AOp>,
    /// byte range of the whole code-section entry (size LEB included) and of the body proper
    pub entry_range: (usize, usize),
    pub body_range: (usize, usize),
}
#[derive(Clone, Debug, PartialEq, Eq, Hash)]
pub struct ACustom {
    /// number of non-custom sections that precede this custom section
    pub position: usize,
    pub name: String,
    pub data: Vec<u8>,
    pub data_offset: usize,
}

#[derive(Clone, Debug, Default)]
pub struct ANames {
    pub module: Option<String>,
    pub funcs: Vec<(u32, String)>,
    pub locals: Vec<(u32, Vec<(u32, String)>)>,
    pub types: Vec<(u32, String)>,
    pub tables: Vec<(u32, String)>,
    pub memories: Vec<(u32, String)>,
    pub globals: Vec<(u32, String)>,
    pub elems: Vec<(u32, String)>,
    pub datas: Vec<(u32, String)>,
    pub other_subsections: Vec<String>,
}

#[derive(Clone, Debug, Default)]
pub struct AMod {
    pub types: Vec<(Vec<String>, Vec<String>)>,
    pub imports: Vec<AImport>,
    pub funcs: Vec<u32>,
    pub tables: Vec<(TableTy, Option<CExpr>)>,
    pub memories: Vec<MemTy>,
    pub globals: Vec<(GlobalTy, CExpr)>,
    pub exports: Vec<AExport>,
    pub start: Option<u32>,
    pub elems: Vec<AElem>,
    pub data_count: Option<u32>,
    pub code: Vec<ABody>,
    pub datas: Vec<AData>,
    pub customs: Vec<ACustom>,
    /// ids of the non-custom sections in the order they occur
    pub section_ids: Vec<u8>,
    /// (offset of the code section's content = first byte after the section size, i.e. the count LEB)
    pub code_section_range: Option<(usize, usize)>,
}

impl AMod {
    pub fn n_imported(&self, sp: Space) -> u32 {
        self.imports
            .iter()
            .filter(|i| match (&i.desc, sp) {
                (ImportDesc::Func(_), Space::Func) => true,
                (ImportDesc::Table(_), Space::Table) => true,
                (ImportDesc::Mem(_), Space::Mem) => true,
                (ImportDesc::Global(_), Space::Global) => true,
                _ => false,
            })
            .count() as u32
    }
    pub fn count(&self, sp: Space) -> u32 {
        match sp {
            Space::Func => self.n_imported(sp) + self.funcs.len() as u32,
            Space::Table => self.n_imported(sp) + self.tables.len() as u32,
            Space::Mem => self.n_imported(sp) + self.memories.len() as u32,
            Space::Global => self.n_imported(sp) + self.globals.len() as u32,
            Space::Type => self.types.len() as u32,
            Space::Data => self.datas.len() as u32,
            Space::Elem => self.elems.len() as u32,
            _ => 0,
        }
    }
    /// type index of function `f` (imported or local)
    pub fn func_type(&self, f: u32) -> Option<u32> {
        let mut k = 0;
        for i in &self.imports {
            if let ImportDesc::Func(t) = i.desc {
                if k == f {
                    return Some(t);
                }
                k += 1;
            }
        }
        self.funcs.get((f - k) as usize).copied()
    }
    pub fn mem_ty(&self, m: u32) -> Option<MemTy> {
        let mut k = 0;
        for i in &self.imports {
            if let ImportDesc::Mem(t) = &i.desc {
                if k == m {
                    return Some(t.clone());
                }
                k += 1;
            }
        }
        self.memories.get((m - k) as usize).cloned()
    }
    pub fn table_ty(&self, t: u32) -> Option<TableTy> {
        let mut k = 0;
        for i in &self.imports {
            if let ImportDesc::Table(ty) = &i.desc {
                if k == t {
                    return Some(ty.clone());
                }
                k += 1;
            }
        }
        self.tables.get((t - k) as usize).map(|x| x.0.clone())
    }
    pub fn global_ty(&self, g: u32) -> Option<GlobalTy> {
        let mut k = 0;
        for i in &self.imports {
            if let ImportDesc::Global(ty) = &i.desc {
                if k == g {
                    return Some(ty.clone());
                }
                k += 1;
            }
        }
        self.globals.get((g - k) as usize).map(|x| x.0.clone())
    }
    pub fn names(&self) -> Option<Result<ANames>> {
        let c = self.customs.iter().find(|c| c.name == "name")?;
        Some(decode_names(&c.data, c.data_offset))
    }
    /// all `name` sections, read the way walrus reads them (prefix before the first error), merged in order
    pub fn names_lenient(&self) -> Option<ANames> {
        let secs: Vec<&ACustom> = self.customs.iter().filter(|c| c.name == "name").collect();
        if secs.is_empty() {
            return None;
        }
        let mut acc = ANames::default();
        for c in secs {
            let n = decode_names_prefix(&c.data, c.data_offset);
            if n.module.is_some() {
                acc.module = n.module;
            }
            acc.funcs.extend(n.funcs);
            acc.locals.extend(n.locals);
            acc.types.extend(n.types);
            acc.tables.extend(n.tables);
            acc.memories.extend(n.memories);
            acc.globals.extend(n.globals);
            acc.elems.extend(n.elems);
            acc.datas.extend(n.datas);
        }
        Some(acc)
    }
    /// every `name` section on its own, in file order (walrus reads each separately)
    pub fn names_sections(&self) -> Vec<ANames> {
        self.customs.iter().filter(|c| c.name == "name").map(|c| decode_names_prefix(&c.data, c.data_offset)).collect()
    }
    pub fn producers(&self) -> Option<Result<Vec<(String, Vec<(String, String)>)>>> {
        let c = self.customs.iter().find(|c| c.name == "producers")?;
        Some(decode_producers(&c.data, c.data_offset))
    }
}

pub fn all_features() -> WasmFeatures {
    WasmFeatures::all()
}

fn cexpr(e: &ConstExpr) -> Result<CExpr> {
    let mut r = e.get_operators_reader();
    let mut ops = vec![];
    while !r.eof() {
        let (op, off) = r.read_with_offset()?;
        if let Operator::End = op {
            break;
        }
        ops.push(decode_op(&op, off));
    }
    Ok(CExpr::Ops(ops))
}

fn table_ty(t: &TableType) -> TableTy {
    TableTy { elem: rt(t.element_type), min: t.initial, max: t.maximum, table64: t.table64, shared: t.shared }
}
fn mem_ty(t: &MemoryType) -> MemTy {
    MemTy { min: t.initial, max: t.maximum, shared: t.shared, mem64: t.memory64, page_log2: t.page_size_log2 }
}
fn global_ty(t: &GlobalType) -> GlobalTy {
    GlobalTy { ty: vt(t.content_type), mutable: t.mutable, shared: t.shared }
}

pub fn decode_producers(data: &[u8], off: usize) -> Result<Vec<(String, Vec<(String, String)>)>> {
    let r = ProducersSectionReader::new(BinaryReader::new(data, off, all_features()))?;
    let mut out = vec![];
    for f in r {
        let f = f?;
        let mut vals = vec![];
        for v in f.values {
            let v = v?;
            vals.push((v.name.to_string(), v.version.to_string()));
        }
        out.push((f.name.to_string(), vals));
    }
    Ok(out)
}

/// what `parse_name_section` sees: every entry that decodes before the first error (walrus applies
/// names one by one and stops, with a warning, at the first entry that fails to decode)
pub fn decode_names_prefix(data: &[u8], off: usize) -> ANames {
    let r = NameSectionReader::new(BinaryReader::new(data, off, all_features()));
    let mut n = ANames::default();
    fn map(m: NameMap, out: &mut Vec<(u32, String)>) -> bool {
        for x in m {
            match x {
                Ok(x) => out.push((x.index, x.name.to_string())),
                Err(_) => return false,
            }
        }
        true
    }
    for sub in r {
        let Ok(sub) = sub else { break };
        let ok = match sub {
            Name::Module { name, .. } => {
                n.module = Some(name.to_string());
                true
            }
            Name::Function(m) => map(m, &mut n.funcs),
            Name::Local(l) => {
                let mut ok = true;
                for f in l {
                    let Ok(f) = f else {
                        ok = false;
                        break;
                    };
                    let mut v = vec![];
                    let fine = map(f.names, &mut v);
                    n.locals.push((f.index, v));
                    if !fine {
                        ok = false;
                        break;
                    }
                }
                ok
            }
            Name::Type(m) => map(m, &mut n.types),
            Name::Table(m) => map(m, &mut n.tables),
            Name::Memory(m) => map(m, &mut n.memories),
            Name::Global(m) => map(m, &mut n.globals),
            Name::Element(m) => map(m, &mut n.elems),
            Name::Data(m) => map(m, &mut n.datas),
            _ => true,
        };
        if !ok {
            break;
        }
    }
    n
}

pub fn decode_names(data: &[u8], off: usize) -> Result<ANames> {
    let r = NameSectionReader::new(BinaryReader::new(data, off, all_features()));
    let mut n = ANames::default();
    fn map(m: NameMap) -> Result<Vec<(u32, String)>> {
        let mut v = vec![];
        for x in m {
            let x = x?;
            v.push((x.index, x.name.to_string()));
        }
        Ok(v)
    }
    for sub in r {
        match sub? {
            Name::Module { name, .. } => n.module = Some(name.to_string()),
            Name::Function(m) => n.funcs = map(m)?,
            Name::Local(l) => {
                for f in l {
                    let f = f?;
                    n.locals.push((f.index, map(f.names)?));
                }
            }
            Name::Type(m) => n.types = map(m)?,
            Name::Table(m) => n.tables = map(m)?,
            Name::Memory(m) => n.memories = map(m)?,
            Name::Global(m) => n.globals = map(m)?,
            Name::Element(m) => n.elems = map(m)?,
            Name::Data(m) => n.datas = map(m)?,
            Name::Label(_) => n.other_subsections.push("label".into()),
            Name::Field(_) => n.other_subsections.push("field".into()),
            Name::Tag(_) => n.other_subsections.push("tag".into()),
            Name::Unknown { ty, .. } => n.other_subsections.push(format!("unknown{}", ty)),
        }
    }
    Ok(n)
}

/// Decode a core module. Does not validate (callers validate separately when they need to).
pub fn decode(wasm: &[u8]) -> Result<AMod> {
    let mut m = AMod::default();
    let mut parser = Parser::new(0);
    parser.set_features(all_features());
    let mut nstd = 0usize;
    for payload in parser.parse_all(wasm) {
        let payload = payload?;
        if let Some((id, _)) = payload.as_section() {
            if id != 0 {
                nstd += 1;
                m.section_ids.push(id);
            }
        }
        match payload {
            Payload::Version { .. } => {}
            Payload::TypeSection(s) => {
                for t in s.into_iter_err_on_gc_types() {
                    let t = t?;
                    m.types.push((t.params().iter().map(|x| vt(*x)).collect(), t.results().iter().map(|x| vt(*x)).collect()));
                }
            }
            Payload::ImportSection(s) => {
                for i in s {
                    let i = i?;
                    let desc = match i.ty {
                        TypeRef::Func(t) => ImportDesc::Func(t),
                        TypeRef::Table(t) => ImportDesc::Table(table_ty(&t)),
                        TypeRef::Memory(t) => ImportDesc::Mem(mem_ty(&t)),
                        TypeRef::Global(t) => ImportDesc::Global(global_ty(&t)),
                        TypeRef::Tag(_) => bail!("tag import"),
                    };
                    m.imports.push(AImport { module: i.module.to_string(), name: i.name.to_string(), desc });
                }
            }
            Payload::FunctionSection(s) => {
                for f in s {
                    m.funcs.push(f?);
                }
            }
            Payload::TableSection(s) => {
                for t in s {
                    let t = t?;
                    let init = match &t.init {
                        TableInit::RefNull => None,
                        TableInit::Expr(e) => Some(cexpr(e)?),
                    };
                    m.tables.push((table_ty(&t.ty), init));
                }
            }
            Payload::MemorySection(s) => {
                for t in s {
                    m.memories.push(mem_ty(&t?));
                }
            }
            Payload::GlobalSection(s) => {
                for g in s {
                    let g = g?;
                    m.globals.push((global_ty(&g.ty), cexpr(&g.init_expr)?));
                }
            }
            Payload::ExportSection(s) => {
                for e in s {
                    let e = e?;
                    let kind = match e.kind {
                        ExternalKind::Func => Space::Func,
                        ExternalKind::Table => Space::Table,
                        ExternalKind::Memory => Space::Mem,
                        ExternalKind::Global => Space::Global,
                        ExternalKind::Tag => bail!("tag export"),
                    };
                    m.exports.push(AExport { name: e.name.to_string(), kind, index: e.index });
                }
            }
            Payload::StartSection { func, .. } => m.start = Some(func),
            Payload::ElementSection(s) => {
                for e in s {
                    let e = e?;
                    let flag = wasm[e.range.start];
                    let mode = match &e.kind {
                        ElementKind::Active { table_index, offset_expr } => ElemMode::Active { table: *table_index, offset: cexpr(offset_expr)? },
                        ElementKind::Passive => ElemMode::Passive,
                        ElementKind::Declared => ElemMode::Declared,
                    };
                    let items = match e.items {
                        wasmparser::ElementItems::Functions(f) => {
                            let mut v = vec![];
                            for x in f {
                                v.push(x?);
                            }
                            ElemItems::Funcs(v)
                        }
                        wasmparser::ElementItems::Expressions(ty, es) => {
                            let mut v = vec![];
                            for x in es {
                                v.push(cexpr(&x?)?);
                            }
                            ElemItems::Exprs(rt(ty), v)
                        }
                    };
                    m.elems.push(AElem { mode, items, flag });
                }
            }
            Payload::DataCountSection { count, .. } => m.data_count = Some(count),
            Payload::DataSection(s) => {
                for d in s {
                    let d = d?;
                    let flag = wasm[d.range.start];
                    let mode = match &d.kind {
                        DataKind::Active { memory_index, offset_expr } => DataMode::Active { mem: *memory_index, offset: cexpr(offset_expr)? },
                        DataKind::Passive => DataMode::Passive,
                    };
                    m.datas.push(AData { mode, bytes: d.data.to_vec(), flag });
                }
            }
            Payload::CodeSectionStart { range, .. } => m.code_section_range = Some((range.start, range.end)),
            Payload::CodeSectionEntry(body) => {
                let r = body.range();
                // the entry starts at its size LEB, which ends where the body begins
                let mut locals = vec![];
                for l in body.get_locals_reader()? {
                    let (n, t) = l?;
                    locals.push((n, vt(t)));
                }
                let mut ops = vec![];
                let mut rd = body.get_operators_reader()?;
                while !rd.eof() {
                    let (op, off) = rd.read_with_offset()?;
                    ops.push(decode_op(&op, off));
                }
                // size LEB: walk back from body start
                let size = r.end - r.start;
                let leb_len = leb_len(size as u64);
                m.code.push(ABody { locals, ops, entry_range: (r.start - leb_len, r.end), body_range: (r.start, r.end) });
            }
            Payload::CustomSection(c) => {
                m.customs.push(ACustom { position: nstd, name: c.name().to_string(), data: c.data().to_vec(), data_offset: c.data_offset() });
            }
            Payload::End(_) => {}
            other => bail!("unsupported payload {:?}", other),
        }
    }
    Ok(m)
}

pub fn leb_len(mut v: u64) -> usize {
    let mut n = 1;
    while v >= 0x80 {
        v >>= 7;
        n += 1;
    }
    n
}

/// walrus's default feature set (read off `ModuleConfig::get_wasmparser_wasm_features`, kept here
/// as an *independent* statement of the supported set; C05 compares the two)
pub fn walrus_features(only_stable: bool) -> WasmFeatures {
    let mut f = WasmFeatures::empty();
    f.insert(WasmFeatures::FLOATS);
    f.insert(WasmFeatures::MUTABLE_GLOBAL);
    f.insert(WasmFeatures::SATURATING_FLOAT_TO_INT);
    f.insert(WasmFeatures::SIGN_EXTENSION);
    f.insert(WasmFeatures::MULTI_VALUE);
    f.insert(WasmFeatures::REFERENCE_TYPES);
    f.insert(WasmFeatures::BULK_MEMORY);
    f.insert(WasmFeatures::SIMD);
    f.insert(WasmFeatures::RELAXED_SIMD);
    f.insert(WasmFeatures::TAIL_CALL);
    if !only_stable {
        f.insert(WasmFeatures::MULTI_MEMORY);
        f.insert(WasmFeatures::MEMORY64);
        f.insert(WasmFeatures::THREADS);
    }
    f
}

pub fn validate(wasm: &[u8], features: WasmFeatures) -> std::result::Result<(), String> {
    let mut v = Validator::new_with_features(features);
    v.validate_all(wasm).map(|_| ()).map_err(|e| e.to_string())
}
