//! C17 correspondence suite: operation histories on the real collections.
//!
//! Request (to the Lean model):  `arena plain|set <op> <op> …`
//!   a<v> add an item with payload v     -> id<i>
//!   d<i> delete                         -> ok | absent
//!   g<i> Option-returning get           -> some<v> | none
//!   x<i> Index-style get                -> some<v> | absent
//!   it   iterate                        -> [i:v,…]
//!   n    len                            -> n<k>
//!   f<v> find by value (types only)     -> at<i> | nowhere
//! Identifiers are written as their arena index. A panic on an absent identifier and an explicit
//! `None` are both "absent" (the property allows either).
use crate::out;
use crate::rng::Rng;
use walrus::*;

#[derive(Clone, Debug, PartialEq)]
pub enum Op {
    Add(u64),
    Del(usize),
    Get(usize),
    Idx(usize),
    Iter,
    Len,
    Find(u64),
}

impl Op {
    fn show(&self) -> String {
        match self {
            Op::Add(v) => format!("a{}", v),
            Op::Del(i) => format!("d{}", i),
            Op::Get(i) => format!("g{}", i),
            Op::Idx(i) => format!("x{}", i),
            Op::Iter => "it".into(),
            Op::Len => "n".into(),
            Op::Find(v) => format!("f{}", v),
        }
    }
    fn parse(s: &str) -> Option<Op> {
        if s == "it" {
            return Some(Op::Iter);
        }
        if s == "n" {
            return Some(Op::Len);
        }
        let (h, t) = s.split_at(1);
        let n: u64 = t.parse().ok()?;
        Some(match h {
            "a" => Op::Add(n),
            "d" => Op::Del(n as usize),
            "g" => Op::Get(n as usize),
            "x" => Op::Idx(n as usize),
            "f" => Op::Find(n),
            _ => return None,
        })
    }
}

/// What a collection supports and how to drive it through the public API.
trait Coll {
    const NAME: &'static str;
    const KIND: &'static str; // plain | set
    const HAS_GET: bool = false;
    const HAS_LEN: bool = false;
    const HAS_FIND: bool = false;
    fn new() -> Self;
    /// returns the arena index of the identifier handed out
    fn add(&mut self, v: u64) -> usize;
    /// identifiers known so far (index -> id is kept inside)
    fn known(&self) -> usize;
    fn del(&mut self, i: usize);
    fn idx(&self, i: usize) -> u64;
    /// exclusive access by identifier (`get_mut`), where the collection has it: panics exactly when
    /// `idx` does (an identifier is absent for every kind of access or for none)
    fn touch_mut(&mut self, i: usize) {
        let _ = self.idx(i);
    }
    fn get(&self, _i: usize) -> Option<u64> {
        unreachable!()
    }
    fn iter(&mut self) -> Vec<(usize, u64)>;
    fn len(&self) -> usize {
        unreachable!()
    }
    fn find(&self, _v: u64) -> Option<usize> {
        unreachable!()
    }
}

fn valtypes_of(v: u64) -> (Vec<ValType>, Vec<ValType>) {
    // injective: v in base 5 digits, first digit splits params/results
    let tys = [ValType::I32, ValType::I64, ValType::F32, ValType::F64];
    let mut params = vec![];
    let mut results = vec![];
    let mut x = v;
    let np = x % 3;
    x /= 3;
    for _ in 0..np {
        params.push(tys[(x % 4) as usize]);
        x /= 4;
    }
    while x > 0 {
        results.push(tys[(x % 4) as usize]);
        x /= 4;
    }
    (params, results)
}

struct Types {
    m: Module,
    ids: Vec<Option<TypeId>>,
    vals: std::collections::HashMap<(Vec<ValType>, Vec<ValType>), u64>,
}
impl Coll for Types {
    const NAME: &'static str = "types";
    const KIND: &'static str = "set";
    const HAS_FIND: bool = true;
    fn new() -> Self {
        Types { m: Module::default(), ids: vec![], vals: Default::default() }
    }
    fn add(&mut self, v: u64) -> usize {
        let (p, r) = valtypes_of(v);
        let id = self.m.types.add(&p, &r);
        // canonical payload for a signature = the first v that produced it
        self.vals.entry((p, r)).or_insert(v);
        let ix = id.index();
        while self.ids.len() <= ix {
            self.ids.push(None);
        }
        self.ids[ix] = Some(id);
        ix
    }
    fn known(&self) -> usize {
        self.ids.len()
    }
    fn del(&mut self, i: usize) {
        self.m.types.delete(self.ids[i].unwrap())
    }
    fn idx(&self, i: usize) -> u64 {
        let t = self.m.types.get(self.ids[i].unwrap());
        self.vals[&(t.params().to_vec(), t.results().to_vec())]
    }
    fn touch_mut(&mut self, i: usize) {
        let _ = self.m.types.get_mut(self.ids[i].unwrap());
    }
    fn iter(&mut self) -> Vec<(usize, u64)> {
        self.m.types.iter().map(|t| (t.id().index(), self.vals[&(t.params().to_vec(), t.results().to_vec())])).collect()
    }
    fn find(&self, v: u64) -> Option<usize> {
        let (p, r) = valtypes_of(v);
        self.m.types.find(&p, &r).map(|id| id.index())
    }
}

/// the type collection again, every type carrying a debug name given after it was interned (the
/// name is not part of a type's identity: interning, deletion and re-adding must not see it)
struct TypesNamed(Types);
impl Coll for TypesNamed {
    const NAME: &'static str = "types-named";
    const KIND: &'static str = "set";
    const HAS_FIND: bool = true;
    fn new() -> Self {
        TypesNamed(Types::new())
    }
    fn add(&mut self, v: u64) -> usize {
        let ix = self.0.add(v);
        let id = self.0.ids[ix].unwrap();
        self.0.m.types.get_mut(id).name = Some(format!("t{}", v));
        ix
    }
    fn known(&self) -> usize {
        self.0.known()
    }
    fn del(&mut self, i: usize) {
        self.0.del(i)
    }
    fn idx(&self, i: usize) -> u64 {
        self.0.idx(i)
    }
    fn touch_mut(&mut self, i: usize) {
        self.0.touch_mut(i)
    }
    fn iter(&mut self) -> Vec<(usize, u64)> {
        self.0.iter()
    }
    fn find(&self, v: u64) -> Option<usize> {
        self.0.find(v)
    }
}

/// the type collection of a module that already holds function-entry types (walrus's internal
/// `() -> R` types of function bodies, created by `FunctionBuilder::new`): they are not function
/// types of the module, `find` and `add` must never hand them out. The model sees the identifiers
/// shifted by the number of pre-existing items.
struct TypesEntry {
    inner: Types,
    k: usize,
}
impl TypesEntry {
    fn shift(&self, i: usize) -> usize {
        if i >= self.k { i - self.k } else { 9000 + i }
    }
}
impl Coll for TypesEntry {
    const NAME: &'static str = "types-entry";
    const KIND: &'static str = "set";
    const HAS_FIND: bool = true;
    fn new() -> Self {
        let mut inner = Types::new();
        let tys = [ValType::I32, ValType::I64, ValType::F32, ValType::F64];
        let mut rs: Vec<Vec<ValType>> = vec![vec![]];
        for a in tys {
            rs.push(vec![a]);
            for b in tys {
                rs.push(vec![a, b]);
            }
        }
        for r in rs {
            // adds the public type (v128) -> R, which no history value denotes, and the entry type () -> R
            let _ = FunctionBuilder::new(&mut inner.m.types, &[ValType::V128], &r);
        }
        let k = inner.m.types.iter().map(|t| t.id().index() + 1).max().unwrap_or(0);
        TypesEntry { inner, k }
    }
    fn add(&mut self, v: u64) -> usize {
        let (p, r) = valtypes_of(v);
        let id = self.inner.m.types.add(&p, &r);
        self.inner.vals.entry((p, r)).or_insert(v);
        let ix = self.shift(id.index());
        while self.inner.ids.len() <= ix {
            self.inner.ids.push(None);
        }
        self.inner.ids[ix] = Some(id);
        ix
    }
    fn known(&self) -> usize {
        self.inner.known()
    }
    fn del(&mut self, i: usize) {
        self.inner.del(i)
    }
    fn idx(&self, i: usize) -> u64 {
        self.inner.idx(i)
    }
    fn touch_mut(&mut self, i: usize) {
        self.inner.touch_mut(i)
    }
    fn iter(&mut self) -> Vec<(usize, u64)> {
        let k = self.k;
        self.inner.m.types.iter().filter(|t| t.id().index() >= k).map(|t| (t.id().index() - k, self.inner.vals[&(t.params().to_vec(), t.results().to_vec())])).collect()
    }
    fn find(&self, v: u64) -> Option<usize> {
        let (p, r) = valtypes_of(v);
        self.inner.m.types.find(&p, &r).map(|id| self.shift(id.index()))
    }
}

macro_rules! plain_coll {
    (@len $s:ident, $field:ident, true) => { $s.m.memories.len() };
    (@len $s:ident, $field:ident, false) => { unreachable!() };
    (@itermut $s:ident, $field:ident, $item:ident, $payload:expr, true) => { Some($s.m.$field.iter_mut().map(|x| { let $item: &_ = &*x; ($item.id().index(), $payload) }).collect::<Vec<(usize, u64)>>()) };
    (@itermut $s:ident, $field:ident, $item:ident, $payload:expr, false) => { None::<Vec<(usize, u64)>> };
    ($ty:ident, $name:expr, $idty:ty, $field:ident, has_len = $has_len:tt, iter_mut = $has_im:tt,
     add = |$m:ident, $v:ident| $add:expr,
     payload = |$item:ident| $payload:expr) => {
        struct $ty {
            m: Module,
            ids: Vec<Option<$idty>>,
        }
        impl Coll for $ty {
            const NAME: &'static str = $name;
            const KIND: &'static str = "plain";
            const HAS_LEN: bool = $has_len;
            fn new() -> Self {
                $ty { m: Module::default(), ids: vec![] }
            }
            fn add(&mut self, $v: u64) -> usize {
                let $m = &mut self.m;
                let id: $idty = $add;
                let ix = id.index();
                while self.ids.len() <= ix {
                    self.ids.push(None);
                }
                self.ids[ix] = Some(id);
                ix
            }
            fn known(&self) -> usize {
                self.ids.len()
            }
            fn del(&mut self, i: usize) {
                self.m.$field.delete(self.ids[i].unwrap())
            }
            fn idx(&self, i: usize) -> u64 {
                let $item = self.m.$field.get(self.ids[i].unwrap());
                $payload
            }
            fn touch_mut(&mut self, i: usize) {
                let _ = self.m.$field.get_mut(self.ids[i].unwrap());
            }
            fn iter(&mut self) -> Vec<(usize, u64)> {
                let shared: Vec<(usize, u64)> = self.m.$field.iter().map(|$item| ($item.id().index(), $payload)).collect();
                // the mutable iterator must walk exactly the same live items
                if let Some(exclusive) = plain_coll!(@itermut self, $field, $item, $payload, $has_im) {
                    if exclusive != shared {
                        let mut both = shared.clone();
                        both.push((usize::MAX, exclusive.len() as u64));
                        both.extend(exclusive);
                        return both;
                    }
                }
                shared
            }
            fn len(&self) -> usize {
                plain_coll!(@len self, $field, $has_len)
            }
        }
    };
}

plain_coll!(Memories, "memories", MemoryId, memories, has_len = true, iter_mut = true,
    add = |m, v| m.memories.add_local(false, false, v, None, None),
    payload = |x| x.initial);
plain_coll!(Tables, "tables", TableId, tables, has_len = false, iter_mut = true,
    add = |m, v| m.tables.add_local(false, v, None, RefType::Funcref),
    payload = |x| x.initial);
plain_coll!(Globals, "globals", GlobalId, globals, has_len = false, iter_mut = false,
    add = |m, v| m.globals.add_local(ValType::I64, true, false, ConstExpr::Value(ir::Value::I64(v as i64))),
    payload = |x| match x.kind { GlobalKind::Local(ConstExpr::Value(ir::Value::I64(v))) => v as u64, _ => u64::MAX });
plain_coll!(Datas, "data", DataId, data, has_len = false, iter_mut = false,
    add = |m, v| m.data.add(DataKind::Passive, v.to_le_bytes().to_vec()),
    payload = |x| { let mut b = [0u8; 8]; if x.value.len() == 8 { b.copy_from_slice(&x.value); u64::from_le_bytes(b) } else { u64::MAX } });
plain_coll!(Elements, "elements", ElementId, elements, has_len = false, iter_mut = true,
    add = |m, v| m.elements.add(ElementKind::Passive, ElementItems::Expressions(RefType::Funcref, vec![ConstExpr::RefNull(RefType::Funcref); v as usize])),
    payload = |x| match &x.items { ElementItems::Expressions(_, e) => e.len() as u64, ElementItems::Functions(f) => 1000 + f.len() as u64 });
plain_coll!(Exports, "exports", ExportId, exports, has_len = false, iter_mut = true,
    add = |m, v| { let first = m.memories.iter().next().map(|x| x.id()); let mem = match first { Some(x) => x, None => m.memories.add_local(false, false, 1, None, None) }; m.exports.add(&v.to_string(), mem) },
    payload = |x| x.name.parse::<u64>().unwrap_or(u64::MAX));
plain_coll!(Imports, "imports", ImportId, imports, has_len = false, iter_mut = true,
    add = |m, v| m.add_import_global("env", &v.to_string(), ValType::I32, false, false).1,
    payload = |x| x.name.parse::<u64>().unwrap_or(u64::MAX));
plain_coll!(Funcs, "functions", FunctionId, funcs, has_len = false, iter_mut = true,
    add = |m, v| { let b = FunctionBuilder::new(&mut m.types, &[], &[]); let id = b.finish(vec![], &mut m.funcs); m.funcs.get_mut(id).name = Some(v.to_string()); id },
    payload = |x| x.name.as_ref().and_then(|n| n.parse::<u64>().ok()).unwrap_or(u64::MAX));

/// imports deleted through `ModuleImports::remove(module, name)`: every item has its own import-module
/// name, field names repeat across modules
struct ImportsByName {
    m: Module,
    ids: Vec<Option<ImportId>>,
    keys: Vec<(String, String)>,
}
impl Coll for ImportsByName {
    const NAME: &'static str = "imports-by-name";
    const KIND: &'static str = "plain";
    fn new() -> Self {
        ImportsByName { m: Module::default(), ids: vec![], keys: vec![] }
    }
    fn add(&mut self, v: u64) -> usize {
        let key = (format!("mod{}", self.keys.len()), format!("n{}", v % 2));
        let id = self.m.add_import_global(&key.0, &key.1, ValType::I32, false, false).1;
        let ix = id.index();
        while self.ids.len() <= ix {
            self.ids.push(None);
            self.keys.push((String::new(), String::new()));
        }
        self.ids[ix] = Some(id);
        self.keys[ix] = key;
        // the payload the model knows is v: kept in a global name
        let gid = match self.m.imports.get(id).kind { ImportKind::Global(g) => g, _ => unreachable!() };
        self.m.globals.get_mut(gid).name = Some(v.to_string());
        ix
    }
    fn known(&self) -> usize {
        self.ids.len()
    }
    fn del(&mut self, i: usize) {
        let (md, nm) = self.keys[i].clone();
        // an import that is gone: `remove` reports an error, `delete` of a dead id panics; both are "absent"
        if self.m.imports.remove(&md, &nm).is_err() {
            panic!("absent");
        }
    }
    fn touch_mut(&mut self, i: usize) {
        let _ = self.m.imports.get_mut(self.ids[i].unwrap());
    }
    fn idx(&self, i: usize) -> u64 {
        let imp = self.m.imports.get(self.ids[i].unwrap());
        match imp.kind {
            ImportKind::Global(g) => self.m.globals.get(g).name.as_ref().and_then(|n| n.parse().ok()).unwrap_or(u64::MAX),
            _ => u64::MAX,
        }
    }
    fn iter(&mut self) -> Vec<(usize, u64)> {
        let v: Vec<(usize, ImportKind)> = self.m.imports.iter().map(|x| (x.id().index(), x.kind.clone())).collect();
        v.into_iter()
            .map(|(i, k)| {
                (i, match k {
                    ImportKind::Global(g) => self.m.globals.get(g).name.as_ref().and_then(|n| n.parse().ok()).unwrap_or(u64::MAX),
                    _ => u64::MAX,
                })
            })
            .collect()
    }
}

/// function imports looked up by name (`ModuleImports::get_func(module, name)`) in a module whose
/// function imports each share their module and field name with an import of another kind (a global,
/// added first): the lookup has to find the *function* import
struct FuncImportsByName {
    m: Module,
    /// the function imports in creation order (the identifier the model knows is the position here:
    /// the shadowing globals take import ids of their own)
    ids: Vec<ImportId>,
    payload: Vec<u64>,
}
impl Coll for FuncImportsByName {
    const NAME: &'static str = "func-imports-by-name";
    const KIND: &'static str = "plain";
    const HAS_FIND: bool = true;
    fn new() -> Self {
        FuncImportsByName { m: Module::default(), ids: vec![], payload: vec![] }
    }
    fn add(&mut self, v: u64) -> usize {
        let name = format!("n{}", v);
        // the shadowing import of another kind only once per name (it is never deleted)
        if self.m.imports.find("env", &name).is_none() {
            self.m.add_import_global("env", &name, ValType::I32, false, false);
        }
        let ty = self.m.types.add(&[], &[]);
        let id = self.m.add_import_func("env", &name, ty).1;
        self.ids.push(id);
        self.payload.push(v);
        self.ids.len() - 1
    }
    fn known(&self) -> usize {
        self.ids.len()
    }
    fn del(&mut self, i: usize) {
        self.m.imports.delete(self.ids[i])
    }
    fn touch_mut(&mut self, i: usize) {
        let _ = self.m.imports.get_mut(self.ids[i]);
    }
    fn idx(&self, i: usize) -> u64 {
        let _ = self.m.imports.get(self.ids[i]);
        self.payload[i]
    }
    fn iter(&mut self) -> Vec<(usize, u64)> {
        let live: Vec<ImportId> = self.m.imports.iter().filter(|x| matches!(x.kind, ImportKind::Function(_))).map(|x| x.id()).collect();
        live.iter().filter_map(|id| self.ids.iter().position(|k| k == id)).map(|k| (k, self.payload[k])).collect()
    }
    fn find(&self, v: u64) -> Option<usize> {
        let f = self.m.imports.get_func("env", &format!("n{}", v)).ok()?;
        let id = self.m.imports.iter().find(|x| matches!(x.kind, ImportKind::Function(g) if g == f))?.id();
        self.ids.iter().position(|k| *k == id)
    }
}

/// exports deleted through `ModuleExports::remove(name)` (unique names)
struct ExportsByName {
    m: Module,
    ids: Vec<Option<ExportId>>,
    names: Vec<String>,
    payload: Vec<u64>,
}
impl Coll for ExportsByName {
    const NAME: &'static str = "exports-by-name";
    const KIND: &'static str = "plain";
    fn new() -> Self {
        ExportsByName { m: Module::default(), ids: vec![], names: vec![], payload: vec![] }
    }
    fn add(&mut self, v: u64) -> usize {
        let first = self.m.memories.iter().next().map(|x| x.id());
        let mem = match first {
            Some(x) => x,
            None => self.m.memories.add_local(false, false, 1, None, None),
        };
        let name = format!("e{}_{}", self.names.len(), v);
        let id = self.m.exports.add(&name, mem);
        let ix = id.index();
        while self.ids.len() <= ix {
            self.ids.push(None);
            self.names.push(String::new());
            self.payload.push(0);
        }
        self.ids[ix] = Some(id);
        self.names[ix] = name;
        self.payload[ix] = v;
        ix
    }
    fn known(&self) -> usize {
        self.ids.len()
    }
    fn del(&mut self, i: usize) {
        let n = self.names[i].clone();
        if self.m.exports.remove(&n).is_err() {
            panic!("absent");
        }
    }
    fn touch_mut(&mut self, i: usize) {
        let _ = self.m.exports.get_mut(self.ids[i].unwrap());
    }
    fn idx(&self, i: usize) -> u64 {
        let e = self.m.exports.get(self.ids[i].unwrap());
        e.name.rsplit('_').next().and_then(|x| x.parse().ok()).unwrap_or(u64::MAX)
    }
    fn iter(&mut self) -> Vec<(usize, u64)> {
        self.m.exports.iter().map(|e| (e.id().index(), e.name.rsplit('_').next().and_then(|x| x.parse().ok()).unwrap_or(u64::MAX))).collect()
    }
}

/// custom sections: deletion and lookup report absence with `None` instead of panicking
struct Customs {
    m: Module,
    ids: Vec<Option<TypedCustomSectionId<RawCustomSection>>>,
}
impl Coll for Customs {
    const NAME: &'static str = "customs";
    const KIND: &'static str = "plain";
    const HAS_GET: bool = true;
    fn new() -> Self {
        Customs { m: Module::default(), ids: vec![] }
    }
    fn add(&mut self, v: u64) -> usize {
        let id = self.m.customs.add(RawCustomSection { name: v.to_string(), data: vec![] });
        // the arena index is not exposed on the typed id: recover it from iteration order
        let ix = self.ids.len();
        self.ids.push(Some(id));
        ix
    }
    fn known(&self) -> usize {
        self.ids.len()
    }
    fn del(&mut self, i: usize) {
        if self.m.customs.delete(self.ids[i].unwrap()).is_none() {
            panic!("absent")
        }
    }
    fn idx(&self, i: usize) -> u64 {
        self.get(i).expect("absent")
    }
    fn get(&self, i: usize) -> Option<u64> {
        self.m.customs.get(self.ids[i].unwrap()).map(|s| s.name.parse::<u64>().unwrap())
    }
    fn iter(&mut self) -> Vec<(usize, u64)> {
        // ids are opaque here: identify each live section by position among the ids we hold
        let mut out = vec![];
        for (_uid, s) in self.m.customs.iter() {
            let name = s.name().to_string();
            // find the index of the held id that resolves to this very section
            let ix = (0..self.ids.len()).find(|&i| {
                self.m.customs.get(self.ids[i].unwrap()).map(|r| std::ptr::eq(r as *const RawCustomSection as *const u8, s as *const dyn CustomSection as *const u8)).unwrap_or(false)
            });
            out.push((ix.unwrap_or(usize::MAX), name.parse::<u64>().unwrap_or(u64::MAX)));
        }
        out
    }
}

/// a typed custom section that shares its name with a raw one
#[derive(Debug)]
struct Decoy(String);
impl CustomSection for Decoy {
    fn name(&self) -> &str {
        &self.0
    }
    fn data(&self, _: &IdsToIndices) -> std::borrow::Cow<[u8]> {
        std::borrow::Cow::Borrowed(&[])
    }
}

/// raw custom sections taken out by name (`remove_raw`), each preceded by a *typed* section of the
/// same name that the operation must leave alone
struct CustomsByName {
    m: Module,
    ids: Vec<Option<TypedCustomSectionId<RawCustomSection>>>,
}
impl Coll for CustomsByName {
    const NAME: &'static str = "customs-by-name";
    const KIND: &'static str = "plain";
    const HAS_GET: bool = true;
    fn new() -> Self {
        CustomsByName { m: Module::default(), ids: vec![] }
    }
    fn add(&mut self, v: u64) -> usize {
        let ix = self.ids.len();
        let name = format!("s{}", ix);
        self.m.customs.add(Decoy(name.clone()));
        let id = self.m.customs.add(RawCustomSection { name, data: v.to_string().into_bytes() });
        self.ids.push(Some(id));
        ix
    }
    fn known(&self) -> usize {
        self.ids.len()
    }
    fn del(&mut self, i: usize) {
        if self.m.customs.remove_raw(&format!("s{}", i)).is_none() {
            panic!("absent")
        }
    }
    fn idx(&self, i: usize) -> u64 {
        self.get(i).expect("absent")
    }
    fn get(&self, i: usize) -> Option<u64> {
        self.m.customs.get(self.ids[i].unwrap()).map(|s| String::from_utf8_lossy(&s.data).parse::<u64>().unwrap())
    }
    fn iter(&mut self) -> Vec<(usize, u64)> {
        let mut out = vec![];
        for (_uid, s) in self.m.customs.iter() {
            let ix = (0..self.ids.len()).find(|&i| {
                self.m.customs.get(self.ids[i].unwrap()).map(|r| std::ptr::eq(r as *const RawCustomSection as *const u8, s as *const dyn CustomSection as *const u8)).unwrap_or(false)
            });
            // the typed sections are not items of this collection; all of them must still be there
            if let Some(ix) = ix {
                out.push((ix, self.get(ix).unwrap_or(u64::MAX)));
            }
        }
        let decoys = self.m.customs.iter().filter(|(_, s)| s.as_any().is::<Decoy>()).count();
        if decoys != self.ids.len() {
            out.push((usize::MAX, decoys as u64));
        }
        out
    }
}

fn run_history<C: Coll>(ops: &[Op]) -> String {
    let mut c = C::new();
    let mut outs = vec![];
    for op in ops {
        let o = match op {
            Op::Add(v) => match out::catch(|| c.add(*v)) {
                Ok(i) => format!("id{}", i),
                Err(_) => "PANIC-IN-ADD".to_string(),
            },
            Op::Del(i) => {
                if *i >= c.known() {
                    "unknown-id".into()
                } else {
                    match out::catch(|| c.del(*i)) {
                        Ok(()) => "ok".into(),
                        Err(_) => "absent".into(),
                    }
                }
            }
            Op::Idx(i) => {
                if *i >= c.known() {
                    "unknown-id".into()
                } else {
                    let shared = match out::catch(|| c.idx(*i)) {
                        Ok(v) => format!("some{}", v),
                        Err(_) => "absent".to_string(),
                    };
                    let exclusive_absent = out::catch(|| c.touch_mut(*i)).is_err();
                    if exclusive_absent != (shared == "absent") {
                        format!("{}-BUT-{}-FOR-EXCLUSIVE-ACCESS", shared, if exclusive_absent { "absent" } else { "present" })
                    } else {
                        shared
                    }
                }
            }
            Op::Get(i) => {
                if *i >= c.known() {
                    "unknown-id".into()
                } else {
                    match out::catch(|| c.get(*i)) {
                        Ok(Some(v)) => format!("some{}", v),
                        Ok(None) => "none".into(),
                        Err(_) => "PANIC-IN-GET".into(),
                    }
                }
            }
            Op::Iter => match out::catch(|| c.iter()) {
                Ok(l) => format!("[{}]", l.iter().map(|(i, v)| format!("{}:{}", i, v)).collect::<Vec<_>>().join(",")),
                Err(_) => "PANIC-IN-ITER".into(),
            },
            Op::Len => match out::catch(|| c.len()) {
                Ok(n) => format!("n{}", n),
                Err(_) => "PANIC-IN-LEN".into(),
            },
            Op::Find(v) => match out::catch(|| c.find(*v)) {
                Ok(Some(i)) => format!("at{}", i),
                Ok(None) => "nowhere".into(),
                Err(_) => "PANIC-IN-FIND".into(),
            },
        };
        outs.push(o);
    }
    outs.join(" ")
}

/// Direct oracle on one observed history, independent of the Lean model: replays the history
/// against the property's own wording (a map from identifier to item, a never-decreasing counter).
fn oracle(ops: &[Op], observed: &str, set: bool) -> Result<(), String> {
    let outs: Vec<&str> = observed.split(' ').collect();
    if outs.len() != ops.len() {
        return Err("answer count".into());
    }
    let mut live: Vec<(usize, u64)> = vec![]; // creation order
    let mut ever: std::collections::HashSet<usize> = Default::default();
    let mut max_id: Option<usize> = None;
    for (k, (op, o)) in ops.iter().zip(outs.iter()).enumerate() {
        let fail = |m: &str| Err(format!("step {} ({}): {} (answer {})", k, op.show(), m, o));
        match op {
            Op::Add(v) => {
                let Some(i) = o.strip_prefix("id").and_then(|x| x.parse::<usize>().ok()) else { return fail("add did not return an id") };
                let existing = live.iter().find(|(_, w)| w == v).map(|p| p.0);
                if set && existing.is_some() {
                    if existing != Some(i) {
                        return fail("adding a present value must return the existing identifier");
                    }
                } else {
                    if ever.contains(&i) {
                        return fail("identifier recycled");
                    }
                    if let Some(m) = max_id {
                        if i <= m {
                            return fail("identifier not fresh");
                        }
                    }
                    ever.insert(i);
                    max_id = Some(i);
                    live.push((i, *v));
                }
            }
            Op::Del(i) => {
                let is_live = live.iter().any(|p| p.0 == *i);
                match (*o, is_live) {
                    ("ok", true) => live.retain(|p| p.0 != *i),
                    ("absent", false) => {}
                    _ => return fail("delete outcome does not match liveness"),
                }
            }
            Op::Idx(i) | Op::Get(i) => {
                let want = match live.iter().find(|p| p.0 == *i) {
                    Some((_, v)) => format!("some{}", v),
                    None => if matches!(op, Op::Get(_)) { "none".into() } else { "absent".into() },
                };
                if *o != want {
                    return fail(&format!("identifier resolves wrongly, expected {}", want));
                }
            }
            Op::Iter => {
                let want = format!("[{}]", live.iter().map(|(i, v)| format!("{}:{}", i, v)).collect::<Vec<_>>().join(","));
                if *o != want {
                    return fail(&format!("iteration is not the live items in creation order, expected {}", want));
                }
            }
            Op::Len => {
                if *o != format!("n{}", live.len()) {
                    return fail("len is not the number of live items");
                }
            }
            Op::Find(v) => {
                let want = match live.iter().find(|p| p.1 == *v) {
                    Some((i, _)) => format!("at{}", i),
                    None => "nowhere".into(),
                };
                if *o != want {
                    return fail(&format!("find, expected {}", want));
                }
            }
        }
    }
    Ok(())
}

fn gen_history<C: Coll>(rng: &mut Rng, len: usize, nvals: u64) -> Vec<Op> {
    let mut ops = vec![];
    let mut nids = 0usize; // upper bound on identifiers handed out so far
    for _ in 0..len {
        let r = rng.below(100);
        let op = if nids == 0 || r < 35 {
            Op::Add(rng.below(nvals))
        } else if r < 60 {
            Op::Del(rng.below(nids as u64) as usize)
        } else if r < 75 {
            Op::Idx(rng.below(nids as u64) as usize)
        } else if r < 82 && C::HAS_GET {
            Op::Get(rng.below(nids as u64) as usize)
        } else if r < 90 {
            Op::Iter
        } else if r < 95 && C::HAS_LEN {
            Op::Len
        } else if C::HAS_FIND {
            Op::Find(rng.below(nvals))
        } else {
            Op::Iter
        };
        if let Op::Add(_) = op {
            nids += 1;
        }
        ops.push(op);
    }
    ops
}

/// For the model request identifiers must be arena indices; in a set, an `Add` may return an
/// existing id, so the upper bound `nids` above can exceed the ids really handed out. Ops that
/// mention an id never handed out are dropped before the history is used.
fn sanitize<C: Coll>(ops: Vec<Op>) -> Vec<Op> {
    let mut c = C::new();
    let mut out = vec![];
    for op in ops {
        match &op {
            Op::Add(v) => {
                let _ = out::catch(|| c.add(*v));
                out.push(op);
            }
            Op::Del(i) | Op::Idx(i) | Op::Get(i) => {
                if *i < c.known() {
                    if let Op::Del(i) = &op {
                        let _ = out::catch(|| c.del(*i));
                    }
                    out.push(op);
                }
            }
            _ => out.push(op),
        }
    }
    out
}

fn one<C: Coll>(case: &str, ops: Vec<Op>, seen: &mut std::collections::HashSet<String>, stats: &mut Stats) {
    let ops = sanitize::<C>(ops);
    let observed = run_history::<C>(&ops);
    let req = format!("arena {} {}", C::KIND, ops.iter().map(|o| o.show()).collect::<Vec<_>>().join(" "));
    let key = format!("{} {}", C::NAME, req);
    // non-trivial: at least one delete of a live id followed by a later observation or add
    let nontrivial = observed.split(' ').any(|o| o == "ok") && seen.insert(key);
    stats.ops += ops.len();
    stats.dels_ok += observed.split(' ').filter(|o| *o == "ok").count();
    stats.absent += observed.split(' ').filter(|o| *o == "absent" || *o == "none").count();
    out::corr(&format!("{}/{}", C::NAME, case), nontrivial, &req, &observed);
    match oracle(&ops, &observed, C::KIND == "set") {
        Ok(()) => out::oracle(&format!("{}/{}", C::NAME, case), true, "", ""),
        Err(e) => out::oracle(&format!("{}/{}", C::NAME, case), false, &format!("{}:{}", C::NAME, e.split(':').nth(1).unwrap_or("").trim()), &format!("{} | only: {} {}", e, C::NAME, req)),
    }
    if stats.samples < 3 {
        out::sample(&format!("{}: {} => {}", C::NAME, req, observed));
        stats.samples += 1;
    }
}

#[derive(Default)]
struct Stats {
    ops: usize,
    dels_ok: usize,
    absent: usize,
    samples: usize,
}

/// all histories of length `len` over {add v (v<nv), del i, idx i (i<len), iter}
fn enumerate<C: Coll>(len: usize, nv: u64, seen: &mut std::collections::HashSet<String>, stats: &mut Stats) -> usize {
    let mut alphabet = vec![];
    for v in 0..nv {
        alphabet.push(Op::Add(v));
    }
    for i in 0..len.saturating_sub(1).max(1) {
        alphabet.push(Op::Del(i));
        alphabet.push(Op::Idx(i));
    }
    alphabet.push(Op::Iter);
    let mut count = 0;
    let mut idx = vec![0usize; len];
    loop {
        let ops: Vec<Op> = idx.iter().map(|&i| alphabet[i].clone()).collect();
        // canonical: skip histories whose ops mention ids never handed out (sanitize would change them)
        let s = sanitize::<C>(ops.clone());
        if s == ops {
            one::<C>(&format!("enum{}-{}", len, count), ops, seen, stats);
            count += 1;
        }
        let mut k = 0;
        loop {
            if k == len {
                return count;
            }
            idx[k] += 1;
            if idx[k] < alphabet.len() {
                break;
            }
            idx[k] = 0;
            k += 1;
        }
    }
}

fn suite<C: Coll>(seed: u64, n: usize, maxlen: usize, enum_len: usize, seen: &mut std::collections::HashSet<String>) {
    let mut stats = Stats::default();
    let mut cases = 0;
    for len in 1..=enum_len {
        cases += enumerate::<C>(len, 2, seen, &mut stats);
    }
    for case in 0..n {
        let mut rng = Rng::new(seed, case as u64);
        let len = rng.range(1, maxlen as u64) as usize;
        let nvals = *rng.pick(&[2u64, 3, 6, 40]);
        let ops = gen_history::<C>(&mut rng, len, nvals);
        one::<C>(&format!("r{}", case), ops, seen, &mut stats);
        cases += 1;
    }
    out::stat(&format!("{}.histories", C::NAME), cases);
    out::stat(&format!("{}.ops", C::NAME), stats.ops);
    out::stat(&format!("{}.successful_deletes", C::NAME), stats.dels_ok);
    out::stat(&format!("{}.absent_answers", C::NAME), stats.absent);
}

pub fn main(seed: u64, tier: &str, only: Option<&str>) {
    let mut seen = Default::default();
    if let Some(req) = only {
        // replay: `<collection> arena <kind> ops…`
        let mut it = req.split(' ');
        let coll = it.next().unwrap_or("");
        let rest: Vec<&str> = it.collect();
        let ops: Vec<Op> = rest.iter().skip(2).filter_map(|s| Op::parse(s)).collect();
        let mut st = Stats::default();
        macro_rules! go { ($t:ty) => { one::<$t>("replay", ops.clone(), &mut seen, &mut st) }; }
        match coll {
            "types" => go!(Types),
            "types-named" => go!(TypesNamed),
            "types-entry" => go!(TypesEntry),
            "imports-by-name" => go!(ImportsByName),
            "func-imports-by-name" => go!(FuncImportsByName),
            "exports-by-name" => go!(ExportsByName),
            "memories" => go!(Memories),
            "tables" => go!(Tables),
            "globals" => go!(Globals),
            "data" => go!(Datas),
            "elements" => go!(Elements),
            "exports" => go!(Exports),
            "imports" => go!(Imports),
            "functions" => go!(Funcs),
            "customs" => go!(Customs),
            "customs-by-name" => go!(CustomsByName),
            _ => eprintln!("unknown collection {}", coll),
        }
        return;
    }
    let (n, maxlen, enum_len) = if tier == "thorough" { (6000, 60, 5) } else { (250, 40, 3) };
    suite::<Types>(seed, n * 2, maxlen, enum_len, &mut seen);
    suite::<TypesNamed>(seed ^ 0x7a, n, maxlen, enum_len, &mut seen);
    suite::<TypesEntry>(seed ^ 0x7b, n, maxlen, enum_len, &mut seen);
    suite::<ImportsByName>(seed ^ 0x7c, n, maxlen, enum_len, &mut seen);
    suite::<ExportsByName>(seed ^ 0x7d, n, maxlen, enum_len, &mut seen);
    suite::<FuncImportsByName>(seed ^ 0x7f, n, maxlen, enum_len, &mut seen);
    suite::<Memories>(seed, n, maxlen, enum_len, &mut seen);
    suite::<Tables>(seed, n, maxlen, enum_len.min(3), &mut seen);
    suite::<Globals>(seed, n, maxlen, enum_len.min(3), &mut seen);
    suite::<Datas>(seed, n, maxlen, enum_len.min(3), &mut seen);
    suite::<Elements>(seed, n, maxlen, enum_len.min(3), &mut seen);
    suite::<Exports>(seed, n, maxlen, enum_len.min(3), &mut seen);
    suite::<Imports>(seed, n, maxlen, enum_len.min(3), &mut seen);
    suite::<Funcs>(seed, n, maxlen, enum_len.min(3), &mut seen);
    suite::<Customs>(seed, n, maxlen, enum_len.min(3), &mut seen);
    suite::<CustomsByName>(seed ^ 0x7e, n, maxlen, enum_len.min(3), &mut seen);
}
