//! Suite `features` (C20): the round trip must not make a module need a proposal it did not need.
use crate::decode;
use crate::gen::{self, GenCfg};
use crate::modtext;
use crate::out;
use crate::rng::Rng;
use wasmparser::WasmFeatures;

pub fn proposals() -> Vec<(&'static str, WasmFeatures)> {
    vec![
        ("mutable-global", WasmFeatures::MUTABLE_GLOBAL),
        ("saturating-float-to-int", WasmFeatures::SATURATING_FLOAT_TO_INT),
        ("sign-extension", WasmFeatures::SIGN_EXTENSION),
        ("multi-value", WasmFeatures::MULTI_VALUE),
        ("reference-types", WasmFeatures::REFERENCE_TYPES),
        ("bulk-memory", WasmFeatures::BULK_MEMORY),
        ("simd", WasmFeatures::SIMD),
        ("relaxed-simd", WasmFeatures::RELAXED_SIMD),
        ("tail-call", WasmFeatures::TAIL_CALL),
        ("threads", WasmFeatures::THREADS),
        ("multi-memory", WasmFeatures::MULTI_MEMORY),
        ("memory64", WasmFeatures::MEMORY64),
    ]
}

/// feature sets to test: each single proposal removed; in thorough mode also random subsets
fn reduced_sets(rng: &mut Rng, thorough: bool) -> Vec<(String, WasmFeatures)> {
    let all = decode::walrus_features(false);
    let ps = proposals();
    let mut v: Vec<(String, WasmFeatures)> = ps.iter().map(|(n, f)| (format!("-{}", n), all.difference(*f))).collect();
    // the MVP itself
    let mut mvp = WasmFeatures::empty();
    mvp.insert(WasmFeatures::FLOATS);
    v.push(("mvp".into(), mvp));
    let k = if thorough { 24 } else { 4 };
    for _ in 0..k {
        let mut f = mvp;
        let mut name = String::from("mvp");
        for (n, p) in &ps {
            if rng.chance(1, 2) {
                f.insert(*p);
                name.push_str(&format!("+{}", n));
            }
        }
        v.push((name, f));
    }
    v
}

/// the leading u32 of every element segment (table index in the MVP, flag word later)
fn elem_flags(wasm: &[u8]) -> Vec<u32> {
    let mut v = vec![];
    for p in wasmparser::Parser::new(0).parse_all(wasm) {
        if let Ok(wasmparser::Payload::ElementSection(r)) = p {
            for e in r {
                if let Ok(e) = e {
                    let mut x: u32 = 0;
                    let mut shift = 0;
                    for b in &wasm[e.range.start..e.range.end.min(e.range.start + 5)] {
                        x |= ((*b & 0x7f) as u32) << shift;
                        shift += 7;
                        if *b < 0x80 {
                            break;
                        }
                    }
                    v.push(x);
                }
            }
        }
    }
    v
}

fn valid_under(wasm: &[u8], f: WasmFeatures) -> bool {
    // some combinations are rejected by wasmparser itself (e.g. reference types without bulk memory);
    // a panic or error about the feature set counts as "not valid under it" for input and output alike
    out::catch(|| decode::validate(wasm, f).is_ok()).unwrap_or(false)
}

#[derive(Default)]
struct Stats {
    modules: usize,
    sets_checked: usize,
    sets_input_valid: usize,
    per_proposal_unneeded: std::collections::BTreeMap<String, usize>,
    samples: usize,
}

fn run_wasm(case: &str, wasm: &[u8], rng: &mut Rng, thorough: bool, stats: &mut Stats) {
    let only = out::hex(wasm);
    let Ok(a) = decode::decode(wasm) else { return };
    let req = format!("module {}", modtext::module_text(&a, false, true));
    let Ok(Ok(bytes)) = out::catch(|| walrus::Module::from_buffer(wasm).map(|mut m| m.emit_wasm())) else {
        out::oracle(case, false, "C05:valid-module-rejected-or-panic", &format!("round trip failed | only: {}", only));
        return;
    };
    let b = decode::decode(&bytes).expect("decode output");
    out::corr(case, true, &req, &modtext::module_text(&b, false, true));
    stats.modules += 1;
    let mut fails = vec![];
    let mut unneeded = vec![];
    for (name, f) in reduced_sets(rng, thorough) {
        stats.sets_checked += 1;
        if valid_under(wasm, f) {
            stats.sets_input_valid += 1;
            if name.starts_with('-') {
                *stats.per_proposal_unneeded.entry(name.clone()).or_insert(0) += 1;
                unneeded.push(name.clone());
            }
            // the data-count section belongs to bulk-memory, but the reference validator accepts it
            // under any feature set: decided syntactically
            let input_uses_bulk_data = a.datas.iter().any(|d| matches!(d.mode, decode::DataMode::Passive))
                || a.code.iter().any(|c| c.ops.iter().any(|o| o.is("MemoryInit") || o.is("DataDrop")));
            if !f.contains(WasmFeatures::BULK_MEMORY) && b.data_count.is_some() && a.data_count.is_none() && !input_uses_bulk_data {
                fails.push(("C20:output-needs-bulk-memory-data-count-section".into(), format!("the input validates under feature set `{}` (no bulk-memory), has no data-count section, no passive data segment and no memory.init/data.drop; the output has a data-count section", name)));
            }
            // likewise the element-segment encodings: the leading u32 of a segment is the table index
            // (0) in the MVP, a flag word 1..=3 with bulk-memory and 4..=7 with reference types; the
            // reference validator reads all of them under any feature set
            let fa = elem_flags(wasm);
            let fb = elem_flags(&bytes);
            let level = |x: u32| if x == 0 { 0 } else if x < 4 { 1 } else { 2 };
            let la = fa.iter().map(|x| level(*x)).max().unwrap_or(0);
            let lb = fb.iter().map(|x| level(*x)).max().unwrap_or(0);
            if lb > la && ((lb == 1 && !f.contains(WasmFeatures::BULK_MEMORY)) || (lb == 2 && !f.contains(WasmFeatures::REFERENCE_TYPES))) {
                fails.push(("C20:output-uses-newer-element-segment-encoding".into(), format!("the input validates under feature set `{}` and its element segments start with {:?}; the output's start with {:?} (1..=3 belong to bulk-memory, 4..=7 to reference-types)", name, fa, fb)));
            }
            if let Err(e) = decode::validate(&bytes, f) {
                let key = if name.starts_with('-') { format!("C20:output-needs-{}", &name[1..]) } else { "C20:output-needs-more-than-input".to_string() };
                fails.push((key, format!("the input validates under feature set `{}`, the output does not: {}", name, e)));
            }
        }
    }
    if stats.samples < 3 {
        out::sample(&format!("{} bytes; proposals the input does not need: {}", wasm.len(), unneeded.join(" ")));
        stats.samples += 1;
    }
    if fails.is_empty() {
        out::oracle(case, true, "", "");
    } else {
        let mut keys = std::collections::HashSet::new();
        for (k, m) in fails {
            if keys.insert(k.clone()) {
                out::oracle(case, false, &k, &format!("{} | only: {}", &m[..m.len().min(300)], only));
            }
        }
    }
}

pub fn main(seed: u64, tier: &str, only: Option<&str>) {
    let mut stats = Stats::default();
    let thorough = tier == "thorough";
    if let Some(o) = only {
        let mut rng = Rng::new(seed, 0);
        run_wasm("replay", &out::unhex(o), &mut rng, thorough, &mut stats);
        return;
    }
    let n = if thorough { 3000 * crate::out::thorough_scale() } else { 300 };
    for case in 0..n {
        let mut rng = Rng::new(seed ^ 0xfea7, case as u64);
        // minimal feature use: pure MVP, or MVP plus exactly one proposal, or a random mix
        let mut g = GenCfg::mvp();
        g.max_funcs = 5;
        match case % 14 {
            0 | 1 => {}
            2 => g.multi_value = true,
            3 => g.ref_types = true,
            4 => g.bulk = true,
            5 => g.simd = true,
            6 => g.tail_call = true,
            7 => g.sign_ext = true,
            8 => g.sat_float = true,
            9 => g.mutable_global_io = true,
            10 => g.multi_memory = true,
            11 => {
                g.memory64 = true;
                g.import_mem64 = true;
            }
            12 => g.threads = true,
            _ => {
                g = GenCfg::random(&mut rng);
                g.extern_elem_global = false;
            }
        }
        g.big_offsets = false;
        g.names = rng.chance(1, 3);
        let (wasm, _) = gen::gen_valid(&mut rng, &g);
        run_wasm(&format!("f{}", case), &wasm, &mut rng, thorough, &mut stats);
    }
    out::stat("features.modules", stats.modules);
    out::stat("features.feature_sets_checked", stats.sets_checked);
    out::stat("features.feature_sets_under_which_the_input_validates", stats.sets_input_valid);
    for (k, v) in &stats.per_proposal_unneeded {
        out::stat(&format!("features.inputs_not_needing{}", k), *v);
    }
}
