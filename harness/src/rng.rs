//! Deterministic PRNG (splitmix64). Every random choice of every suite comes from one of these,
//! seeded from VERIF_SEED and the case number, so a case replays exactly.

#[derive(Clone)]
pub struct Rng(pub u64);

impl Rng {
    pub fn new(seed: u64, case: u64) -> Rng {
        let mut r = Rng(seed ^ case.wrapping_mul(0x9E37_79B9_7F4A_7C15) ^ 0xD1B5_4A32_D192_ED03);
        r.next();
        r.next();
        r
    }
    pub fn next(&mut self) -> u64 {
        self.0 = self.0.wrapping_add(0x9E37_79B9_7F4A_7C15);
        let mut z = self.0;
        z = (z ^ (z >> 30)).wrapping_mul(0xBF58_476D_1CE4_E5B9);
        z = (z ^ (z >> 27)).wrapping_mul(0x94D0_49BB_1331_11EB);
        z ^ (z >> 31)
    }
    /// uniform in 0..n (n > 0)
    pub fn below(&mut self, n: u64) -> u64 {
        if n == 0 {
            0
        } else {
            self.next() % n
        }
    }
    pub fn range(&mut self, lo: u64, hi_incl: u64) -> u64 {
        lo + self.below(hi_incl - lo + 1)
    }
    pub fn chance(&mut self, num: u64, den: u64) -> bool {
        self.below(den) < num
    }
    pub fn pick<'a, T>(&mut self, xs: &'a [T]) -> &'a T {
        &xs[self.below(xs.len() as u64) as usize]
    }
}
