//! Type-directed generator of *valid* wasm modules, written with wasm-encoder directly.
//! All choices come from one `Rng`, so a (seed, case) pair regenerates the same bytes.
use crate::rng::Rng;
use std::borrow::Cow;
use wasm_encoder::*;

#[derive(Clone, Debug)]
pub struct GenCfg {
    pub max_funcs: usize,
    pub max_stmts: usize,
    pub max_depth: usize,
    pub multi_value: bool,
    pub ref_types: bool,
    pub bulk: bool,
    pub simd: bool,
    pub tail_call: bool,
    pub sign_ext: bool,
    pub sat_float: bool,
    pub mutable_global_io: bool,
    pub multi_memory: bool,
    pub memory64: bool,
    pub threads: bool,
    pub customs: bool,
    pub names: bool,
    pub producers: bool,
    /// name section = module name + function names only
    pub names_simple: bool,
    /// the name section always carries a module name
    pub names_module: bool,
    /// add `.debug_*` custom sections with junk payloads (only meaningful when DWARF generation is off)
    pub junk_debug: bool,
    /// additionally export every function as `__f<index>` (lets oracles follow functions through reordering)
    pub export_all_funcs: bool,
    pub dead_code: bool,
    pub start: bool,
    /// imported 64-bit memories (kept switchable: D2)
    pub import_mem64: bool,
    /// allow memarg offsets >= 2^32 on 64-bit memories (kept switchable: D5)
    pub big_offsets: bool,
    /// allow global.get items in externref element segments (kept switchable: D4)
    pub extern_elem_global: bool,
    /// keep active segments within the minimum size of their table / memory and give memories and
    /// tables a non-zero minimum, so that instantiation succeeds (execution suites)
    pub instantiable: bool,
}

impl GenCfg {
    pub fn mvp() -> GenCfg {
        GenCfg {
            max_funcs: 6,
            max_stmts: 6,
            max_depth: 3,
            multi_value: false,
            ref_types: false,
            bulk: false,
            simd: false,
            tail_call: false,
            sign_ext: false,
            sat_float: false,
            mutable_global_io: false,
            multi_memory: false,
            memory64: false,
            threads: false,
            customs: false,
            names: false,
            producers: false,
            names_simple: false,
            names_module: false,
            junk_debug: false,
            export_all_funcs: false,
            dead_code: true,
            start: true,
            import_mem64: false,
            big_offsets: false,
            extern_elem_global: false,
            instantiable: false,
        }
    }
    pub fn full() -> GenCfg {
        GenCfg {
            max_funcs: 8,
            max_stmts: 7,
            max_depth: 4,
            multi_value: true,
            ref_types: true,
            bulk: true,
            simd: true,
            tail_call: true,
            sign_ext: true,
            sat_float: true,
            mutable_global_io: true,
            multi_memory: true,
            memory64: true,
            threads: true,
            customs: true,
            names: true,
            producers: true,
            names_simple: false,
            names_module: false,
            junk_debug: false,
            export_all_funcs: false,
            dead_code: true,
            start: true,
            import_mem64: true,
            big_offsets: true,
            extern_elem_global: true,
            instantiable: false,
        }
    }
    /// random feature mix (each post-MVP proposal independently on/off)
    pub fn random(rng: &mut Rng) -> GenCfg {
        let mut c = GenCfg::full();
        c.multi_value = rng.chance(1, 2);
        c.ref_types = rng.chance(1, 2);
        c.bulk = rng.chance(1, 2);
        c.simd = rng.chance(1, 3);
        c.tail_call = rng.chance(1, 3);
        c.sign_ext = rng.chance(1, 2);
        c.sat_float = rng.chance(1, 2);
        c.mutable_global_io = rng.chance(1, 2);
        c.multi_memory = rng.chance(1, 3);
        c.memory64 = rng.chance(1, 3);
        c.threads = rng.chance(1, 4);
        c.max_funcs = rng.range(1, 10) as usize;
        c.max_stmts = rng.range(1, 8) as usize;
        c.max_depth = rng.range(1, 5) as usize;
        c
    }
}

#[derive(Clone, Copy, Debug, PartialEq, Eq)]
pub enum VT {
    I32,
    I64,
    F32,
    F64,
    V128,
    FuncRef,
    ExternRef,
}

impl VT {
    pub fn enc(self) -> ValType {
        match self {
            VT::I32 => ValType::I32,
            VT::I64 => ValType::I64,
            VT::F32 => ValType::F32,
            VT::F64 => ValType::F64,
            VT::V128 => ValType::V128,
            VT::FuncRef => ValType::Ref(RefType::FUNCREF),
            VT::ExternRef => ValType::Ref(RefType::EXTERNREF),
        }
    }
    fn is_ref(self) -> bool {
        matches!(self, VT::FuncRef | VT::ExternRef)
    }
    fn reft(self) -> RefType {
        match self {
            VT::FuncRef => RefType::FUNCREF,
            _ => RefType::EXTERNREF,
        }
    }
    fn heap(self) -> HeapType {
        match self {
            VT::FuncRef => HeapType::FUNC,
            _ => HeapType::EXTERN,
        }
    }
}

#[derive(Clone, Debug)]
struct MemInfo {
    is64: bool,
    shared: bool,
    min: u64,
}
#[derive(Clone, Debug)]
struct TableInfo {
    elem: VT,
    min: u64,
    is64: bool,
}
#[derive(Clone, Debug)]
struct GlobalInfo {
    ty: VT,
    mutable: bool,
    imported: bool,
}

type I = Instruction<'static>;

struct Ctx<'a> {
    cfg: &'a GenCfg,
    types: Vec<(Vec<VT>, Vec<VT>)>,
    funcs: Vec<u32>, // type index per function (imports first)
    mems: Vec<MemInfo>,
    tables: Vec<TableInfo>,
    globals: Vec<GlobalInfo>,
    n_data: u32,
    n_elem: u32,
    elem_tys: Vec<VT>,
    passive_data: bool,
    /// functions that may be referenced by ref.func in bodies (must be "declared": exported, in an element segment, …)
    declared_funcs: Vec<u32>,
    uses_data_index: bool,
}

struct Frame {
    label_tys: Vec<VT>,
}

struct FnCtx<'a, 'b> {
    c: &'b mut Ctx<'a>,
    locals: Vec<VT>, // params then locals
    results: Vec<VT>,
    frames: Vec<Frame>,
    out: Vec<I>,
    budget: i64,
}

fn vals(cfg: &GenCfg) -> Vec<VT> {
    let mut v = vec![VT::I32, VT::I64, VT::F32, VT::F64];
    if cfg.simd {
        v.push(VT::V128);
    }
    if cfg.ref_types {
        v.push(VT::FuncRef);
        v.push(VT::ExternRef);
    }
    v
}

fn interesting_i32(rng: &mut Rng) -> i32 {
    let (a, b) = (rng.next(), rng.next());
    *rng.pick(&[0, 1, -1, 2, 63, 64, 127, 128, 255, 256, 65535, 65536, i32::MAX, i32::MIN, 0x7fff_ff80u32 as i32, a as i32, b as i32])
}
fn interesting_i64(rng: &mut Rng) -> i64 {
    let (a, b) = (rng.next(), rng.next());
    *rng.pick(&[0, 1, -1, 63, 64, 127, 128, 1 << 32, (1 << 32) - 1, i64::MAX, i64::MIN, a as i64, b as i64])
}
fn interesting_f32(rng: &mut Rng) -> f32 {
    let a = rng.next();
    f32::from_bits(*rng.pick(&[0, 0x8000_0000, 0x3f80_0000, 0x7f80_0000, 0xff80_0000, 0x7fc0_0000, 0x7fa0_0001, 0xffc0_1234, 1, a as u32]))
}
fn interesting_f64(rng: &mut Rng) -> f64 {
    let a = rng.next();
    f64::from_bits(*rng.pick(&[0, 1u64 << 63, 0x3ff0_0000_0000_0000, 0x7ff0_0000_0000_0000, 0x7ff8_0000_0000_0000, 0x7ff4_0000_0000_0001, 0xfff8_0000_dead_beef, 1, a]))
}

impl<'a, 'b> FnCtx<'a, 'b> {
    fn emit(&mut self, i: I) {
        self.budget -= 1;
        self.out.push(i);
    }

    fn block_type_for(&mut self, params: &[VT], results: &[VT]) -> Option<BlockType> {
        if params.is_empty() && results.is_empty() {
            return Some(BlockType::Empty);
        }
        if params.is_empty() && results.len() == 1 {
            return Some(BlockType::Result(results[0].enc()));
        }
        if !self.c.cfg.multi_value {
            return None;
        }
        let pos = self.c.types.iter().position(|(p, r)| p == params && r == results)?;
        Some(BlockType::FunctionType(pos as u32))
    }

    fn memarg(&mut self, rng: &mut Rng, mem: u32, natural_align: u32) -> MemArg {
        let is64 = self.c.mems[mem as usize].is64;
        let align = rng.range(0, natural_align as u64) as u32;
        let offset = if is64 && self.c.cfg.big_offsets && rng.chance(1, 6) {
            *rng.pick(&[1u64 << 32, (1u64 << 32) + 4, u64::MAX >> 1, 0x1_0000_0004])
        } else {
            *rng.pick(&[0u64, 0, 1, 4, 8, 127, 128, 16383, 16384, 65535, 0xffff_ffff])
        };
        MemArg { offset, align, memory_index: mem }
    }

    fn addr(&mut self, rng: &mut Rng, mem: u32, depth: usize) {
        if self.c.mems[mem as usize].is64 {
            self.expr(rng, VT::I64, depth)
        } else {
            self.expr(rng, VT::I32, depth)
        }
    }

    fn const_of(&mut self, rng: &mut Rng, ty: VT) {
        let i = match ty {
            VT::I32 => I::I32Const(interesting_i32(rng)),
            VT::I64 => I::I64Const(interesting_i64(rng)),
            VT::F32 => I::F32Const(interesting_f32(rng)),
            VT::F64 => I::F64Const(interesting_f64(rng)),
            VT::V128 => I::V128Const(((rng.next() as u128) << 64 | rng.next() as u128) as i128),
            VT::FuncRef | VT::ExternRef => I::RefNull(ty.heap()),
        };
        self.emit(i);
    }

    /// push exactly one value of type `ty`
    fn expr(&mut self, rng: &mut Rng, ty: VT, depth: usize) {
        if depth == 0 || self.budget <= 0 {
            // leaf
            let locals: Vec<u32> = (0..self.locals.len() as u32).filter(|&i| self.locals[i as usize] == ty).collect();
            if !locals.is_empty() && rng.chance(1, 2) {
                let l = *rng.pick(&locals);
                self.emit(I::LocalGet(l));
            } else {
                self.const_of(rng, ty);
            }
            return;
        }
        let d = depth - 1;
        let choice = rng.below(100);
        match ty {
            VT::I32 | VT::I64 | VT::F32 | VT::F64 => {
                if choice < 12 {
                    self.const_of(rng, ty);
                } else if choice < 22 {
                    let locals: Vec<u32> = (0..self.locals.len() as u32).filter(|&i| self.locals[i as usize] == ty).collect();
                    if locals.is_empty() {
                        self.const_of(rng, ty);
                    } else {
                        let l = *rng.pick(&locals);
                        if rng.chance(1, 4) {
                            self.expr(rng, ty, d);
                            self.emit(I::LocalTee(l));
                        } else {
                            self.emit(I::LocalGet(l));
                        }
                    }
                } else if choice < 28 {
                    let gs: Vec<u32> = (0..self.c.globals.len() as u32).filter(|&i| self.c.globals[i as usize].ty == ty).collect();
                    if gs.is_empty() {
                        self.const_of(rng, ty);
                    } else {
                        self.emit(I::GlobalGet(*rng.pick(&gs)));
                    }
                } else if choice < 48 {
                    self.binop(rng, ty, d);
                } else if choice < 56 {
                    self.unop(rng, ty, d);
                } else if choice < 66 && !self.c.mems.is_empty() {
                    self.load(rng, ty, d);
                } else if choice < 74 {
                    self.call_returning(rng, ty, d);
                } else if choice < 84 {
                    self.block_expr(rng, ty, d);
                } else if choice < 90 {
                    // select
                    self.expr(rng, ty, d);
                    self.expr(rng, ty, d);
                    self.expr(rng, VT::I32, d);
                    if self.c.cfg.ref_types && rng.chance(1, 4) {
                        self.emit(I::TypedSelect(ty.enc()));
                    } else {
                        self.emit(I::Select);
                    }
                } else if choice < 96 {
                    self.convert(rng, ty, d);
                } else {
                    self.special(rng, ty, d);
                }
            }
            VT::V128 => {
                if choice < 30 {
                    self.const_of(rng, ty);
                } else if choice < 45 {
                    self.expr(rng, VT::I32, d);
                    self.emit(I::I32x4Splat);
                } else if choice < 60 {
                    self.expr(rng, VT::V128, d);
                    self.expr(rng, VT::V128, d);
                    let op = rng.pick(&[I::I8x16Add, I::I32x4Mul, I::V128Xor, I::F64x2Max, I::I16x8Sub, I::I8x16Swizzle]).clone();
                    self.emit(op);
                } else if choice < 70 {
                    self.expr(rng, VT::V128, d);
                    self.expr(rng, VT::V128, d);
                    let mut lanes = [0u8; 16];
                    for l in lanes.iter_mut() {
                        *l = rng.below(32) as u8;
                    }
                    self.emit(I::I8x16Shuffle(lanes));
                } else if choice < 80 && !self.c.mems.is_empty() {
                    let mem = rng.below(self.c.mems.len() as u64) as u32;
                    self.addr(rng, mem, d);
                    let ma = self.memarg(rng, mem, 4);
                    self.emit(I::V128Load(ma));
                } else if choice < 90 {
                    self.expr(rng, VT::V128, d);
                    self.expr(rng, VT::F32, d);
                    self.emit(I::F32x4ReplaceLane(rng.below(4) as u8));
                } else {
                    let locals: Vec<u32> = (0..self.locals.len() as u32).filter(|&i| self.locals[i as usize] == ty).collect();
                    if locals.is_empty() {
                        self.const_of(rng, ty);
                    } else {
                        self.emit(I::LocalGet(*rng.pick(&locals)));
                    }
                }
            }
            VT::FuncRef | VT::ExternRef => {
                if choice < 30 {
                    self.const_of(rng, ty);
                } else if choice < 50 && ty == VT::FuncRef && !self.c.declared_funcs.is_empty() {
                    let f = *rng.pick(&self.c.declared_funcs);
                    self.emit(I::RefFunc(f));
                } else if choice < 70 {
                    let ts: Vec<u32> = (0..self.c.tables.len() as u32).filter(|&i| self.c.tables[i as usize].elem == ty).collect();
                    if ts.is_empty() {
                        self.const_of(rng, ty);
                    } else {
                        let t = *rng.pick(&ts);
                        let ix = self.tix(t);
                        self.expr(rng, ix, d);
                        self.emit(I::TableGet(t));
                    }
                } else if choice < 80 {
                    self.expr(rng, ty, d);
                    self.expr(rng, ty, d);
                    self.expr(rng, VT::I32, d);
                    self.emit(I::TypedSelect(ty.enc()));
                } else if choice < 90 {
                    self.block_expr(rng, ty, d);
                } else {
                    let locals: Vec<u32> = (0..self.locals.len() as u32).filter(|&i| self.locals[i as usize] == ty).collect();
                    if locals.is_empty() {
                        self.const_of(rng, ty);
                    } else {
                        self.emit(I::LocalGet(*rng.pick(&locals)));
                    }
                }
            }
        }
    }

    fn binop(&mut self, rng: &mut Rng, ty: VT, d: usize) {
        match ty {
            VT::I32 => {
                if rng.chance(1, 3) {
                    // comparison of some other type
                    let t = *rng.pick(&[VT::I32, VT::I64, VT::F32, VT::F64]);
                    self.expr(rng, t, d);
                    self.expr(rng, t, d);
                    let op = match t {
                        VT::I32 => rng.pick(&[I::I32Eq, I::I32Ne, I::I32LtS, I::I32LtU, I::I32GtS, I::I32GeU, I::I32LeS]).clone(),
                        VT::I64 => rng.pick(&[I::I64Eq, I::I64Ne, I::I64LtS, I::I64LtU, I::I64GtU, I::I64GeS, I::I64LeU]).clone(),
                        VT::F32 => rng.pick(&[I::F32Eq, I::F32Ne, I::F32Lt, I::F32Gt, I::F32Le, I::F32Ge]).clone(),
                        _ => rng.pick(&[I::F64Eq, I::F64Ne, I::F64Lt, I::F64Gt, I::F64Le, I::F64Ge]).clone(),
                    };
                    self.emit(op);
                } else {
                    self.expr(rng, ty, d);
                    self.expr(rng, ty, d);
                    let op = rng
                        .pick(&[I::I32Add, I::I32Sub, I::I32Mul, I::I32DivS, I::I32DivU, I::I32RemS, I::I32RemU, I::I32And, I::I32Or, I::I32Xor, I::I32Shl, I::I32ShrS, I::I32ShrU, I::I32Rotl, I::I32Rotr])
                        .clone();
                    self.emit(op);
                }
            }
            VT::I64 => {
                self.expr(rng, ty, d);
                self.expr(rng, ty, d);
                let op = rng
                    .pick(&[I::I64Add, I::I64Sub, I::I64Mul, I::I64DivS, I::I64DivU, I::I64RemS, I::I64RemU, I::I64And, I::I64Or, I::I64Xor, I::I64Shl, I::I64ShrS, I::I64ShrU, I::I64Rotl, I::I64Rotr])
                    .clone();
                self.emit(op);
            }
            VT::F32 => {
                self.expr(rng, ty, d);
                self.expr(rng, ty, d);
                let op = rng.pick(&[I::F32Add, I::F32Sub, I::F32Mul, I::F32Div, I::F32Min, I::F32Max, I::F32Copysign]).clone();
                self.emit(op);
            }
            _ => {
                self.expr(rng, ty, d);
                self.expr(rng, ty, d);
                let op = rng.pick(&[I::F64Add, I::F64Sub, I::F64Mul, I::F64Div, I::F64Min, I::F64Max, I::F64Copysign]).clone();
                self.emit(op);
            }
        }
    }

    fn unop(&mut self, rng: &mut Rng, ty: VT, d: usize) {
        match ty {
            VT::I32 => {
                if rng.chance(1, 3) {
                    let t = *rng.pick(&[VT::I32, VT::I64]);
                    self.expr(rng, t, d);
                    self.emit(if t == VT::I32 { I::I32Eqz } else { I::I64Eqz });
                } else {
                    self.expr(rng, ty, d);
                    let mut ops = vec![I::I32Clz, I::I32Ctz, I::I32Popcnt];
                    if self.c.cfg.sign_ext {
                        ops.push(I::I32Extend8S);
                        ops.push(I::I32Extend16S);
                    }
                    self.emit(rng.pick(&ops).clone());
                }
            }
            VT::I64 => {
                self.expr(rng, ty, d);
                let mut ops = vec![I::I64Clz, I::I64Ctz, I::I64Popcnt];
                if self.c.cfg.sign_ext {
                    ops.push(I::I64Extend8S);
                    ops.push(I::I64Extend16S);
                    ops.push(I::I64Extend32S);
                }
                self.emit(rng.pick(&ops).clone());
            }
            VT::F32 => {
                self.expr(rng, ty, d);
                self.emit(rng.pick(&[I::F32Abs, I::F32Neg, I::F32Ceil, I::F32Floor, I::F32Trunc, I::F32Nearest, I::F32Sqrt]).clone());
            }
            _ => {
                self.expr(rng, ty, d);
                self.emit(rng.pick(&[I::F64Abs, I::F64Neg, I::F64Ceil, I::F64Floor, I::F64Trunc, I::F64Nearest, I::F64Sqrt]).clone());
            }
        }
    }

    fn convert(&mut self, rng: &mut Rng, ty: VT, d: usize) {
        let sat = self.c.cfg.sat_float;
        let (src, op): (VT, I) = match ty {
            VT::I32 => {
                let mut v = vec![(VT::I64, I::I32WrapI64), (VT::F32, I::I32TruncF32S), (VT::F64, I::I32TruncF64U), (VT::F32, I::I32ReinterpretF32)];
                if sat {
                    v.push((VT::F32, I::I32TruncSatF32S));
                    v.push((VT::F64, I::I32TruncSatF64U));
                }
                rng.pick(&v).clone()
            }
            VT::I64 => {
                let mut v = vec![(VT::I32, I::I64ExtendI32S), (VT::I32, I::I64ExtendI32U), (VT::F32, I::I64TruncF32U), (VT::F64, I::I64TruncF64S), (VT::F64, I::I64ReinterpretF64)];
                if sat {
                    v.push((VT::F32, I::I64TruncSatF32U));
                    v.push((VT::F64, I::I64TruncSatF64S));
                }
                rng.pick(&v).clone()
            }
            VT::F32 => rng.pick(&[(VT::I32, I::F32ConvertI32S), (VT::I64, I::F32ConvertI64U), (VT::F64, I::F32DemoteF64), (VT::I32, I::F32ReinterpretI32)]).clone(),
            _ => rng.pick(&[(VT::I32, I::F64ConvertI32U), (VT::I64, I::F64ConvertI64S), (VT::F32, I::F64PromoteF32), (VT::I64, I::F64ReinterpretI64)]).clone(),
        };
        self.expr(rng, src, d);
        self.emit(op);
    }

    fn special(&mut self, rng: &mut Rng, ty: VT, d: usize) {
        // memory.size / memory.grow / table.size / ref.is_null / atomics / lane extraction
        let mems32: Vec<u32> = (0..self.c.mems.len() as u32).filter(|&i| !self.c.mems[i as usize].is64).collect();
        let mems64: Vec<u32> = (0..self.c.mems.len() as u32).filter(|&i| self.c.mems[i as usize].is64).collect();
        match ty {
            VT::I32 => {
                let k = rng.below(6);
                if k == 0 && !mems32.is_empty() {
                    self.emit(I::MemorySize(*rng.pick(&mems32)));
                } else if k == 1 && !mems32.is_empty() {
                    self.expr(rng, VT::I32, d);
                    self.emit(I::MemoryGrow(*rng.pick(&mems32)));
                } else if k == 2 && self.c.cfg.ref_types && self.c.tables.iter().any(|t| !t.is64) {
                    let ts: Vec<u32> = (0..self.c.tables.len() as u32).filter(|&i| !self.c.tables[i as usize].is64).collect();
                    self.emit(I::TableSize(*rng.pick(&ts)));
                } else if k == 3 && self.c.cfg.ref_types {
                    let t = *rng.pick(&[VT::FuncRef, VT::ExternRef]);
                    self.expr(rng, t, d);
                    self.emit(I::RefIsNull);
                } else if k == 4 && self.c.cfg.threads && !self.c.mems.is_empty() {
                    let mem = rng.below(self.c.mems.len() as u64) as u32;
                    self.addr(rng, mem, d);
                    self.expr(rng, VT::I32, d);
                    let mut ma = self.memarg(rng, mem, 2);
                    ma.align = 2;
                    self.emit(rng.pick(&[I::I32AtomicRmwAdd(ma), I::I32AtomicRmwXchg(ma), I::I32AtomicRmwOr(ma)]).clone());
                } else if k == 5 && self.c.cfg.simd {
                    self.expr(rng, VT::V128, d);
                    self.emit(I::I8x16ExtractLaneS(rng.below(16) as u8));
                } else {
                    self.const_of(rng, ty);
                }
            }
            VT::I64 => {
                let k = rng.below(3);
                if k == 0 && !mems64.is_empty() {
                    self.emit(I::MemorySize(*rng.pick(&mems64)));
                } else if k == 1 && !mems64.is_empty() {
                    self.expr(rng, VT::I64, d);
                    self.emit(I::MemoryGrow(*rng.pick(&mems64)));
                } else if k == 2 && self.c.cfg.threads && !self.c.mems.is_empty() {
                    let mem = rng.below(self.c.mems.len() as u64) as u32;
                    self.addr(rng, mem, d);
                    let mut ma = self.memarg(rng, mem, 3);
                    ma.align = 3;
                    self.emit(I::I64AtomicLoad(ma));
                } else {
                    self.const_of(rng, ty);
                }
            }
            _ => self.const_of(rng, ty),
        }
    }

    fn load(&mut self, rng: &mut Rng, ty: VT, d: usize) {
        let mem = rng.below(self.c.mems.len() as u64) as u32;
        self.addr(rng, mem, d);
        let (op, nat): (fn(MemArg) -> I, u32) = match ty {
            VT::I32 => *rng.pick(&[(I::I32Load as fn(MemArg) -> I, 2u32), (I::I32Load8S, 0), (I::I32Load8U, 0), (I::I32Load16S, 1), (I::I32Load16U, 1)]),
            VT::I64 => *rng.pick(&[(I::I64Load as fn(MemArg) -> I, 3u32), (I::I64Load8S, 0), (I::I64Load8U, 0), (I::I64Load16S, 1), (I::I64Load16U, 1), (I::I64Load32S, 2), (I::I64Load32U, 2)]),
            VT::F32 => (I::F32Load as fn(MemArg) -> I, 2),
            _ => (I::F64Load as fn(MemArg) -> I, 3),
        };
        let ma = self.memarg(rng, mem, nat);
        self.emit(op(ma));
    }

    fn store(&mut self, rng: &mut Rng, d: usize) {
        let mem = rng.below(self.c.mems.len() as u64) as u32;
        let ty = *rng.pick(&[VT::I32, VT::I64, VT::F32, VT::F64]);
        self.addr(rng, mem, d);
        self.expr(rng, ty, d);
        let (op, nat): (fn(MemArg) -> I, u32) = match ty {
            VT::I32 => *rng.pick(&[(I::I32Store as fn(MemArg) -> I, 2u32), (I::I32Store8, 0), (I::I32Store16, 1)]),
            VT::I64 => *rng.pick(&[(I::I64Store as fn(MemArg) -> I, 3u32), (I::I64Store8, 0), (I::I64Store16, 1), (I::I64Store32, 2)]),
            VT::F32 => (I::F32Store as fn(MemArg) -> I, 2),
            _ => (I::F64Store as fn(MemArg) -> I, 3),
        };
        let ma = self.memarg(rng, mem, nat);
        self.emit(op(ma));
    }

    fn call_args(&mut self, rng: &mut Rng, params: &[VT], d: usize) {
        for p in params {
            self.expr(rng, *p, d);
        }
    }

    fn call_returning(&mut self, rng: &mut Rng, ty: VT, d: usize) {
        let cands: Vec<u32> = (0..self.c.funcs.len() as u32).filter(|&f| self.c.types[self.c.funcs[f as usize] as usize].1 == vec![ty]).collect();
        if cands.is_empty() {
            self.const_of(rng, ty);
            return;
        }
        let f = *rng.pick(&cands);
        let tyidx = self.c.funcs[f as usize];
        let params = self.c.types[tyidx as usize].0.clone();
        self.call_args(rng, &params, d);
        let ftables: Vec<u32> = (0..self.c.tables.len() as u32).filter(|&i| self.c.tables[i as usize].elem == VT::FuncRef).collect();
        if !ftables.is_empty() && rng.chance(1, 3) {
            let t = *rng.pick(&ftables);
            if t != 0 && !self.c.cfg.ref_types {
                self.emit(I::Call(f));
            } else {
                let ix = self.tix(t);
                self.expr(rng, ix, d);
                self.emit(I::CallIndirect { type_index: tyidx, table_index: t });
            }
        } else {
            self.emit(I::Call(f));
        }
    }

    /// block / loop / if producing one value
    fn block_expr(&mut self, rng: &mut Rng, ty: VT, d: usize) {
        let bt = BlockType::Result(ty.enc());
        match rng.below(4) {
            0 => {
                self.emit(I::Block(bt));
                self.frames.push(Frame { label_tys: vec![ty] });
                self.stmts(rng, d);
                self.expr(rng, ty, d);
                if rng.chance(1, 3) {
                    // early exit carrying the value, then dead code
                    let depth = 0;
                    if rng.chance(1, 2) {
                        self.expr(rng, VT::I32, d);
                        self.emit(I::BrIf(depth));
                    } else {
                        self.emit(I::Br(depth));
                        self.dead_code(rng, d);
                        // after dead code the stack is polymorphic: nothing more is needed
                    }
                }
                self.frames.pop();
                self.emit(I::End);
            }
            1 => {
                self.emit(I::Loop(bt));
                self.frames.push(Frame { label_tys: vec![] });
                self.stmts(rng, d);
                self.expr(rng, ty, d);
                self.frames.pop();
                self.emit(I::End);
            }
            _ => {
                self.expr(rng, VT::I32, d);
                self.emit(I::If(bt));
                self.frames.push(Frame { label_tys: vec![ty] });
                self.stmts(rng, d);
                self.expr(rng, ty, d);
                self.emit(I::Else);
                self.stmts(rng, d);
                self.expr(rng, ty, d);
                self.frames.pop();
                self.emit(I::End);
            }
        }
    }

    /// the index type of table `t`
    fn tix(&self, t: u32) -> VT {
        if self.c.tables[t as usize].is64 { VT::I64 } else { VT::I32 }
    }

    fn dead_code(&mut self, rng: &mut Rng, d: usize) {
        if !self.c.cfg.dead_code {
            return;
        }
        let n = rng.below(3);
        for _ in 0..n {
            match rng.below(5) {
                0 => self.emit(I::Nop),
                1 => {
                    // stack-polymorphic junk: drop without operand is fine in unreachable code
                    self.emit(I::Drop)
                }
                2 => {
                    self.expr(rng, VT::I32, d.min(1));
                    self.emit(I::Drop);
                }
                3 => {
                    // a nested block inside dead code (still allocates a sequence in walrus)
                    self.emit(I::Block(BlockType::Empty));
                    self.frames.push(Frame { label_tys: vec![] });
                    self.stmts(rng, d.min(1));
                    self.frames.pop();
                    self.emit(I::End);
                }
                _ => self.emit(I::Unreachable),
            }
        }
    }

    /// push values for label `l` (relative depth) then branch to it
    fn branch_values(&mut self, rng: &mut Rng, l: u32, d: usize) {
        let tys = self.frames[self.frames.len() - 1 - l as usize].label_tys.clone();
        for t in tys {
            self.expr(rng, t, d);
        }
    }

    /// a sequence of statements leaving the stack unchanged
    fn stmts(&mut self, rng: &mut Rng, depth: usize) {
        let n = rng.below(self.c.cfg.max_stmts as u64 + 1);
        for _ in 0..n {
            if self.budget <= 0 {
                break;
            }
            self.stmt(rng, depth);
        }
    }

    fn stmt(&mut self, rng: &mut Rng, depth: usize) {
        let d = depth.saturating_sub(1);
        let choice = rng.below(100);
        if depth == 0 {
            if choice < 30 {
                self.emit(I::Nop);
            } else {
                let t = *rng.pick(&vals(self.c.cfg));
                self.expr(rng, t, 0);
                self.emit(I::Drop);
            }
            return;
        }
        if choice < 6 {
            self.emit(I::Nop);
        } else if choice < 18 {
            if self.locals.is_empty() {
                self.emit(I::Nop);
            } else {
                let l = rng.below(self.locals.len() as u64) as u32;
                let t = self.locals[l as usize];
                self.expr(rng, t, d);
                self.emit(I::LocalSet(l));
            }
        } else if choice < 24 {
            let gs: Vec<u32> = (0..self.c.globals.len() as u32).filter(|&i| self.c.globals[i as usize].mutable).collect();
            if gs.is_empty() {
                self.emit(I::Nop);
            } else {
                let g = *rng.pick(&gs);
                let t = self.c.globals[g as usize].ty;
                self.expr(rng, t, d);
                self.emit(I::GlobalSet(g));
            }
        } else if choice < 34 && !self.c.mems.is_empty() {
            self.store(rng, d);
        } else if choice < 42 {
            let t = *rng.pick(&vals(self.c.cfg));
            self.expr(rng, t, d);
            self.emit(I::Drop);
        } else if choice < 50 {
            // call, dropping the results
            let f = rng.below(self.c.funcs.len() as u64) as u32;
            let tyidx = self.c.funcs[f as usize];
            let (params, results) = self.c.types[tyidx as usize].clone();
            self.call_args(rng, &params, d);
            self.emit(I::Call(f));
            for _ in results {
                self.emit(I::Drop);
            }
        } else if choice < 58 {
            // block / loop with statements, possibly branching out / back
            let is_loop = rng.chance(1, 3);
            self.emit(if is_loop { I::Loop(BlockType::Empty) } else { I::Block(BlockType::Empty) });
            self.frames.push(Frame { label_tys: vec![] });
            self.stmts(rng, d);
            self.frames.pop();
            self.emit(I::End);
        } else if choice < 66 {
            self.expr(rng, VT::I32, d);
            self.emit(I::If(BlockType::Empty));
            self.frames.push(Frame { label_tys: vec![] });
            self.stmts(rng, d);
            if rng.chance(1, 4) {
                // both arms end in an unconditional transfer, at least one of them by leaving the
                // `if` itself: what follows the construct is reachable although neither arm falls
                // through
                let both_leave = rng.chance(1, 2);
                let then_leaves = both_leave || rng.chance(1, 2);
                self.emit(if then_leaves { I::Br(0) } else { I::Unreachable });
                self.emit(I::Else);
                self.stmts(rng, d);
                self.emit(if both_leave || !then_leaves { I::Br(0) } else { I::Unreachable });
            } else if rng.chance(1, 2) {
                self.emit(I::Else);
                self.stmts(rng, d);
            }
            self.frames.pop();
            self.emit(I::End);
        } else if choice < 74 && !self.frames.is_empty() {
            // conditional branch
            let l = rng.below(self.frames.len() as u64) as u32;
            let tys = self.frames[self.frames.len() - 1 - l as usize].label_tys.clone();
            self.branch_values(rng, l, d);
            self.expr(rng, VT::I32, d);
            self.emit(I::BrIf(l));
            for _ in tys {
                self.emit(I::Drop);
            }
        } else if choice < 80 && !self.frames.is_empty() {
            // unconditional transfer followed by dead code
            match rng.below(4) {
                0 => {
                    let l = rng.below(self.frames.len() as u64) as u32;
                    self.branch_values(rng, l, d);
                    self.emit(I::Br(l));
                }
                1 => {
                    let rs = self.results.clone();
                    for t in rs {
                        self.expr(rng, t, d);
                    }
                    self.emit(I::Return);
                }
                2 => self.emit(I::Unreachable),
                _ => {
                    // br_table over labels with identical label types
                    let l0 = rng.below(self.frames.len() as u64) as u32;
                    let tys = self.frames[self.frames.len() - 1 - l0 as usize].label_tys.clone();
                    let same: Vec<u32> = (0..self.frames.len() as u32).filter(|&l| self.frames[self.frames.len() - 1 - l as usize].label_tys == tys).collect();
                    let n = rng.below(5);
                    let targets: Vec<u32> = (0..n).map(|_| *rng.pick(&same)).collect();
                    self.branch_values(rng, l0, d);
                    self.expr(rng, VT::I32, d);
                    self.emit(I::BrTable(Cow::Owned(targets), l0));
                }
            }
            self.dead_code(rng, d);
        } else if choice < 84 && self.c.cfg.bulk && self.c.cfg.instantiable && rng.chance(1, 3) && (0..self.c.mems.len()).filter(|&i| !self.c.mems[i].is64 && self.c.mems[i].min > 0).count() >= 2 {
            // a copy between two *different* 32-bit memories that lands in bounds: write a marker into
            // the source, copy it over, read it back from the destination
            let ms: Vec<u32> = (0..self.c.mems.len() as u32).filter(|&i| !self.c.mems[i as usize].is64 && self.c.mems[i as usize].min > 0).collect();
            let src = *rng.pick(&ms);
            let dsts: Vec<u32> = ms.iter().copied().filter(|x| *x != src).collect();
            let dst = *rng.pick(&dsts);
            let (sa, da) = (rng.below(200) as i32, 256 + rng.below(200) as i32);
            self.emit(I::I32Const(sa));
            self.emit(I::I32Const(0x5a00 + rng.below(250) as i32));
            self.emit(I::I32Store(MemArg { offset: 0, align: 0, memory_index: src }));
            self.emit(I::I32Const(da));
            self.emit(I::I32Const(sa));
            self.emit(I::I32Const(4));
            self.emit(I::MemoryCopy { src_mem: src, dst_mem: dst });
            self.emit(I::I32Const(da));
            self.emit(I::I32Load(MemArg { offset: 0, align: 0, memory_index: dst }));
            self.emit(I::Drop);
        } else if choice < 84 && self.c.cfg.bulk && !self.c.mems.is_empty() {
            let m = rng.below(self.c.mems.len() as u64) as u32;
            match rng.below(3) {
                0 => {
                    let m2 = rng.below(self.c.mems.len() as u64) as u32;
                    self.addr(rng, m, d);
                    self.addr(rng, m2, d);
                    // length type: i64 only if both are 64-bit
                    if self.c.mems[m as usize].is64 && self.c.mems[m2 as usize].is64 {
                        self.expr(rng, VT::I64, d);
                    } else {
                        self.expr(rng, VT::I32, d);
                    }
                    self.emit(I::MemoryCopy { src_mem: m2, dst_mem: m });
                }
                1 => {
                    self.addr(rng, m, d);
                    self.expr(rng, VT::I32, d);
                    self.addr(rng, m, d);
                    self.emit(I::MemoryFill(m));
                }
                _ => {
                    // `data.drop` / `memory.init` of an active segment is valid too (the segment is
                    // dropped after instantiation: init of a non-empty range traps, drop is a no-op)
                    if self.c.n_data > 0 && (self.c.passive_data || rng.chance(1, 3)) {
                        let dseg = rng.below(self.c.n_data as u64) as u32;
                        self.c.uses_data_index = true;
                        if rng.chance(1, 2) {
                            self.addr(rng, m, d);
                            self.expr(rng, VT::I32, d);
                            self.expr(rng, VT::I32, d);
                            self.emit(I::MemoryInit { mem: m, data_index: dseg });
                        } else {
                            self.emit(I::DataDrop(dseg));
                        }
                    } else {
                        self.emit(I::Nop);
                    }
                }
            }
        } else if choice < 88 && self.c.cfg.ref_types && !self.c.tables.is_empty() {
            let t = rng.below(self.c.tables.len() as u64) as u32;
            let et = self.c.tables[t as usize].elem;
            let ix = self.tix(t);
            match rng.below(5) {
                0 => {
                    self.expr(rng, ix, d);
                    self.expr(rng, et, d);
                    self.emit(I::TableSet(t));
                }
                1 => {
                    self.expr(rng, et, d);
                    self.expr(rng, ix, d);
                    self.emit(I::TableGrow(t));
                    self.emit(I::Drop);
                }
                2 if self.c.cfg.bulk => {
                    self.expr(rng, ix, d);
                    self.expr(rng, et, d);
                    self.expr(rng, ix, d);
                    self.emit(I::TableFill(t));
                }
                3 if self.c.cfg.bulk => {
                    let same: Vec<u32> = (0..self.c.tables.len() as u32).filter(|&i| self.c.tables[i as usize].elem == et).collect();
                    let t2 = *rng.pick(&same);
                    let ix2 = self.tix(t2);
                    // destination index, source index, length (64-bit only when both tables are)
                    self.expr(rng, ix, d);
                    self.expr(rng, ix2, d);
                    self.expr(rng, if ix == VT::I64 && ix2 == VT::I64 { VT::I64 } else { VT::I32 }, d);
                    self.emit(I::TableCopy { src_table: t2, dst_table: t });
                }
                _ if self.c.cfg.bulk => {
                    let segs: Vec<u32> = (0..self.c.n_elem).filter(|&i| self.c.elem_tys[i as usize] == et).collect();
                    if segs.is_empty() {
                        self.emit(I::Nop);
                    } else {
                        let e = *rng.pick(&segs);
                        if rng.chance(1, 2) {
                            self.expr(rng, ix, d);
                            self.expr(rng, VT::I32, d);
                            self.expr(rng, VT::I32, d);
                            self.emit(I::TableInit { elem_index: e, table: t });
                        } else {
                            self.emit(I::ElemDrop(e));
                        }
                    }
                }
                _ => self.emit(I::Nop),
            }
        } else if choice < 91 && self.c.cfg.multi_value && rng.chance(1, 4) && self.c.types.contains(&(vec![VT::F64, VT::I64], vec![VT::F64, VT::I64])) {
            // an *empty* construct whose block type is a type-section entry nothing else may use:
            // `block (param f64 i64) (result f64 i64) end`, or a loop, or an if with both arms empty
            let bt = self.block_type_for(&[VT::F64, VT::I64], &[VT::F64, VT::I64]).unwrap();
            self.expr(rng, VT::F64, d);
            self.expr(rng, VT::I64, d);
            match rng.below(3) {
                0 => self.emit(I::Block(bt)),
                1 => self.emit(I::Loop(bt)),
                _ => {
                    self.expr(rng, VT::I32, d);
                    self.emit(I::If(bt));
                    if rng.chance(1, 2) {
                        self.emit(I::Else);
                    }
                }
            }
            self.emit(I::End);
            self.emit(I::Drop);
            self.emit(I::Drop);
        } else if choice < 91 && self.c.cfg.multi_value && rng.chance(1, 2) {
            // a construct that takes parameters and leaves nothing: block, loop or if of a type
            // (t…) -> ()
            let cands: Vec<Vec<VT>> = self.c.types.iter().filter(|(p, r)| !p.is_empty() && r.is_empty() && p.iter().all(|t| matches!(t, VT::I32 | VT::I64 | VT::F32 | VT::F64))).map(|(p, _)| p.clone()).collect();
            if cands.is_empty() {
                self.emit(I::Nop);
            } else {
                let params = rng.pick(&cands).clone();
                let bt = self.block_type_for(&params, &[]).unwrap();
                for t in &params {
                    self.expr(rng, *t, d);
                }
                match rng.below(3) {
                    0 => {
                        self.emit(I::Block(bt));
                        self.frames.push(Frame { label_tys: vec![] });
                        for _ in &params {
                            self.emit(I::Drop);
                        }
                        self.stmts(rng, d.min(1));
                        self.frames.pop();
                        self.emit(I::End);
                    }
                    1 => {
                        self.emit(I::Loop(bt));
                        self.frames.push(Frame { label_tys: params.clone() });
                        for _ in &params {
                            self.emit(I::Drop);
                        }
                        self.frames.pop();
                        self.emit(I::End);
                    }
                    _ => {
                        self.expr(rng, VT::I32, d);
                        self.emit(I::If(bt));
                        self.frames.push(Frame { label_tys: vec![] });
                        for _ in &params {
                            self.emit(I::Drop);
                        }
                        if rng.chance(2, 3) {
                            self.emit(I::Else);
                            for _ in &params {
                                self.emit(I::Drop);
                            }
                            self.stmts(rng, d.min(1));
                        }
                        self.frames.pop();
                        self.emit(I::End);
                    }
                }
            }
        } else if choice < 91 && self.c.cfg.multi_value {
            // multi-value block with a parameter: (i32) -> (i32)
            let bt = self.block_type_for(&[VT::I32], &[VT::I32]);
            if let Some(bt) = bt {
                self.expr(rng, VT::I32, d);
                self.emit(I::Block(bt));
                self.frames.push(Frame { label_tys: vec![VT::I32] });
                self.emit(I::I32Popcnt);
                if rng.chance(1, 2) {
                    self.expr(rng, VT::I32, d);
                    self.emit(I::BrIf(0));
                }
                self.emit(I::I32Eqz);
                self.frames.pop();
                self.emit(I::End);
                self.emit(I::Drop);
            } else {
                self.emit(I::Nop);
            }
        } else if choice < 94 && self.c.cfg.tail_call {
            // tail call to a function with identical results
            let rs = self.results.clone();
            let cands: Vec<u32> = (0..self.c.funcs.len() as u32).filter(|&f| self.c.types[self.c.funcs[f as usize] as usize].1 == rs).collect();
            if cands.is_empty() {
                self.emit(I::Nop);
            } else {
                let f = *rng.pick(&cands);
                let tyidx = self.c.funcs[f as usize];
                let params = self.c.types[tyidx as usize].0.clone();
                self.call_args(rng, &params, d);
                let ftables: Vec<u32> = (0..self.c.tables.len() as u32).filter(|&i| self.c.tables[i as usize].elem == VT::FuncRef).collect();
                if !ftables.is_empty() && rng.chance(1, 2) {
                    let t = *rng.pick(&ftables);
                    let ix = self.tix(t);
                    self.expr(rng, ix, d);
                    self.emit(I::ReturnCallIndirect { type_index: tyidx, table_index: t });
                } else {
                    self.emit(I::ReturnCall(f));
                }
                self.dead_code(rng, d);
            }
        } else if choice < 97 && self.c.cfg.threads && !self.c.mems.is_empty() {
            let mem = rng.below(self.c.mems.len() as u64) as u32;
            match rng.below(3) {
                0 => self.emit(I::AtomicFence),
                1 => {
                    self.addr(rng, mem, d);
                    self.expr(rng, VT::I32, d);
                    let mut ma = self.memarg(rng, mem, 2);
                    ma.align = 2;
                    self.emit(I::I32AtomicStore(ma));
                }
                _ => {
                    self.addr(rng, mem, d);
                    self.expr(rng, VT::I32, d);
                    let mut ma = self.memarg(rng, mem, 2);
                    ma.align = 2;
                    self.emit(I::MemoryAtomicNotify(ma));
                    self.emit(I::Drop);
                }
            }
        } else if self.c.cfg.simd && !self.c.mems.is_empty() && choice < 99 {
            let mem = rng.below(self.c.mems.len() as u64) as u32;
            self.addr(rng, mem, d);
            self.expr(rng, VT::V128, d);
            let ma = self.memarg(rng, mem, 2);
            self.emit(I::V128Store32Lane { memarg: ma, lane: rng.below(4) as u8 });
        } else {
            self.emit(I::Nop);
        }
    }
}

pub struct Generated {
    pub wasm: Vec<u8>,
    pub n_customs: usize,
}

fn const_expr_for(rng: &mut Rng, ty: VT, imported_globals: &[(u32, VT)], declared: &[u32], allow_global_get: bool) -> ConstExpr {
    let gs: Vec<u32> = imported_globals.iter().filter(|(_, t)| *t == ty).map(|p| p.0).collect();
    if allow_global_get && !gs.is_empty() && (rng.chance(1, 3) || (ty == VT::I64 && rng.chance(1, 3))) {
        return ConstExpr::global_get(*rng.pick(&gs));
    }
    match ty {
        VT::I32 => ConstExpr::i32_const(interesting_i32(rng)),
        VT::I64 => ConstExpr::i64_const(interesting_i64(rng)),
        VT::F32 => ConstExpr::f32_const(interesting_f32(rng)),
        VT::F64 => ConstExpr::f64_const(interesting_f64(rng)),
        VT::V128 => ConstExpr::v128_const(((rng.next() as u128) << 64 | rng.next() as u128) as i128),
        VT::FuncRef => {
            if !declared.is_empty() && rng.chance(1, 2) {
                ConstExpr::ref_func(*rng.pick(declared))
            } else {
                ConstExpr::ref_null(HeapType::FUNC)
            }
        }
        VT::ExternRef => ConstExpr::ref_null(HeapType::EXTERN),
    }
}

fn rand_name(rng: &mut Rng) -> String {
    let pool = ["a", "b", "memory", "main", "f", "g", "tbl", "x y", "é", "", "name", "$t0", "very_long_name_0123456789"];
    let mut s = rng.pick(&pool).to_string();
    if rng.chance(1, 2) {
        s.push_str(&rng.below(100).to_string());
    }
    s
}

pub fn gen_module(rng: &mut Rng, cfg: &GenCfg) -> Generated {
    let vts = vals(cfg);
    // ---- types
    let ntypes = rng.range(1, 6) as usize;
    let mut types: Vec<(Vec<VT>, Vec<VT>)> = vec![(vec![], vec![])];
    for _ in 0..ntypes {
        if types.len() > 1 && rng.chance(1, 5) {
            // duplicate type
            let t = rng.pick(&types).clone();
            types.push(t);
            continue;
        }
        let np = rng.below(4);
        let nr = if cfg.multi_value { rng.below(3) } else { rng.below(2) };
        let p = (0..np).map(|_| *rng.pick(&vts)).collect();
        let r = (0..nr).map(|_| *rng.pick(&vts)).collect();
        types.push((p, r));
    }
    if cfg.ref_types {
        // signatures `() -> (ref)`: a construct with one reference result keeps its one-byte block type
        // even when such a signature is in the type section
        if rng.chance(1, 2) {
            types.push((vec![], vec![VT::FuncRef]));
        }
        if rng.chance(1, 2) {
            types.push((vec![], vec![VT::ExternRef]));
        }
    }
    if cfg.multi_value {
        types.push((vec![VT::I32], vec![VT::I32]));
        // an identity signature that only empty constructs use (see `stmt`)
        if rng.chance(1, 2) {
            types.push((vec![VT::F64, VT::I64], vec![VT::F64, VT::I64]));
        }
        // signatures for constructs that take parameters and leave nothing
        types.push((vec![*rng.pick(&[VT::I32, VT::I64, VT::F64])], vec![]));
        if rng.chance(1, 2) {
            types.push((vec![VT::I64, VT::I32], vec![]));
        }
    }
    // ---- imports
    let mut imports = ImportSection::new();
    let mut funcs: Vec<u32> = vec![];
    let mut mems: Vec<MemInfo> = vec![];
    let mut tables: Vec<TableInfo> = vec![];
    let mut globals: Vec<GlobalInfo> = vec![];
    let mut imported_globals: Vec<(u32, VT)> = vec![];
    let nimports = rng.below(6);
    let mut n_import_entries = 0;
    let mut last_import: Option<(String, String)> = None;
    for k in 0..nimports {
        let mut module = rng.pick(&["env", "host", ""]).to_string();
        let mut field = format!("{}{}", rand_name(rng), k);
        // import names need not be unique: sometimes reuse the previous entry's (module, field)
        if let Some((m0, f0)) = &last_import {
            if rng.chance(1, 6) {
                module = m0.clone();
                field = f0.clone();
            }
        }
        last_import = Some((module.clone(), field.clone()));
        match rng.below(4) {
            0 => {
                let t = rng.below(types.len() as u64) as u32;
                imports.import(&module, &field, EntityType::Function(t));
                funcs.push(t);
            }
            1 => {
                if !tables.is_empty() && !cfg.ref_types {
                    continue;
                }
                let elem = if cfg.ref_types && rng.chance(1, 3) { VT::ExternRef } else { VT::FuncRef };
                let min = if cfg.instantiable { rng.range(2, 5) } else { rng.below(5) };
                let is64 = cfg.memory64 && cfg.ref_types && rng.chance(1, 4);
                // (one maximum in six is the largest a 32-bit limit can be: an encoder that decides on
                // its own how wide a limit is must not widen it)
                let max = if rng.chance(1, 2) { Some(if !is64 && rng.chance(1, 6) { 0xffff_ffff } else { min + rng.below(5) }) } else { None };
                imports.import(&module, &field, EntityType::Table(TableType { element_type: elem.reft(), table64: is64, minimum: min, maximum: max, shared: false }));
                tables.push(TableInfo { elem, min, is64 });
            }
            2 => {
                if !mems.is_empty() && !cfg.multi_memory {
                    continue;
                }
                let is64 = cfg.memory64 && cfg.import_mem64 && rng.chance(1, 3);
                let shared = cfg.threads && rng.chance(1, 4);
                let min = if cfg.instantiable { rng.range(1, 2) } else { rng.below(3) };
                let max = if shared || rng.chance(1, 2) { Some(min + rng.below(4)) } else { None };
                imports.import(&module, &field, EntityType::Memory(MemoryType { minimum: min, maximum: max, memory64: is64, shared, page_size_log2: None }));
                mems.push(MemInfo { is64, shared, min });
            }
            _ => {
                let ty = *rng.pick(&vts);
                let mutable = cfg.mutable_global_io && rng.chance(1, 3);
                imports.import(&module, &field, EntityType::Global(GlobalType { val_type: ty.enc(), mutable, shared: false }));
                if !mutable {
                    imported_globals.push((globals.len() as u32, ty));
                }
                globals.push(GlobalInfo { ty, mutable, imported: true });
            }
        }
        n_import_entries += 1;
    }
    // an immutable i64 global to base 64-bit segment offsets on (`global.get` offsets of segments of
    // 64-bit tables and memories)
    if cfg.memory64 && rng.chance(1, 2) {
        imports.import("env", "base64", EntityType::Global(GlobalType { val_type: VT::I64.enc(), mutable: false, shared: false }));
        imported_globals.push((globals.len() as u32, VT::I64));
        globals.push(GlobalInfo { ty: VT::I64, mutable: false, imported: true });
        n_import_entries += 1;
    }
    let want_extern_elem = cfg.ref_types && cfg.extern_elem_global && rng.chance(1, 3);
    if want_extern_elem {
        imports.import("env", "xg", EntityType::Global(GlobalType { val_type: VT::ExternRef.enc(), mutable: false, shared: false }));
        imported_globals.push((globals.len() as u32, VT::ExternRef));
        globals.push(GlobalInfo { ty: VT::ExternRef, mutable: false, imported: true });
        n_import_entries += 1;
    }
    let n_imported_funcs = funcs.len();
    // ---- local functions
    let nfuncs = rng.range(1, cfg.max_funcs as u64) as usize;
    let mut func_sec = FunctionSection::new();
    for _ in 0..nfuncs {
        let t = rng.below(types.len() as u64) as u32;
        func_sec.function(t);
        funcs.push(t);
    }
    // ---- tables
    let mut table_sec = TableSection::new();
    let ntables = if cfg.ref_types { rng.below(3) } else if tables.is_empty() { rng.below(2) } else { 0 };
    for _ in 0..ntables {
        let elem = if cfg.ref_types && rng.chance(1, 3) { VT::ExternRef } else { VT::FuncRef };
        let min = if cfg.instantiable { rng.range(2, 6) } else { rng.below(6) };
        let is64 = cfg.memory64 && cfg.ref_types && rng.chance(1, 4);
        let max = if rng.chance(1, 2) { Some(if !is64 && rng.chance(1, 6) { 0xffff_ffff } else { min + rng.below(5) }) } else { None };
        table_sec.table(TableType { element_type: elem.reft(), table64: is64, minimum: min, maximum: max, shared: false });
        tables.push(TableInfo { elem, min, is64 });
    }
    let mut ntables = ntables;
    if want_extern_elem && !tables.iter().any(|t| t.elem == VT::ExternRef) {
        table_sec.table(TableType { element_type: VT::ExternRef.reft(), table64: false, minimum: 4, maximum: None, shared: false });
        tables.push(TableInfo { elem: VT::ExternRef, min: 4, is64: false });
        ntables += 1;
    }
    // ---- memories
    let mut mem_sec = MemorySection::new();
    let nmems = if cfg.multi_memory { rng.below(3) } else if mems.is_empty() { rng.below(2) } else { 0 };
    for _ in 0..nmems {
        let is64 = cfg.memory64 && rng.chance(1, 3);
        let shared = cfg.threads && rng.chance(1, 4);
        let min = if cfg.instantiable { rng.range(1, 2) } else { rng.below(3) };
        let max = if shared || rng.chance(1, 2) { Some(if !is64 && rng.chance(1, 6) { 65536 } else { min + rng.below(4) }) } else { None };
        mem_sec.memory(MemoryType { minimum: min, maximum: max, memory64: is64, shared, page_size_log2: None });
        mems.push(MemInfo { is64, shared, min });
    }
    // ---- which functions are "declared" for ref.func
    let mut export_funcs: Vec<u32> = vec![];
    for f in 0..funcs.len() as u32 {
        if rng.chance(1, 3) {
            export_funcs.push(f);
        }
    }
    let declared: Vec<u32> = if cfg.ref_types { export_funcs.clone() } else { vec![] };
    // ---- globals
    let mut global_sec = GlobalSection::new();
    let nglobals = rng.below(5);
    let mut n_local_globals = 0;
    for _ in 0..nglobals {
        let ty = *rng.pick(&vts);
        let mutable = rng.chance(1, 2);
        let init = const_expr_for(rng, ty, &imported_globals, &declared, true);
        global_sec.global(GlobalType { val_type: ty.enc(), mutable, shared: false }, &init);
        globals.push(GlobalInfo { ty, mutable, imported: false });
        n_local_globals += 1;
    }
    // ---- exports
    let mut export_sec = ExportSection::new();
    let mut nexports = 0;
    for f in &export_funcs {
        export_sec.export(&format!("f{}_{}", f, rand_name(rng)), ExportKind::Func, *f);
        nexports += 1;
        if rng.chance(1, 5) {
            // the same function under a second name
            export_sec.export(&format!("f{}_again_{}", f, rand_name(rng)), ExportKind::Func, *f);
            nexports += 1;
        }
    }
    for (i, _) in tables.iter().enumerate() {
        if rng.chance(1, 3) {
            export_sec.export(&format!("t{}", i), ExportKind::Table, i as u32);
            nexports += 1;
        }
    }
    for (i, _) in mems.iter().enumerate() {
        if rng.chance(1, 2) {
            export_sec.export(&format!("m{}", i), ExportKind::Memory, i as u32);
            nexports += 1;
        }
    }
    for (i, g) in globals.iter().enumerate() {
        if rng.chance(1, 3) && (!g.mutable || cfg.mutable_global_io) {
            export_sec.export(&format!("g{}", i), ExportKind::Global, i as u32);
            nexports += 1;
        }
    }
    if cfg.export_all_funcs {
        for f in 0..funcs.len() as u32 {
            export_sec.export(&format!("__f{}", f), ExportKind::Func, f);
            nexports += 1;
        }
    }
    // ---- start
    let start_cands: Vec<u32> = (0..funcs.len() as u32).filter(|&f| types[funcs[f as usize] as usize] == (vec![], vec![])).collect();
    let start = if cfg.start && !start_cands.is_empty() && rng.chance(1, 3) { Some(*rng.pick(&start_cands)) } else { None };
    // ---- element segments
    let mut elem_sec = ElementSection::new();
    let mut elem_tys = vec![];
    let nelems = if tables.is_empty() && !cfg.bulk { 0 } else { rng.below(4) };
    let mut n_elem = 0;
    if want_extern_elem {
        // an active externref segment whose items read an (otherwise possibly unused) imported global
        let t = tables.iter().position(|t| t.elem == VT::ExternRef).unwrap() as u32;
        let gs: Vec<u32> = imported_globals.iter().filter(|(_, t)| *t == VT::ExternRef).map(|p| p.0).collect();
        let mut exprs: Vec<ConstExpr> = vec![ConstExpr::global_get(*rng.pick(&gs)), ConstExpr::ref_null(HeapType::EXTERN)];
        if cfg.instantiable {
            exprs.truncate(tables[t as usize].min as usize);
        }
        let zero = if tables[t as usize].is64 { ConstExpr::i64_const(0) } else { ConstExpr::i32_const(0) };
        elem_sec.active(Some(t), &zero, Elements::Expressions(RefType::EXTERNREF, &exprs));
        elem_tys.push(VT::ExternRef);
        n_elem += 1;
    }
    for _ in 0..nelems {
        let want_mode = rng.below(3);
        // pick a table for active segments
        let (mode, ety): (u8, VT) = if want_mode == 0 && !tables.is_empty() {
            (0, VT::FuncRef)
        } else if cfg.bulk {
            (if want_mode == 1 || !cfg.ref_types { 1 } else { 2 }, VT::FuncRef)
        } else if !tables.is_empty() {
            (0, VT::FuncRef)
        } else {
            continue;
        };
        let mut nitems = rng.below(4) as usize;
        let mut use_exprs = cfg.ref_types && rng.chance(1, 2);
        // an empty function-index segment in front of the others, now and then (later segments must
        // keep their indices)
        if n_elem == 0 && cfg.bulk && rng.chance(1, 3) {
            nitems = 0;
            use_exprs = false;
        }
        let t_pick = if tables.is_empty() { 0 } else { rng.below(tables.len() as u64) as u32 };
        let t64 = mode == 0 && tables[t_pick as usize].is64;
        let offset_ty = if t64 { VT::I64 } else { VT::I32 };
        let mut offset = const_expr_for(rng, offset_ty, &imported_globals, &[], true);
        if cfg.instantiable && mode == 0 {
            let tmin = tables[t_pick as usize].min as usize;
            nitems = nitems.min(tmin);
            let o = rng.below((tmin - nitems) as u64 + 1);
            offset = if t64 { ConstExpr::i64_const(o as i64) } else { ConstExpr::i32_const(o as i32) };
        }
        let fitems: Vec<u32> = (0..nitems).map(|_| rng.below(funcs.len() as u64) as u32).collect();
        if mode == 0 {
            let t = t_pick;
            let tet = tables[t as usize].elem;
            if tet == VT::ExternRef {
                // expressions of externref type
                let exprs: Vec<ConstExpr> = (0..nitems)
                    .map(|_| {
                        let gs: Vec<u32> = imported_globals.iter().filter(|(_, t)| *t == VT::ExternRef).map(|p| p.0).collect();
                        if cfg.extern_elem_global && !gs.is_empty() && rng.chance(1, 2) {
                            ConstExpr::global_get(*rng.pick(&gs))
                        } else {
                            ConstExpr::ref_null(HeapType::EXTERN)
                        }
                    })
                    .collect();
                elem_sec.active(Some(t), &offset, Elements::Expressions(RefType::EXTERNREF, &exprs));
                elem_tys.push(VT::ExternRef);
            } else {
                let table = if t == 0 && (rng.chance(2, 3) || !cfg.ref_types) { None } else { Some(t) };
                if table.is_some() && !cfg.ref_types && !cfg.bulk {
                    elem_sec.active(None, &offset, Elements::Functions(&fitems));
                } else if use_exprs {
                    let exprs: Vec<ConstExpr> = fitems.iter().map(|f| if rng.chance(1, 4) { ConstExpr::ref_null(HeapType::FUNC) } else { ConstExpr::ref_func(*f) }).collect();
                    elem_sec.active(table, &offset, Elements::Expressions(RefType::FUNCREF, &exprs));
                } else {
                    elem_sec.active(table, &offset, Elements::Functions(&fitems));
                }
                elem_tys.push(VT::FuncRef);
            }
        } else {
            let exprs: Vec<ConstExpr> = fitems.iter().map(|f| if rng.chance(1, 4) { ConstExpr::ref_null(HeapType::FUNC) } else { ConstExpr::ref_func(*f) }).collect();
            let els = if use_exprs { Elements::Expressions(RefType::FUNCREF, &exprs) } else { Elements::Functions(&fitems) };
            if mode == 1 {
                elem_sec.passive(els);
            } else {
                elem_sec.declared(els);
            }
            elem_tys.push(ety);
        }
        n_elem += 1;
    }
    // functions that are declared *only* by a declarative element segment (not exported): ref.func on
    // them is valid exactly as long as that segment survives
    let mut declared = declared;
    if cfg.ref_types && cfg.bulk && rng.chance(1, 3) {
        let cands: Vec<u32> = (0..funcs.len() as u32).filter(|f| !export_funcs.contains(f)).collect();
        if !cands.is_empty() {
            let n = rng.range(1, 2) as usize;
            let picked: Vec<u32> = (0..n).map(|_| *rng.pick(&cands)).collect();
            elem_sec.declared(Elements::Functions(&picked));
            elem_tys.push(VT::FuncRef);
            n_elem += 1;
            declared.extend(picked);
        }
    }
    // ---- data segments
    let mut data_sec = DataSection::new();
    let ndata = if mems.is_empty() && !cfg.bulk { 0 } else { rng.below(4) };
    let mut n_data = 0;
    let mut passive_data = false;
    let mut data_specs = vec![];
    let mut last_active: Vec<(u32, u64, usize)> = vec![];
    for _ in 0..ndata {
        let len = *rng.pick(&[0usize, 1, 3, 17, 127, 128, 300]);
        let mut bytes: Vec<u8> = (0..len).map(|_| rng.next() as u8).collect();
        // payloads that end (or start) in zero bytes: the zeros are part of the segment
        if len > 0 && rng.chance(1, 3) {
            let z = rng.range(1, 3.min(len as u64)) as usize;
            for b in bytes.iter_mut().rev().take(z) {
                *b = 0;
            }
            if rng.chance(1, 3) {
                bytes[0] = 0;
            }
        }
        if !mems.is_empty() && (rng.chance(2, 3) || !cfg.bulk) {
            let m = rng.below(mems.len() as u64) as u32;
            let off_ty = if mems[m as usize].is64 { VT::I64 } else { VT::I32 };
            let off = if cfg.instantiable {
                let room = mems[m as usize].min * 65536 - len as u64;
                // a later segment often lands on an earlier one of the same memory (the later bytes,
                // zeros included, win)
                let prev: Option<(u64, usize)> = last_active.iter().rev().find(|p: &&(u32, u64, usize)| p.0 == m).map(|p| (p.1, p.2));
                let o = match prev {
                    Some((po, pl)) if pl > 0 && rng.chance(1, 2) => (po + rng.below(pl as u64)).min(room),
                    _ => if rng.chance(1, 2) { rng.below(512.min(room + 1)) } else { room - rng.below(64.min(room + 1)) },
                };
                last_active.push((m, o, len));
                if off_ty == VT::I64 { ConstExpr::i64_const(o as i64) } else { ConstExpr::i32_const(o as i32) }
            } else {
                match off_ty {
                    VT::I64 => {
                        if rng.chance(1, 2) {
                            const_expr_for(rng, VT::I64, &imported_globals, &[], true)
                        } else {
                            ConstExpr::i64_const(rng.below(70000) as i64)
                        }
                    }
                    _ => const_expr_for(rng, VT::I32, &imported_globals, &[], true),
                }
            };
            data_specs.push((Some((m, off)), bytes));
        } else if cfg.bulk {
            passive_data = true;
            data_specs.push((None, bytes));
        } else {
            continue;
        }
        n_data += 1;
    }
    for (mode, bytes) in &data_specs {
        match mode {
            Some((m, off)) => {
                data_sec.active(*m, off, bytes.iter().copied());
            }
            None => {
                data_sec.passive(bytes.iter().copied());
            }
        }
    }
    // ---- code
    let mut ctx = Ctx { cfg, types: types.clone(), funcs: funcs.clone(), mems, tables, globals, n_data, n_elem, elem_tys, passive_data, declared_funcs: declared, uses_data_index: false };
    let mut code_sec = CodeSection::new();
    let mut local_counts: Vec<Vec<VT>> = vec![];
    for k in 0..nfuncs {
        let tyidx = funcs[n_imported_funcs + k];
        let (params, results) = types[tyidx as usize].clone();
        let nlocals = rng.below(5) as usize;
        let extra: Vec<VT> = (0..nlocals).map(|_| *rng.pick(&vts)).collect();
        let mut locals = params.clone();
        locals.extend(extra.iter().copied());
        let budget = *rng.pick(&[3i64, 10, 40, 40, 150]);
        let mut f = FnCtx { c: &mut ctx, locals, results: results.clone(), frames: vec![Frame { label_tys: results.clone() }], out: vec![], budget };
        let depth = rng.range(1, cfg.max_depth as u64) as usize;
        f.stmts(rng, depth);
        for r in &results {
            f.expr(rng, *r, depth);
        }
        f.out.push(I::End);
        // group locals by runs of equal type (as compilers emit them)
        let mut groups: Vec<(u32, ValType)> = vec![];
        for t in &extra {
            match groups.last_mut() {
                Some((n, gt)) if *gt == t.enc() => *n += 1,
                _ => groups.push((1, t.enc())),
            }
        }
        // an empty group `0 x t` declares nothing and is valid; tools emit them now and then
        if rng.chance(1, 8) {
            let at = rng.below(groups.len() as u64 + 1) as usize;
            groups.insert(at, (0, rng.pick(&vts).enc()));
        }
        let mut func = Function::new(groups);
        for i in &f.out {
            func.instruction(i);
        }
        code_sec.function(&func);
        local_counts.push(extra);
    }
    let uses_data_index = ctx.uses_data_index;
    // ---- assemble, with custom sections interleaved
    let mut module = Module::new();
    let mut n_customs = 0;
    let mut custom = |module: &mut Module, rng: &mut Rng| {
        if cfg.customs && rng.chance(1, 4) {
            let name = rng.pick(&["", "x", "linking", "target_features", "dylink.0", ".debug", "names", "producer", "sourceMappingURL", "x"]).to_string();
            let len = *rng.pick(&[0usize, 1, 5, 200]);
            let data: Vec<u8> = (0..len).map(|_| rng.next() as u8).collect();
            let name = if name.starts_with(".debug") {
                if !cfg.junk_debug {
                    return;
                }
                rng.pick(&[".debug_info", ".debug_line", ".debug", ".debug_foo"]).to_string()
            } else {
                name
            };
            // decided from what was already drawn (no further random choice, so every other byte
            // the generator writes stays what it was): a name whose length prefix needs two LEB
            // bytes (>= 128 bytes), and a short name whose length prefix is written with a
            // redundant continuation byte (wasmparser accepts both)
            if name == "x" && len == 200 {
                let long: String = std::iter::repeat('y').take(131).collect();
                module.section(&CustomSection { name: Cow::Owned(long), data: Cow::Owned(data) });
            } else if name == "x" && len == 5 {
                let mut raw = vec![0x81u8, 0x00, b'x'];
                raw.extend_from_slice(&data);
                module.section(&wasm_encoder::RawSection { id: 0, data: &raw });
            } else {
                module.section(&CustomSection { name: Cow::Owned(name), data: Cow::Owned(data) });
            }
            n_customs += 1;
        }
    };
    custom(&mut module, rng);
    let mut type_sec = TypeSection::new();
    for (p, r) in &types {
        type_sec.function(p.iter().map(|t| t.enc()), r.iter().map(|t| t.enc()));
    }
    module.section(&type_sec);
    custom(&mut module, rng);
    if n_import_entries > 0 {
        module.section(&imports);
        custom(&mut module, rng);
    }
    module.section(&func_sec);
    custom(&mut module, rng);
    if ntables > 0 {
        module.section(&table_sec);
        custom(&mut module, rng);
    }
    if nmems > 0 {
        module.section(&mem_sec);
        custom(&mut module, rng);
    }
    if n_local_globals > 0 {
        module.section(&global_sec);
        custom(&mut module, rng);
    }
    if nexports > 0 {
        module.section(&export_sec);
        custom(&mut module, rng);
    }
    if let Some(s) = start {
        module.section(&StartSection { function_index: s });
        custom(&mut module, rng);
    }
    if n_elem > 0 {
        module.section(&elem_sec);
        custom(&mut module, rng);
    }
    if uses_data_index || (cfg.bulk && n_data > 0 && rng.chance(1, 3)) {
        module.section(&DataCountSection { count: n_data });
    }
    module.section(&code_sec);
    custom(&mut module, rng);
    if n_data > 0 {
        module.section(&data_sec);
        custom(&mut module, rng);
    }
    if cfg.names && rng.chance(2, 3) {
        let mut names = NameSection::new();
        // one name section in five names entities of a single kind only (a partial name section, as
        // a tool that knows about one kind of entity writes it): 0 module, 1 functions, 2 locals,
        // 3 types, 4 tables, 5 memories, 6 globals, 7 elements, 8 data
        let only: Option<u64> = if !cfg.names_simple && !cfg.names_module && rng.chance(1, 5) { Some(rng.below(9)) } else { None };
        let want = |k: u64| only.map(|o| o == k).unwrap_or(true);
        if want(0) && (rng.chance(1, 2) || cfg.names_simple || cfg.names_module || only.is_some()) {
            names.module(&format!("mod_{}", rand_name(rng)));
        }
        let mut fm = NameMap::new();
        let mut any = false;
        for f in 0..funcs.len() as u32 {
            if want(1) && (rng.chance(1, 2) || only.is_some()) {
                fm.append(f, &format!("fn{}_{}", f, rand_name(rng)));
                any = true;
            }
        }
        if any {
            names.functions(&fm);
        }
        if cfg.names_simple {
            module.section(&names);
            custom(&mut module, rng);
        } else {
        // locals
        let mut im = IndirectNameMap::new();
        let mut anyl = false;
        for k in 0..nfuncs {
            let tyidx = funcs[n_imported_funcs + k];
            let np = types[tyidx as usize].0.len();
            let total = np + local_counts[k].len();
            let mut nm = NameMap::new();
            let mut anyn = false;
            for l in 0..total as u32 {
                if rng.chance(1, 2) {
                    // (an empty name now and then, as some producers write them: it is a name)
                    if rng.chance(1, 12) {
                        nm.append(l, "");
                    } else {
                        nm.append(l, &format!("l{}_{}", l, rand_name(rng)));
                    }
                    anyn = true;
                }
            }
            // a stale entry, as some toolchains leave them: a name for a local the function does not
            // have (also when it has no locals at all); custom sections never affect validity
            if rng.chance(1, 6) {
                nm.append(total as u32 + rng.below(3) as u32, &format!("stale_{}", rand_name(rng)));
                anyn = true;
            }
            if anyn && want(2) && (rng.chance(2, 3) || only.is_some()) {
                im.append((n_imported_funcs + k) as u32, &nm);
                anyl = true;
            }
        }
        if anyl {
            names.locals(&im);
        }
        // subsections walrus does not keep (labels here, fields and tags behind the
        // data names): it skips them with a warning and must go on reading what follows. Decided
        // from counts already drawn, so the rest of the generated module is what it was before.
        let extra_subsections = only.is_none() && (types.len() + ctx.globals.len() + 2 * n_data as usize + n_elem as usize) % 4 == 1;
        if extra_subsections {
            let mut lm = IndirectNameMap::new();
            let mut nm = NameMap::new();
            nm.append(0, "label0");
            nm.append(1, "label1");
            lm.append(n_imported_funcs as u32, &nm);
            names.labels(&lm);
        }
        macro_rules! simple {
            ($n:expr, $m:ident, $k:expr) => {{
                let mut nm = NameMap::new();
                let mut any = false;
                for i in 0..$n as u32 {
                    if want($k) && (rng.chance(1, 2) || only.is_some()) {
                        nm.append(i, &format!("{}{}_{}", stringify!($m), i, rand_name(rng)));
                        any = true;
                    }
                }
                if any {
                    names.$m(&nm);
                }
            }};
        }
        simple!(types.len(), types, 3);
        simple!(ctx.tables.len(), tables, 4);
        simple!(ctx.mems.len(), memories, 5);
        simple!(ctx.globals.len(), globals, 6);
        simple!(n_elem, elements, 7);
        simple!(n_data, data, 8);
        if extra_subsections {
            let mut fm = IndirectNameMap::new();
            let mut nm = NameMap::new();
            nm.append(0, "field0");
            fm.append(0, &nm);
            names.fields(&fm);
            let mut tm = NameMap::new();
            tm.append(0, "tag0");
            names.tags(&tm);
        }
        module.section(&names);
        custom(&mut module, rng);
        // a second name section now and then (valid; walrus applies every one of them, in order):
        // names for entities the first one left unnamed
        if only.is_none() && rng.chance(1, 8) {
            let mut more = NameSection::new();
            let mut gm = NameMap::new();
            for i in 0..ctx.globals.len() as u32 {
                gm.append(i, &format!("second_g{}", i));
            }
            if !ctx.globals.is_empty() {
                more.globals(&gm);
            }
            let mut mm = NameMap::new();
            for i in 0..ctx.mems.len() as u32 {
                mm.append(i, &format!("second_m{}", i));
            }
            if !ctx.mems.is_empty() {
                more.memories(&mm);
            }
            module.section(&more);
        }
        }
    }
    if cfg.producers && rng.chance(1, 2) {
        let mut p = ProducersSection::new();
        let nfields = rng.below(4);
        let pool = ["language", "processed-by", "sdk", "other"];
        let mut used = vec![];
        for _ in 0..nfields {
            let f = *rng.pick(&pool);
            if used.contains(&f) {
                continue;
            }
            used.push(f);
            let mut pf = ProducersField::new();
            let nv = rng.below(4);
            let vpool = ["Rust", "walrus", "clang", "wasm-bindgen", "rustc", "C"];
            let mut usedv = vec![];
            for _ in 0..nv {
                let v = *rng.pick(&vpool);
                if usedv.contains(&v) {
                    continue;
                }
                usedv.push(v);
                pf.value(v, *rng.pick(&["1.0", "0.23.3", "0.19.0", "", "2021"]));
            }
            p.field(f, &pf);
        }
        module.section(&p);
        custom(&mut module, rng);
    }
    Generated { wasm: module.finish(), n_customs }
}

/// generate until the reference validator (walrus's feature set) accepts; returns (bytes, rejected attempts)
pub fn gen_valid(rng: &mut Rng, cfg: &GenCfg) -> (Vec<u8>, usize) {
    let mut rejected = 0;
    loop {
        let g = gen_module(rng, cfg);
        match crate::decode::validate(&g.wasm, crate::decode::walrus_features(false)) {
            Ok(()) => return (g.wasm, rejected),
            Err(e) => {
                rejected += 1;
                if std::env::var("VERIF_GEN_DEBUG").is_ok() {
                    eprintln!("generator produced invalid module: {}", e);
                }
                if rejected > 200 {
                    panic!("generator cannot produce a valid module: {}", e);
                }
            }
        }
    }
}
