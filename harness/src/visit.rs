//! Suite `visit` (C16): recording visitors on parsed and built functions; the event log is
//! compared with the Lean model (correspondence) and with a recursive reference walk (oracle).
use crate::gen::{self, GenCfg};
use crate::irtext;
use crate::out;
use crate::rng::Rng;
use walrus::ir::*;
use walrus::{LocalFunction, Module};

#[derive(Default)]
pub struct Rec {
    pub log: Vec<String>,
    pub hooks: bool,
}

macro_rules! hooks {
    ($( $m:ident $mm:ident $ty:ident ),* $(,)?) => {
        macro_rules! visitor_hooks { () => { $( fn $m(&mut self, _i: &$ty) { if self.hooks { self.log.push(format!("h:{}", stringify!($ty))); } } )* } }
        macro_rules! visitor_mut_hooks { () => { $( fn $mm(&mut self, i: &mut $ty) { if self.hooks { self.log.push(format!("h:{}", stringify!($ty))); } else { default_mut_hook(self, i); } } )* } }
    };
}

/// what an un-overridden hook of `VisitorMut` does. We cannot "not override" selectively at run
/// time, so the non-hook recorder is a separate type (`RecPlain`) that overrides nothing.
fn default_mut_hook<T>(_r: &mut Rec, _i: &mut T) {}

hooks! {
    visit_block visit_block_mut Block, visit_loop visit_loop_mut Loop, visit_call visit_call_mut Call,
    visit_call_indirect visit_call_indirect_mut CallIndirect, visit_local_get visit_local_get_mut LocalGet,
    visit_local_set visit_local_set_mut LocalSet, visit_local_tee visit_local_tee_mut LocalTee,
    visit_global_get visit_global_get_mut GlobalGet, visit_global_set visit_global_set_mut GlobalSet,
    visit_const visit_const_mut Const, visit_tern_op visit_tern_op_mut TernOp, visit_binop visit_binop_mut Binop,
    visit_unop visit_unop_mut Unop, visit_select visit_select_mut Select, visit_unreachable visit_unreachable_mut Unreachable,
    visit_br visit_br_mut Br, visit_br_if visit_br_if_mut BrIf, visit_if_else visit_if_else_mut IfElse,
    visit_br_table visit_br_table_mut BrTable, visit_drop visit_drop_mut Drop, visit_return visit_return_mut Return,
    visit_memory_size visit_memory_size_mut MemorySize, visit_memory_grow visit_memory_grow_mut MemoryGrow,
    visit_memory_init visit_memory_init_mut MemoryInit, visit_data_drop visit_data_drop_mut DataDrop,
    visit_memory_copy visit_memory_copy_mut MemoryCopy, visit_memory_fill visit_memory_fill_mut MemoryFill,
    visit_load visit_load_mut Load, visit_store visit_store_mut Store, visit_atomic_rmw visit_atomic_rmw_mut AtomicRmw,
    visit_cmpxchg visit_cmpxchg_mut Cmpxchg, visit_atomic_notify visit_atomic_notify_mut AtomicNotify,
    visit_atomic_wait visit_atomic_wait_mut AtomicWait, visit_atomic_fence visit_atomic_fence_mut AtomicFence,
    visit_table_get visit_table_get_mut TableGet, visit_table_set visit_table_set_mut TableSet,
    visit_table_grow visit_table_grow_mut TableGrow, visit_table_size visit_table_size_mut TableSize,
    visit_table_fill visit_table_fill_mut TableFill, visit_ref_null visit_ref_null_mut RefNull,
    visit_ref_is_null visit_ref_is_null_mut RefIsNull, visit_ref_func visit_ref_func_mut RefFunc,
    visit_v128_bitselect visit_v128_bitselect_mut V128Bitselect, visit_i8x16_swizzle visit_i8x16_swizzle_mut I8x16Swizzle,
    visit_i8x16_shuffle visit_i8x16_shuffle_mut I8x16Shuffle, visit_load_simd visit_load_simd_mut LoadSimd,
    visit_table_init visit_table_init_mut TableInit, visit_elem_drop visit_elem_drop_mut ElemDrop,
    visit_table_copy visit_table_copy_mut TableCopy, visit_return_call visit_return_call_mut ReturnCall,
    visit_return_call_indirect visit_return_call_indirect_mut ReturnCallIndirect,
}

macro_rules! id_callbacks {
    ($self:ident) => {};
}

macro_rules! common_visitor {
    () => {
        fn start_instr_seq(&mut self, s: &'a InstrSeq) {
            self.log.push(format!("<{}", s.id().index()));
        }
        fn end_instr_seq(&mut self, s: &'a InstrSeq) {
            self.log.push(format!(">{}", s.id().index()));
        }
        fn visit_instr(&mut self, i: &'a Instr, l: &'a InstrLocId) {
            self.log.push(format!("i:{}@{}", irtext::variant_name(i), irtext::loc_num(l)));
        }
        fn visit_instr_seq_id(&mut self, x: &InstrSeqId) {
            self.log.push(format!("s{}", x.index()));
        }
        fn visit_local_id(&mut self, x: &walrus::LocalId) {
            self.log.push(format!("x{}", x.index()));
        }
        fn visit_memory_id(&mut self, x: &walrus::MemoryId) {
            self.log.push(format!("m{}", x.index()));
        }
        fn visit_table_id(&mut self, x: &walrus::TableId) {
            self.log.push(format!("t{}", x.index()));
        }
        fn visit_global_id(&mut self, x: &walrus::GlobalId) {
            self.log.push(format!("g{}", x.index()));
        }
        fn visit_function_id(&mut self, x: &walrus::FunctionId) {
            self.log.push(format!("f{}", x.index()));
        }
        fn visit_data_id(&mut self, x: &walrus::DataId) {
            self.log.push(format!("d{}", x.index()));
        }
        fn visit_type_id(&mut self, x: &walrus::TypeId) {
            self.log.push(format!("y{}", x.index()));
        }
        fn visit_element_id(&mut self, x: &walrus::ElementId) {
            self.log.push(format!("e{}", x.index()));
        }
        fn visit_value(&mut self, _x: &Value) {
            self.log.push("v0".to_string());
        }
    };
}
macro_rules! common_visitor_mut {
    () => {
        fn start_instr_seq_mut(&mut self, s: &mut InstrSeq) {
            self.log.push(format!("<{}", s.id().index()));
        }
        fn end_instr_seq_mut(&mut self, s: &mut InstrSeq) {
            self.log.push(format!(">{}", s.id().index()));
        }
        fn visit_instr_mut(&mut self, i: &mut Instr, l: &mut InstrLocId) {
            self.log.push(format!("i:{}@{}", irtext::variant_name(i), irtext::loc_num(l)));
        }
        fn visit_instr_seq_id_mut(&mut self, x: &mut InstrSeqId) {
            self.log.push(format!("s{}", x.index()));
        }
        fn visit_local_id_mut(&mut self, x: &mut walrus::LocalId) {
            self.log.push(format!("x{}", x.index()));
        }
        fn visit_memory_id_mut(&mut self, x: &mut walrus::MemoryId) {
            self.log.push(format!("m{}", x.index()));
        }
        fn visit_table_id_mut(&mut self, x: &mut walrus::TableId) {
            self.log.push(format!("t{}", x.index()));
        }
        fn visit_global_id_mut(&mut self, x: &mut walrus::GlobalId) {
            self.log.push(format!("g{}", x.index()));
        }
        fn visit_function_id_mut(&mut self, x: &mut walrus::FunctionId) {
            self.log.push(format!("f{}", x.index()));
        }
        fn visit_data_id_mut(&mut self, x: &mut walrus::DataId) {
            self.log.push(format!("d{}", x.index()));
        }
        fn visit_type_id_mut(&mut self, x: &mut walrus::TypeId) {
            self.log.push(format!("y{}", x.index()));
        }
        fn visit_element_id_mut(&mut self, x: &mut walrus::ElementId) {
            self.log.push(format!("e{}", x.index()));
        }
        fn visit_value_mut(&mut self, _x: &mut Value) {
            self.log.push("v0".to_string());
        }
    };
}

/// overrides every per-instruction hook (logging it, not recursing)
impl<'a> Visitor<'a> for Rec {
    common_visitor!();
    visitor_hooks!();
}
impl VisitorMut for Rec {
    common_visitor_mut!();
    visitor_mut_hooks!();
}

/// leaves every per-instruction hook at its default
#[derive(Default)]
pub struct RecPlain {
    pub log: Vec<String>,
}
impl<'a> Visitor<'a> for RecPlain {
    common_visitor!();
}
impl VisitorMut for RecPlain {
    common_visitor_mut!();
}

/// the four recordings of one function: (mode, hooks?, log)
pub fn record_all(f: &mut LocalFunction) -> Vec<(&'static str, bool, Vec<String>)> {
    let entry = f.entry_block();
    let mut out = vec![];
    let mut r = Rec { log: vec![], hooks: true };
    dfs_in_order(&mut r, f, entry);
    out.push(("in", true, r.log));
    let mut r = RecPlain::default();
    dfs_in_order(&mut r, f, entry);
    out.push(("in", false, r.log));
    let mut r = Rec { log: vec![], hooks: true };
    dfs_pre_order_mut(&mut r, f, entry);
    out.push(("mut", true, r.log));
    let mut r = RecPlain::default();
    dfs_pre_order_mut(&mut r, f, entry);
    out.push(("mut", false, r.log));
    out
}

/// reference walk (recursive, harness-side): instructions in program order with nested
/// start/end events. Returns the projection of the expected in-order log to `<`, `>`, `i:` events.
fn reference_structure(f: &LocalFunction, s: InstrSeqId, out: &mut Vec<String>) {
    out.push(format!("<{}", s.index()));
    for (i, l) in f.block(s).instrs.iter() {
        out.push(format!("i:{}@{}", irtext::variant_name(i), irtext::loc_num(l)));
        for k in irtext::kids(i) {
            reference_structure(f, k, out);
        }
    }
    out.push(format!(">{}", s.index()));
}

fn is_struct_event(e: &str) -> bool {
    e.starts_with('<') || e.starts_with('>') || e.starts_with("i:")
}
fn is_entity_event(e: &str) -> bool {
    let c = e.chars().next().unwrap_or(' ');
    "ftgmyxde".contains(c) && e[1..].chars().all(|c| c.is_ascii_digit()) && e.len() > 1
}

/// entity operands of every instruction (as a multiset per instruction occurrence, in the order
/// the log lists instructions) — what the property says must be reported exactly once
fn check_operands(f: &LocalFunction, log: &[String], mode: &str) -> Result<(), String> {
    // index instructions by (variant, loc, seq) occurrence order: walk the log, keeping the current sequence
    let mut seq_stack: Vec<usize> = vec![];
    let mut cursor: std::collections::HashMap<usize, usize> = Default::default(); // seq -> next instr index
    let mut k = 0;
    while k < log.len() {
        let e = &log[k];
        if let Some(s) = e.strip_prefix('<') {
            let s: usize = s.parse().unwrap();
            seq_stack.push(s);
            // sequence type operand
            let seq = f.block(seq_by_index(f, s).ok_or("unknown sequence")?);
            let want: Vec<String> = match seq.ty {
                InstrSeqType::MultiValue(t) => vec![format!("y{}", t.index())],
                _ => vec![],
            };
            let mut got = vec![];
            let mut j = k + 1;
            while j < log.len() && !is_struct_event(&log[j]) {
                if is_entity_event(&log[j]) {
                    got.push(log[j].clone());
                }
                j += 1;
            }
            if got != want {
                return Err(format!("{}: sequence {} type operand: reported {:?}, expected {:?}", mode, s, got, want));
            }
            k = j;
            continue;
        }
        if e.starts_with('>') {
            seq_stack.pop();
            // nothing is reported between the end of a sequence and the next event of the walk
            let mut j = k + 1;
            while j < log.len() && !is_struct_event(&log[j]) {
                if is_entity_event(&log[j]) {
                    return Err(format!("{}: entity {} reported again after the end of sequence {} (every operand is reported exactly once)", mode, log[j], &e[1..]));
                }
                j += 1;
            }
            k += 1;
            continue;
        }
        if e.starts_with("i:") {
            let s = *seq_stack.last().ok_or("instruction outside a sequence")?;
            let idx = cursor.entry(s).or_insert(0);
            let seq = f.block(seq_by_index(f, s).ok_or("unknown sequence")?);
            let (instr, l) = seq.instrs.get(*idx).ok_or(format!("{}: more instruction events than instructions in sequence {}", mode, s))?;
            *idx += 1;
            let tok = format!("i:{}@{}", irtext::variant_name(instr), irtext::loc_num(l));
            if &tok != e {
                return Err(format!("{}: sequence {} instruction #{}: reported {}, expected {}", mode, s, *idx - 1, e, tok));
            }
            let (_, fs) = irtext::fields(instr);
            let mut want: Vec<String> = vec![];
            // the sequences a block, a loop or an if owns are operands too (`visit_instr_seq_id`); branch
            // targets are not visited by design (`skip_visit`)
            let owns_seqs = matches!(instr, walrus::ir::Instr::Block(_) | walrus::ir::Instr::Loop(_) | walrus::ir::Instr::IfElse(_));
            for (_, kind, ids) in fs {
                if "ftgmyxde".contains(kind) || (kind == "s" && owns_seqs) {
                    for id in ids {
                        want.push(format!("{}{}", kind, id));
                    }
                }
            }
            let is_seq_operand = |e: &str| e.len() > 1 && e.starts_with('s') && e[1..].chars().all(|c| c.is_ascii_digit());
            let mut got = vec![];
            let mut j = k + 1;
            while j < log.len() && !is_struct_event(&log[j]) {
                if is_entity_event(&log[j]) || (owns_seqs && is_seq_operand(&log[j])) {
                    got.push(log[j].clone());
                }
                j += 1;
            }
            let mut w = want.clone();
            w.sort();
            let mut g = got.clone();
            g.sort();
            if w != g {
                return Err(format!("{}: {} in sequence {}: entity operands reported {:?}, expected exactly once each {:?}", mode, tok, s, got, want));
            }
            k = j;
            continue;
        }
        k += 1;
    }
    // every instruction of every visited sequence was reported
    for (s, n) in cursor {
        let seq = f.block(seq_by_index(f, s).unwrap());
        if seq.instrs.len() != n {
            return Err(format!("{}: sequence {}: {} of {} instructions reported", mode, s, n, seq.instrs.len()));
        }
    }
    Ok(())
}

fn seq_by_index(f: &LocalFunction, idx: usize) -> Option<InstrSeqId> {
    irtext::reachable_seqs(f, f.entry_block()).into_iter().find(|s| s.index() == idx)
}

pub fn run_function(case: &str, f: &mut LocalFunction, stats: &mut Stats, replay_arg: &str) {
    let entry = f.entry_block();
    let text = irtext::func_text(f, entry);
    let nseq = irtext::reachable_seqs(f, entry).len();
    let recs = match out::catch(|| record_all(f)) {
        Ok(r) => r,
        Err(p) => {
            out::oracle(case, false, "C16:traversal-panic", &format!("traversal panicked: {} | only: {}", p, replay_arg));
            return;
        }
    };
    stats.functions += 1;
    stats.sequences += nseq;
    let mut ok = true;
    for (mode, hooks, log) in &recs {
        let req = format!("visit {} {} {} {}", mode, *hooks as u8, entry.index(), text);
        let observed = log.join(" ");
        stats.events += log.len();
        out::corr(&format!("{}/{}{}", case, mode, *hooks as u8), nseq > 1, &req, &observed);
        if stats.samples < 4 && nseq > 2 && log.len() < 60 {
            out::sample(&format!("{} => {}", req, observed));
            stats.samples += 1;
        }
        // ---- oracle
        if *mode == "in" {
            let mut want = vec![];
            reference_structure(f, entry, &mut want);
            let got: Vec<String> = log.iter().filter(|e| is_struct_event(e)).cloned().collect();
            if got != want {
                ok = false;
                let at = got.iter().zip(want.iter()).position(|(a, b)| a != b).unwrap_or(got.len().min(want.len()));
                out::oracle(case, false, "C16:in-order-structure", &format!("dfs_in_order (hooks overridden: {}): event #{} is {:?}, the program-order walk expects {:?} | only: {}", hooks, at, got.get(at), want.get(at), replay_arg));
            }
        } else {
            // every reachable sequence started and ended exactly once
            let mut starts: Vec<usize> = log.iter().filter_map(|e| e.strip_prefix('<').map(|s| s.parse().unwrap())).collect();
            let mut want: Vec<usize> = irtext::reachable_seqs(f, entry).iter().map(|s| s.index()).collect();
            starts.sort();
            want.sort();
            if starts != want {
                ok = false;
                out::oracle(case, false, "C16:pre-order-sequences", &format!("dfs_pre_order_mut (hooks overridden: {}): sequences started {:?}, reachable {:?} | only: {}", hooks, starts, want, replay_arg));
            }
        }
        if let Err(e) = check_operands(f, log, mode) {
            ok = false;
            let key = if *mode == "mut" && !*hooks { "C16:operands-not-once-mut-default-hooks" } else { "C16:operands-not-once" };
            out::oracle(case, false, key, &format!("(hooks overridden: {}) {} | only: {}", hooks, e, replay_arg));
        }
    }
    if ok {
        out::oracle(case, true, "", "");
    }
}

#[derive(Default)]
pub struct Stats {
    pub functions: usize,
    pub sequences: usize,
    pub events: usize,
    pub samples: usize,
    pub built: usize,
}

pub fn run_module(case: &str, wasm: &[u8], stats: &mut Stats) {
    let Ok(Ok(mut m)) = out::catch(|| Module::from_buffer(wasm)) else { return };
    let ids: Vec<_> = m.funcs.iter_local().map(|(id, _)| id).collect();
    let arg = out::hex(wasm);
    for (k, id) in ids.iter().enumerate() {
        let f = m.funcs.get_mut(*id).kind.unwrap_local_mut();
        run_function(&format!("{}.f{}", case, k), f, stats, &arg);
    }
}

/// nesting depth 10^5 on a small thread stack (run in a subprocess by `main`)
pub fn deep(depth: usize) {
    deep_shape(depth, "blocks")
}

/// `shape`: "blocks" (block / loop nesting), "ifs" (nesting in the then-arm of if/else),
/// "elses" (nesting in the else-arm)
pub fn deep_shape(depth: usize, shape: &str) {
    use wasm_encoder::*;
    let mut m = wasm_encoder::Module::new();
    let mut t = TypeSection::new();
    t.function([], []);
    m.section(&t);
    let mut fs = FunctionSection::new();
    fs.function(0);
    m.section(&fs);
    let mut code = CodeSection::new();
    let mut f = Function::new([]);
    match shape {
        "ifs" => {
            for _ in 0..depth {
                f.instruction(&Instruction::I32Const(1));
                f.instruction(&Instruction::If(BlockType::Empty));
            }
            for _ in 0..depth {
                f.instruction(&Instruction::Else);
                f.instruction(&Instruction::End);
            }
        }
        "elses" => {
            for _ in 0..depth {
                f.instruction(&Instruction::I32Const(0));
                f.instruction(&Instruction::If(BlockType::Empty));
                f.instruction(&Instruction::Else);
            }
            for _ in 0..depth {
                f.instruction(&Instruction::End);
            }
        }
        _ => {
            for k in 0..depth {
                f.instruction(&if k % 3 == 0 { Instruction::Block(BlockType::Empty) } else if k % 3 == 1 { Instruction::Loop(BlockType::Empty) } else { Instruction::Block(BlockType::Empty) });
            }
            for _ in 0..depth {
                f.instruction(&Instruction::End);
            }
        }
    }
    f.instruction(&Instruction::End);
    code.function(&f);
    m.section(&code);
    let wasm = m.finish();
    let h = std::thread::Builder::new()
        .stack_size(256 * 1024)
        .spawn(move || {
            let mut m = walrus::Module::from_buffer(&wasm).expect("parse deep module");
            let id = m.funcs.iter_local().next().unwrap().0;
            let f = m.funcs.get_mut(id).kind.unwrap_local_mut();
            let entry = f.entry_block();
            let mut r = RecPlain::default();
            dfs_in_order(&mut r, f, entry);
            let a = r.log.iter().filter(|e| e.starts_with('<')).count();
            let mut r = RecPlain::default();
            dfs_pre_order_mut(&mut r, f, entry);
            let b = r.log.iter().filter(|e| e.starts_with('<')).count();
            (a, b)
        })
        .unwrap();
    let (a, b) = h.join().expect("traversal thread died");
    println!("DEEP {} {} {}", depth, a, b);
}

/// `if`/`else`, else-less `if`, `block` and `loop` of type `(i32) -> (i32)` and an `if`/`else` of type
/// `(i32 i64) -> (i64 i32)`, nested in each other: every sequence carries a type operand
fn multi_value_constructs() -> Vec<u8> {
    use wasm_encoder::{BlockType, CodeSection, ExportKind, ExportSection, Function, FunctionSection, Instruction as I, Module, TypeSection, ValType};
    let mut m = Module::new();
    let mut t = TypeSection::new();
    t.function([], []);
    t.function([ValType::I32], [ValType::I32]);
    t.function([ValType::I32, ValType::I64], [ValType::I64, ValType::I32]);
    m.section(&t);
    let mut fs = FunctionSection::new();
    fs.function(0);
    fs.function(0);
    m.section(&fs);
    let mut ex = ExportSection::new();
    ex.export("a", ExportKind::Func, 0);
    ex.export("b", ExportKind::Func, 1);
    m.section(&ex);
    let mut code = CodeSection::new();
    let mut f = Function::new([]);
    for i in [
        I::I32Const(7), I::I32Const(1), I::If(BlockType::FunctionType(1)), I::I32Eqz, I::Else, I::I32Popcnt, I::End, I::Drop,
        I::I32Const(7), I::I32Const(0), I::If(BlockType::FunctionType(1)), I::I32Eqz, I::End, I::Drop,
        I::I32Const(7), I::Block(BlockType::FunctionType(1)),
        I::Loop(BlockType::FunctionType(1)),
        I::I32Const(1), I::If(BlockType::FunctionType(1)), I::I32Clz, I::Else, I::I32Const(0), I::If(BlockType::FunctionType(1)), I::I32Ctz, I::Else, I::I32Eqz, I::End, I::End,
        I::End, I::End, I::Drop, I::End,
    ] {
        f.instruction(&i);
    }
    code.function(&f);
    let mut g = Function::new([]);
    for i in [
        I::I32Const(1), I::I64Const(2), I::I32Const(1), I::If(BlockType::FunctionType(2)),
        I::Drop, I::Drop, I::I64Const(3), I::I32Const(4),
        I::Else,
        I::Drop, I::Drop, I::I64Const(5), I::I32Const(6),
        I::End, I::Drop, I::Drop, I::End,
    ] {
        g.instruction(&i);
    }
    code.function(&g);
    m.section(&code);
    m.finish()
}

pub fn main(seed: u64, tier: &str, only: Option<&str>) {
    let mut stats = Stats::default();
    if let Some(o) = only {
        if let Some(tape) = o.strip_prefix("built:") {
            crate::builder::replay(tape, &mut stats);
        } else {
            run_module("replay", &out::unhex(o), &mut stats);
        }
        return;
    }
    // fixed shapes the random generator reaches only rarely: constructs whose block type is a
    // type-section entry (the sequence itself has a type operand), in particular both arms of an if
    run_module("vfix-multi", &multi_value_constructs(), &mut stats);
    let n = if tier == "thorough" { 1500 * crate::out::thorough_scale() } else { 90 };
    for case in 0..n {
        let mut rng = Rng::new(seed ^ 0x7157, case as u64);
        let mut g = if case % 3 == 0 { GenCfg::mvp() } else { GenCfg::random(&mut rng) };
        g.import_mem64 = false;
        g.big_offsets = false;
        g.extern_elem_global = false;
        let (wasm, _) = gen::gen_valid(&mut rng, &g);
        run_module(&format!("v{}", case), &wasm, &mut stats);
    }
    // built trees (shared with C15)
    let nb = if tier == "thorough" { 3000 * crate::out::thorough_scale() } else { 150 };
    crate::builder::visit_built(seed, nb, &mut stats);
    // deep nesting, in a subprocess so that a stack overflow is observed, not suffered
    let exe = std::env::current_exe().unwrap();
    let depth = 100_000;
    for shape in ["blocks", "ifs", "elses"] {
        let o = std::process::Command::new(&exe).args(["visit-deep", &depth.to_string(), shape]).output();
        // sequences reported: the entry plus one per block/loop, two per if (consequent and alternative)
        let seqs = if shape == "blocks" { depth + 1 } else { 2 * depth + 1 };
        let ok = match &o {
            Ok(o) => o.status.success() && String::from_utf8_lossy(&o.stdout).contains(&format!("DEEP {} {} {}", depth, seqs, seqs)),
            Err(_) => false,
        };
        out::oracle(&format!("deep-{}", shape), ok, &format!("C16:deep-nesting-{}", shape), &format!("nesting depth {} ({}) on a 256 KiB stack: {}", depth, shape, o.map(|o| format!("status {:?} stdout {}", o.status.code(), String::from_utf8_lossy(&o.stdout).trim().to_string())).unwrap_or("spawn failed".into())));
    }
    out::stat("visit.functions", stats.functions);
    out::stat("visit.built_functions", stats.built);
    out::stat("visit.sequences", stats.sequences);
    out::stat("visit.events", stats.events);
}
