//! Canonical one-line text of an `AMod`, used both as the request to the Lean module model (the
//! input module) and as the observed answer (walrus's output, decoded independently).
//!
//!  T <params>><results> …
//!  IM <modhex>:<namehex>:<desc> …      desc: f<ty> | t<elem>,<min>,<max|->,<64> | m<min>,<max|->,<sh>,<64>,<pl|-> | g<ty>,<mut>,<sh>
//!  FN <tyidx> …    TB <elem>,<min>,<max|->,<64> …    ME <min>,<max|->,<sh>,<64>,<pl|-> …
//!  GL <ty>,<mut>,<sh>,<cexpr> …        cexpr: operator tokens joined by `+`
//!  EX <namehex>,<kind>,<idx> …         ST <idx>
//!  EL <flag>;<a<table|->:<cexpr>|p|d>;<f:<idx>,…|x<reftype>:<cexpr>,…> …
//!  DC <n>        DA <flag>;<a<mem>:<cexpr>|p>;<hex> …
//!  CO <locals> <op> … | <locals> <op> … |
//!  NM M<hex> F<i>=<hex>,… L<f>:<i>=<hex>,…;… Y… B… E(memories)… G… S(elements)… D…
use crate::decode::*;
use crate::out::hex;

fn opt(x: Option<u64>) -> String {
    x.map(|v| v.to_string()).unwrap_or("-".into())
}
pub fn cexpr_text(c: &CExpr) -> String {
    let t = c.ops().iter().map(|o| o.text()).collect::<Vec<_>>().join("+");
    if t.is_empty() {
        "?".into()
    } else {
        t
    }
}
fn table_text(t: &TableTy) -> String {
    format!("{},{},{},{}", t.elem, t.min, opt(t.max), t.table64 as u8)
}
fn mem_text(m: &MemTy) -> String {
    format!("{},{},{},{},{}", m.min, opt(m.max), m.shared as u8, m.mem64 as u8, m.page_log2.map(|v| v.to_string()).unwrap_or("-".into()))
}
fn global_text(g: &GlobalTy) -> String {
    format!("{},{},{}", g.ty, g.mutable as u8, g.shared as u8)
}
fn namemap(tag: &str, m: &[(u32, String)]) -> String {
    format!("{}{}", tag, m.iter().map(|(i, n)| format!("{}={}", i, hex(n.as_bytes()))).collect::<Vec<_>>().join(","))
}

pub fn module_text(a: &AMod, with_offsets: bool, with_names: bool) -> String {
    let mut s = String::from("T");
    for t in &a.types {
        s.push_str(&format!(" {}>{}", t.0.join(","), t.1.join(",")));
    }
    s.push_str(" IM");
    for i in &a.imports {
        let d = match &i.desc {
            ImportDesc::Func(t) => format!("f{}", t),
            ImportDesc::Table(t) => format!("t{}", table_text(t)),
            ImportDesc::Mem(m) => format!("m{}", mem_text(m)),
            ImportDesc::Global(g) => format!("g{}", global_text(g)),
        };
        s.push_str(&format!(" {}:{}:{}", hex(i.module.as_bytes()), hex(i.name.as_bytes()), d));
    }
    s.push_str(" FN");
    for f in &a.funcs {
        s.push_str(&format!(" {}", f));
    }
    s.push_str(" TB");
    for (t, _) in &a.tables {
        s.push_str(&format!(" {}", table_text(t)));
    }
    s.push_str(" ME");
    for m in &a.memories {
        s.push_str(&format!(" {}", mem_text(m)));
    }
    s.push_str(" GL");
    for (g, init) in &a.globals {
        s.push_str(&format!(" {},{}", global_text(g), cexpr_text(init)));
    }
    s.push_str(" EX");
    for e in &a.exports {
        s.push_str(&format!(" {},{},{}", hex(e.name.as_bytes()), e.kind.tag(), e.index));
    }
    if let Some(st) = a.start {
        s.push_str(&format!(" ST {}", st));
    }
    s.push_str(" EL");
    for e in &a.elems {
        let mode = match &e.mode {
            ElemMode::Active { table, offset } => format!("a{}:{}", table.map(|t| t.to_string()).unwrap_or("-".into()), cexpr_text(offset)),
            ElemMode::Passive => "p".into(),
            ElemMode::Declared => "d".into(),
        };
        let items = match &e.items {
            ElemItems::Funcs(f) => format!("f:{}", f.iter().map(|x| x.to_string()).collect::<Vec<_>>().join(",")),
            ElemItems::Exprs(t, es) => format!("x{}:{}", t, es.iter().map(cexpr_text).collect::<Vec<_>>().join(",")),
        };
        s.push_str(&format!(" {};{};{}", e.flag, mode, items));
    }
    if let Some(n) = a.data_count {
        s.push_str(&format!(" DC {}", n));
    }
    s.push_str(" DA");
    for d in &a.datas {
        let mode = match &d.mode {
            DataMode::Active { mem, offset } => format!("a{}:{}", mem, cexpr_text(offset)),
            DataMode::Passive => "p".into(),
        };
        s.push_str(&format!(" {};{};{}", d.flag, mode, hex(&d.bytes)));
    }
    s.push_str(" CO");
    for body in &a.code {
        let l = if body.locals.is_empty() { "-".to_string() } else { body.locals.iter().map(|(n, t)| format!("{}x{}", n, t)).collect::<Vec<_>>().join(",") };
        s.push_str(&format!(" {}", l));
        for op in &body.ops {
            if with_offsets {
                s.push_str(&format!(" {}@{}", op.text(), op.offset));
            } else {
                s.push_str(&format!(" {}", op.text()));
            }
        }
        s.push_str(" |");
    }
    if with_names {
        // one group per `name` section, separated by `&`: walrus reads each section on its own
        let secs = a.names_sections();
        if !secs.is_empty() {
            s.push_str(" NM");
        }
        for (k, n) in secs.iter().enumerate() {
            if k > 0 {
                s.push_str(" &");
            }
            if let Some(m) = &n.module {
                s.push_str(&format!(" M{}", hex(m.as_bytes())));
            }
            s.push_str(&format!(" {}", namemap("F", &n.funcs)));
            s.push_str(&format!(" L{}", n.locals.iter().map(|(f, m)| format!("{}:{}", f, m.iter().map(|(i, x)| format!("{}={}", i, hex(x.as_bytes()))).collect::<Vec<_>>().join(","))).collect::<Vec<_>>().join(";")));
            s.push_str(&format!(" {}", namemap("Y", &n.types)));
            s.push_str(&format!(" {}", namemap("B", &n.tables)));
            s.push_str(&format!(" {}", namemap("E", &n.memories)));
            s.push_str(&format!(" {}", namemap("G", &n.globals)));
            s.push_str(&format!(" {}", namemap("S", &n.elems)));
            s.push_str(&format!(" {}", namemap("D", &n.datas)));
        }
    }
    s
}
