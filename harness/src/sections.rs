//! Suite `sections` (C12, C14, C08): custom sections, producers, configuration switches,
//! repeated emits on one in-memory module, round-trip fixpoint.
use crate::decode::{self, AMod};
use crate::gen::{self, GenCfg};
use crate::out::{self, hex};
use crate::rng::Rng;
use std::sync::atomic::{AtomicUsize, Ordering};
use std::sync::Arc;
use walrus::ModuleConfig;

fn hexs(s: &str) -> String {
    hex(s.as_bytes())
}

/// fields of a producers payload that decode before the first error
fn producers_prefix(data: &[u8], off: usize) -> Vec<(String, Vec<(String, String)>)> {
    use wasmparser::*;
    let mut out = vec![];
    let r = match ProducersSectionReader::new(BinaryReader::new(data, off, decode::all_features())) {
        Ok(r) => r,
        Err(_) => return out,
    };
    for f in r {
        let Ok(f) = f else { break };
        let mut vals = vec![];
        let mut bad = false;
        for v in f.values {
            match v {
                Ok(v) => vals.push((v.name.to_string(), v.version.to_string())),
                Err(_) => {
                    bad = true;
                    break;
                }
            }
        }
        if bad {
            break;
        }
        out.push((f.name.to_string(), vals));
    }
    out
}

fn show_fields(fs: &[(String, Vec<(String, String)>)]) -> String {
    if fs.is_empty() {
        return "-".into();
    }
    fs.iter().map(|(n, vs)| format!("{}={}", hexs(n), vs.iter().map(|(a, b)| format!("{}/{}", hexs(a), hexs(b))).collect::<Vec<_>>().join(","))).collect::<Vec<_>>().join(";")
}

/// module name as walrus would see it: the last Module subsection decoded before an error
fn modname_view(data: &[u8], off: usize) -> Option<String> {
    use wasmparser::*;
    let r = NameSectionReader::new(BinaryReader::new(data, off, decode::all_features()));
    let mut name = None;
    for sub in r {
        match sub {
            Ok(Name::Module { name: n, .. }) => name = Some(n.to_string()),
            Ok(_) => {}
            Err(_) => break,
        }
    }
    name
}

fn canon_out(m: &AMod) -> String {
    let mut parts = vec![];
    let mut seen_debug = false;
    for c in &m.customs {
        if c.name == "name" {
            parts.push(format!("N={}", modname_view(&c.data, c.data_offset).map(|s| hexs(&s)).unwrap_or("?".into())));
        } else if c.name == "producers" {
            parts.push(format!("P{}", show_fields(&producers_prefix(&c.data, c.data_offset))));
        } else if c.name.starts_with(".debug") {
            if !seen_debug {
                parts.push("D".into());
                seen_debug = true;
            }
        } else {
            parts.push(format!("R{}:{}", hexs(&c.name), hex(&c.data)));
        }
    }
    if parts.is_empty() {
        "-".into()
    } else {
        parts.join(",")
    }
}

fn is_unknown(name: &str) -> bool {
    name != "name" && name != "producers" && !name.starts_with(".debug")
}

fn walrus_version() -> String {
    let t = std::fs::read_to_string("/repo/Cargo.toml").unwrap_or_default();
    for l in t.lines() {
        if let Some(v) = l.strip_prefix("version = \"") {
            return v.trim_end_matches('"').to_string();
        }
    }
    "?".into()
}

/// non-custom sections as (id, bytes)
fn std_sections(wasm: &[u8]) -> Vec<(u8, Vec<u8>)> {
    let mut v = vec![];
    for p in wasmparser::Parser::new(0).parse_all(wasm) {
        if let Ok(p) = p {
            if let Some((id, r)) = p.as_section() {
                if id != 0 {
                    v.push((id, wasm[r].to_vec()));
                }
            }
        }
    }
    v
}
fn custom_sections(wasm: &[u8]) -> Vec<(String, Vec<u8>)> {
    decode::decode(wasm).map(|m| m.customs.iter().map(|c| (c.name.clone(), c.data.clone())).collect()).unwrap_or_default()
}

struct Cfg3 {
    skip_name: bool,
    skip_producers: bool,
    dwarf: bool,
    /// `preserve_code_transform`: must change nothing this suite looks at
    preserve: bool,
    /// `generate_synthetic_names_for_anonymous_items`: names for what has none; outside this
    /// suite's model (such cases are judged by the oracles only), but the switches of C14 and the
    /// fixpoint of C08 have to hold under it too
    synthetic: bool,
}

fn mk_config(c: &Cfg3, counter: Option<Arc<AtomicUsize>>) -> ModuleConfig {
    let mut cfg = ModuleConfig::new();
    cfg.generate_name_section(!c.skip_name);
    cfg.generate_producers_section(!c.skip_producers);
    cfg.generate_dwarf(c.dwarf);
    cfg.preserve_code_transform(c.preserve);
    if c.synthetic {
        cfg.generate_synthetic_names_for_anonymous_items(true);
    }
    if let Some(counter) = counter {
        cfg.on_parse(move |_, _| {
            counter.fetch_add(1, Ordering::SeqCst);
            Ok(())
        });
    }
    cfg
}

fn run_case(case: &str, wasm: &[u8], c3: &Cfg3, script: &str, ver: &str, with_corr: bool, stats: &mut Stats) {
    let prop = std::env::var("VERIF_PROPERTY").unwrap_or_default();
    let input = match decode::decode(wasm) {
        Ok(m) => Some(m),
        Err(_) => None,
    };
    let valid = decode::validate(wasm, decode::walrus_features(false)).is_ok();
    // ---- request for the model
    let mut req = format!("sect {}{}{} {} {} {}", c3.skip_name as u8, c3.skip_producers as u8, c3.dwarf as u8, hexs(ver), valid as u8, script);
    let mut n_unknown = 0;
    if let Some(m) = &input {
        for c in &m.customs {
            let prod = if c.name == "producers" { show_fields(&producers_prefix(&c.data, c.data_offset)) } else { "-".into() };
            let mn = if c.name == "name" { modname_view(&c.data, c.data_offset).map(|s| format!("={}", hexs(&s))).unwrap_or("-".into()) } else { "-".into() };
            let dw = (c.name.starts_with(".debug") && !c.data.is_empty()) as u8;
            req.push_str(&format!(" {} {} {} {} {}", hexs(&c.name), hex(&c.data), prod, mn, dw));
            if is_unknown(&c.name) {
                n_unknown += 1;
            }
        }
    }
    // ---- the implementation
    let counter = Arc::new(AtomicUsize::new(0));
    let cfg = mk_config(c3, Some(counter.clone()));
    let parsed = out::catch(|| cfg.parse(wasm));
    let wasm_hex_only = format!("{} {}{}{}{}{}{} {}", script, c3.skip_name as u8, c3.skip_producers as u8, c3.dwarf as u8, !with_corr as u8, c3.preserve as u8, c3.synthetic as u8, hex(wasm));
    // inputs outside the slice the model of this suite describes (full name sections) are judged by
    // the oracles only
    let corr = |case: &str, nontrivial: bool, req: &str, observed: &str| {
        if with_corr {
            out::corr(case, nontrivial, req, observed);
        }
    };
    let mut module = match parsed {
        Err(p) => {
            corr(case, false, &req, "PANIC");
            out::oracle(case, false, "C05:parse-panic", &format!("parse panicked: {} | only: {}", p, wasm_hex_only));
            return;
        }
        Ok(Err(_)) => {
            let calls = counter.load(Ordering::SeqCst);
            corr(case, true, &req, "err");
            stats.rejected += 1;
            if prop == "C14" {
                out::oracle(case, calls == 0, "C14:callback-on-failed-parse", &format!("parse failed but the callback ran {} times | only: {}", calls, wasm_hex_only));
            }
            if valid {
                // a valid module rejected: not this suite's property (C05), but the model answers for valid=1
            }
            return;
        }
        Ok(Ok(m)) => m,
    };
    let calls = counter.load(Ordering::SeqCst);
    let mut outs: Vec<Vec<u8>> = vec![];
    for ch in script.chars() {
        match ch {
            'e' => match out::catch(|| module.emit_wasm()) {
                Ok(b) => outs.push(b),
                Err(p) => {
                    corr(case, false, &req, "PANIC-EMIT");
                    out::oracle(case, false, "C02:emit-panic", &format!("emit panicked: {} | only: {}", p, wasm_hex_only));
                    return;
                }
            },
            'g' => {
                if out::catch(|| walrus::passes::gc::run(&mut module)).is_err() {
                    corr(case, false, &req, "PANIC-GC");
                    return;
                }
            }
            _ => {}
        }
    }
    let decoded: Vec<Option<AMod>> = outs.iter().map(|b| decode::decode(b).ok()).collect();
    let observed = format!("calls={} {}", calls, decoded.iter().map(|d| d.as_ref().map(canon_out).unwrap_or("UNDECODABLE".into())).collect::<Vec<_>>().join(" | "));
    let nontrivial = n_unknown > 0 || input.as_ref().map(|m| m.customs.len() > 0).unwrap_or(false);
    corr(case, nontrivial, &req, &observed);
    stats.accepted += 1;
    stats.unknown_customs += n_unknown;
    stats.emits += outs.len();
    if stats.samples < 4 && nontrivial {
        out::sample(&format!("{} => {}", &req[..req.len().min(300)], &observed[..observed.len().min(300)]));
        stats.samples += 1;
    }
    let input = input.unwrap();

    // ---- oracles (independent of the model)
    if prop == "C12" {
        let want: Vec<(String, Vec<u8>)> = input.customs.iter().filter(|c| is_unknown(&c.name)).map(|c| (c.name.clone(), c.data.clone())).collect();
        let mut ok = true;
        let mut msg = String::new();
        for (k, d) in decoded.iter().enumerate() {
            let got: Vec<(String, Vec<u8>)> = d.as_ref().map(|m| m.customs.iter().filter(|c| is_unknown(&c.name)).map(|c| (c.name.clone(), c.data.clone())).collect()).unwrap_or_default();
            if got != want {
                ok = false;
                let gc_before = script.chars().take_while(|_| true).collect::<String>();
                let _ = gc_before;
                msg = format!("emit #{} of script '{}': {} unknown custom sections in the input, {} in the output (or names/payloads/order differ)", k + 1, script, want.len(), got.len());
                let key = if k == 0 { "C12:customs-changed-first-emit" } else { "C12:customs-lost-on-repeated-emit" };
                out::oracle(case, false, key, &format!("{} | only: {}", msg, wasm_hex_only));
                break;
            }
        }
        if ok {
            out::oracle(case, true, "", "");
        }
    }
    if prop == "C08" {
        // repeated emits on one Module (only comparable when no gc ran in between two emits)
        let mut ok = true;
        if !script.contains('g') || script.starts_with('g') && !script[1..].contains('g') {
            for k in 1..outs.len() {
                if outs[k] != outs[0] {
                    ok = false;
                    let what = first_section_diff(&outs[0], &outs[k]);
                    out::oracle(case, false, "C08:repeated-emit-differs", &format!("emit #{} differs from emit #1 on the same Module ({}) | only: {}", k + 1, what, wasm_hex_only));
                    break;
                }
            }
        }
        // fresh parse + emit must reproduce emit #1 (hash seeds differ per map instance)
        if ok && !script.starts_with('g') && !outs.is_empty() {
            let cfg2 = mk_config(c3, None);
            if let Ok(Ok(mut m2)) = out::catch(|| cfg2.parse(wasm)) {
                if let Ok(b2) = out::catch(|| m2.emit_wasm()) {
                    if b2 != outs[0] {
                        ok = false;
                        out::oracle(case, false, "C08:nondeterministic-emit", &format!("two parses of the same bytes emit different bytes ({}) | only: {}", first_section_diff(&outs[0], &b2), wasm_hex_only));
                    }
                }
            }
            // fixpoint: parse(out1).emit == out1
            if ok {
                ok = fixpoint_of(case, c3, &outs[0], "", &wasm_hex_only);
            }
        }
        // … and what is emitted after a GC run is a fixpoint too (the pass leaves arenas with deleted
        // entries behind, which a re-parse does not have)
        if ok && script.contains('g') && script.ends_with('e') {
            ok = fixpoint_of(case, c3, outs.last().unwrap(), " (the output emitted after a GC run)", &wasm_hex_only);
        }
        if ok {
            out::oracle(case, true, "", "");
        }
    }
    if prop == "C14" && !outs.is_empty() && !script.starts_with('g') {
        let mut ok = true;
        let mut fail = |key: &str, msg: String| {
            out::oracle(case, false, key, &format!("{} | only: {}", msg, wasm_hex_only));
        };
        if calls != 1 {
            ok = false;
            fail("C14:callback-count", format!("successful parse ran the callback {} times", calls));
        }
        let o = &outs[0];
        let ocustoms = custom_sections(o);
        // the switch under test vs. its opposite: everything else byte-identical
        for which in ["name", "producers"] {
            let flipped = Cfg3 {
                skip_name: if which == "name" { !c3.skip_name } else { c3.skip_name },
                skip_producers: if which == "producers" { !c3.skip_producers } else { c3.skip_producers },
                dwarf: c3.dwarf,
                preserve: c3.preserve,
                synthetic: c3.synthetic,
            };
            let cfgf = mk_config(&flipped, None);
            if let Ok(Ok(mut mf)) = out::catch(|| cfgf.parse(wasm)) {
                if let Ok(of) = out::catch(|| mf.emit_wasm()) {
                    let a: Vec<_> = ocustoms.iter().filter(|c| c.0 != which).cloned().collect();
                    let b: Vec<_> = custom_sections(&of).into_iter().filter(|c| c.0 != which).collect();
                    if std_sections(o) != std_sections(&of) || a != b {
                        ok = false;
                        fail(&format!("C14:{}-switch-changes-other-sections", which), format!("toggling the {} switch changes other sections", which));
                    }
                    let off_has = |bytes: &[u8]| custom_sections(bytes).iter().any(|c| c.0 == which);
                    let (skip_here, here, there) = if which == "name" { (c3.skip_name, off_has(o), off_has(&of)) } else { (c3.skip_producers, off_has(o), off_has(&of)) };
                    let (off_out, on_out) = if skip_here { (here, there) } else { (there, here) };
                    if off_out {
                        ok = false;
                        fail(&format!("C14:{}-section-present-when-disabled", which), format!("{} section present although generation is disabled", which));
                    }
                    let expected_on = if which == "name" { input.customs.iter().any(|c| c.name == "name" && modname_view(&c.data, c.data_offset).is_some()) } else { true };
                    if expected_on && !on_out {
                        ok = false;
                        fail(&format!("C14:{}-section-missing-when-enabled", which), format!("{} section missing although generation is enabled", which));
                    }
                }
            }
        }
        // producers content
        if !c3.skip_producers {
            let infields: Vec<(String, Vec<(String, String)>)> = input.customs.iter().filter(|c| c.name == "producers").flat_map(|c| producers_prefix(&c.data, c.data_offset)).collect();
            let wf = {
                let mut names: Vec<&String> = infields.iter().map(|f| &f.0).collect();
                names.sort();
                names.windows(2).all(|w| w[0] != w[1])
                    && infields.iter().all(|f| {
                        let mut v: Vec<&String> = f.1.iter().map(|x| &x.0).collect();
                        v.sort();
                        v.windows(2).all(|w| w[0] != w[1])
                    })
            };
            if wf {
                let mut cur = o.clone();
                for trip in 1..=3 {
                    let outf: Vec<(String, Vec<(String, String)>)> = decode::decode(&cur).ok().and_then(|m| m.customs.iter().find(|c| c.name == "producers").map(|c| producers_prefix(&c.data, c.data_offset))).unwrap_or_default();
                    let walrus_entries = outf.iter().filter(|f| f.0 == "processed-by").flat_map(|f| f.1.iter()).filter(|v| v.0 == "walrus").count();
                    if walrus_entries != 1 {
                        ok = false;
                        fail("C14:walrus-recorded-not-once", format!("after {} round trip(s) walrus is recorded {} times", trip, walrus_entries));
                        break;
                    }
                    // all input fields / values preserved in order (the walrus value may be replaced)
                    let strip = |fs: &[(String, Vec<(String, String)>)]| -> Vec<(String, Vec<(String, String)>)> {
                        fs.iter().map(|f| (f.0.clone(), f.1.iter().filter(|v| !(f.0 == "processed-by" && v.0 == "walrus")).cloned().collect::<Vec<_>>())).filter(|f| !(f.0 == "processed-by" && f.1.is_empty())).collect()
                    };
                    if strip(&outf) != strip(&infields) {
                        ok = false;
                        fail("C14:producers-fields-changed", format!("after {} round trip(s) the producers fields differ from the input's", trip));
                        break;
                    }
                    let cfgr = mk_config(c3, None);
                    match out::catch(|| cfgr.parse(&cur).map(|mut m| m.emit_wasm())) {
                        Ok(Ok(b)) => cur = b,
                        _ => break,
                    }
                }
            }
        }
        // DWARF
        let has_debug_out = ocustoms.iter().any(|c| c.0.starts_with(".debug"));
        let has_info_in = input.customs.iter().any(|c| c.name == ".debug_info" && !c.data.is_empty());
        if c3.dwarf && has_info_in && !ocustoms.iter().any(|c| c.0 == ".debug_info" && !c.1.is_empty()) {
            ok = false;
            fail("C14:dwarf-missing-when-enabled", "the input carries .debug_info and DWARF generation is on, but the output has no .debug_info".into());
        }
        if has_debug_out && !c3.dwarf {
            ok = false;
            fail("C14:dwarf-emitted-when-off", "DWARF sections in the output although DWARF generation is off".into());
        }
        if ok {
            out::oracle(case, true, "", "");
        }
    }
}

/// re-parsing `bytes` (an output of walrus) and emitting again must reproduce them; reports and
/// returns false otherwise
fn fixpoint_of(case: &str, c3: &Cfg3, bytes: &[u8], what: &str, wasm_hex_only: &str) -> bool {
    let cfg3 = mk_config(c3, None);
    match out::catch(|| cfg3.parse(bytes)) {
        Ok(Ok(mut m3)) => match out::catch(|| m3.emit_wasm()) {
            Ok(b3) => {
                if b3 != bytes {
                    // one shape has a name of its own: the first output carries a
                    // `.debug_line_str` section although it has no `.debug_line` (strings
                    // of a line program that did not survive), the second drops it, and
                    // nothing else differs
                    let s1 = all_sections(bytes);
                    let s3 = all_sections(&b3);
                    let orphan = s1.iter().all(|x| x.0 != "custom:.debug_line")
                        && s1.iter().filter(|x| x.0 != "custom:.debug_line_str").cloned().collect::<Vec<_>>() == s3;
                    // another: only the DWARF string table and the references into it differ, section
                    // sizes are the same, and the *second* output is a fixpoint (the order in which the
                    // strings are interned follows the order of the DIEs that is read, which gimli's
                    // writer changes once by moving base types to the front)
                    let dwarf_only = s1.len() == s3.len()
                        && s1.iter().zip(s3.iter()).all(|(x, y)| x == y || (x.0 == y.0 && x.1.len() == y.1.len() && ["custom:.debug_str", "custom:.debug_info", "custom:.debug_line_str", "custom:.debug_abbrev"].contains(&x.0.as_str())));
                    let settles = dwarf_only && {
                        let c4 = mk_config(c3, None);
                        matches!(out::catch(|| c4.parse(&b3).map(|mut m| m.emit_wasm())), Ok(Ok(b4)) if b4 == b3)
                    };
                    let key = if orphan {
                        "C08:not-a-fixpoint-orphan-debug-line-str-dropped-by-second-round-trip"
                    } else if settles {
                        "C08:not-a-fixpoint-dwarf-string-order-settles-one-trip-later"
                    } else {
                        "C08:not-a-fixpoint"
                    };
                    out::oracle(case, false, key, &format!("re-parsing walrus's output{} and emitting again changes it ({}) | only: {}", what, first_section_diff(bytes, &b3), wasm_hex_only));
                    return false;
                }
                true
            }
            Err(p) => {
                out::oracle(case, false, "C08:reemit-panic", &format!("emitting the re-parsed output{} panicked: {} | only: {}", what, p, wasm_hex_only));
                false
            }
        },
        Ok(Err(e)) => {
            out::oracle(case, false, "C08:output-rejected", &format!("walrus rejects its own output{}: {} | only: {}", what, e, wasm_hex_only));
            false
        }
        Err(p) => {
            out::oracle(case, false, "C08:reparse-panic", &format!("re-parsing the output{} panicked: {} | only: {}", what, p, wasm_hex_only));
            false
        }
    }
}

fn first_section_diff(a: &[u8], b: &[u8]) -> String {
    let sa = all_sections(a);
    let sb = all_sections(b);
    for i in 0..sa.len().max(sb.len()) {
        match (sa.get(i), sb.get(i)) {
            (Some(x), Some(y)) if x == y => {}
            (Some(x), Some(y)) => return format!("section #{}: {} ({} bytes) vs {} ({} bytes)", i, x.0, x.1.len(), y.0, y.1.len()),
            (Some(x), None) => return format!("section #{} {} missing in the second", i, x.0),
            (None, Some(y)) => return format!("extra section #{} {} in the second", i, y.0),
            _ => {}
        }
    }
    "no section differs (header?)".into()
}
fn all_sections(wasm: &[u8]) -> Vec<(String, Vec<u8>)> {
    let mut v = vec![];
    for p in wasmparser::Parser::new(0).parse_all(wasm) {
        if let Ok(p) = p {
            if let wasmparser::Payload::CustomSection(c) = &p {
                v.push((format!("custom:{}", c.name()), c.data().to_vec()));
            } else if let Some((id, r)) = p.as_section() {
                v.push((format!("id{}", id), wasm[r].to_vec()));
            }
        }
    }
    v
}

#[derive(Default)]
struct Stats {
    accepted: usize,
    rejected: usize,
    unknown_customs: usize,
    emits: usize,
    samples: usize,
    real_dwarf: usize,
    full_names: usize,
    synthetic_names: usize,
}

/// a module without local functions: imported functions, a memory, a global, exports, active data
/// a module whose data and element segments are all passive and unreferenced: a GC run deletes
/// every one of them, and what is emitted afterwards must not differ from what a re-parse of it emits
fn dead_segments_module(rng: &mut Rng) -> Vec<u8> {
    use wasm_encoder::*;
    let mut m = Module::new();
    let mut types = TypeSection::new();
    types.function([], []);
    m.section(&types);
    let mut f = FunctionSection::new();
    f.function(0);
    m.section(&f);
    let mut mem = MemorySection::new();
    mem.memory(MemoryType { minimum: 1, maximum: None, memory64: false, shared: false, page_size_log2: None });
    m.section(&mem);
    let mut ex = ExportSection::new();
    ex.export("run", ExportKind::Func, 0);
    ex.export("memory", ExportKind::Memory, 0);
    m.section(&ex);
    let (nd, ne) = match rng.below(3) {
        0 => (rng.range(1, 3), 0),
        1 => (0, rng.range(1, 2)),
        _ => (rng.range(1, 2), rng.range(1, 2)),
    };
    if ne > 0 {
        let mut el = ElementSection::new();
        for _ in 0..ne {
            el.passive(Elements::Functions(&[0]));
        }
        m.section(&el);
    }
    if nd > 0 {
        m.section(&DataCountSection { count: nd as u32 });
    }
    let mut code = CodeSection::new();
    let mut func = Function::new([]);
    func.instruction(&Instruction::End);
    code.function(&func);
    m.section(&code);
    if nd > 0 {
        let mut d = DataSection::new();
        for _ in 0..nd {
            d.passive((0..rng.range(1, 6)).map(|_| rng.next() as u8).collect::<Vec<u8>>());
        }
        m.section(&d);
    }
    m.finish()
}

fn no_code_module(rng: &mut Rng) -> Vec<u8> {
    use wasm_encoder::*;
    let mut m = Module::new();
    let mut types = TypeSection::new();
    types.function([ValType::I32], []);
    types.function([], [ValType::I64]);
    m.section(&types);
    let mut imports = ImportSection::new();
    let ni = rng.below(3);
    for i in 0..ni {
        imports.import("env", &format!("f{}", i), EntityType::Function((i % 2) as u32));
    }
    if ni > 0 {
        m.section(&imports);
    }
    let mut mem = MemorySection::new();
    mem.memory(MemoryType { minimum: 1, maximum: Some(2), memory64: false, shared: false, page_size_log2: None });
    m.section(&mem);
    let mut gl = GlobalSection::new();
    gl.global(GlobalType { val_type: ValType::I32, mutable: false, shared: false }, &ConstExpr::i32_const(rng.below(100) as i32));
    m.section(&gl);
    let mut ex = ExportSection::new();
    ex.export("memory", ExportKind::Memory, 0);
    ex.export("g", ExportKind::Global, 0);
    if ni > 0 && rng.chance(1, 2) {
        ex.export("reexport", ExportKind::Func, 0);
    }
    m.section(&ex);
    let mut data = DataSection::new();
    let bytes: Vec<u8> = (0..rng.range(1, 40)).map(|_| rng.next() as u8).collect();
    data.active(0, &ConstExpr::i32_const(rng.below(1000) as i32), bytes);
    m.section(&data);
    if rng.chance(1, 2) {
        let mut names = NameSection::new();
        names.module("nocode");
        m.section(&names);
    }
    if rng.chance(1, 2) {
        m.section(&CustomSection { name: std::borrow::Cow::Borrowed("extra"), data: std::borrow::Cow::Borrowed(&[1, 2, 3]) });
    }
    m.finish()
}

fn corrupt(rng: &mut Rng, wasm: &[u8]) -> Vec<u8> {
    let mut w = wasm.to_vec();
    match rng.below(3) {
        0 => {
            let n = rng.range(8, (w.len() - 1) as u64) as usize;
            w.truncate(n);
        }
        1 => {
            let n = rng.range(8, (w.len() - 1) as u64) as usize;
            w[n] ^= 1 << rng.below(8);
        }
        _ => {
            w.push(0x0b);
            w.push(0xff);
        }
    }
    w
}

pub fn main(seed: u64, tier: &str, only: Option<&str>) {
    let ver = walrus_version();
    let mut stats = Stats::default();
    if let Some(o) = only {
        // `<script> <bits> <wasmhex>`
        let f: Vec<&str> = o.split(' ').collect();
        let bits: Vec<char> = f[1].chars().collect();
        let c3 = Cfg3 { skip_name: bits[0] == '1', skip_producers: bits[1] == '1', dwarf: bits[2] == '1', preserve: bits.get(4) == Some(&'1'), synthetic: bits.get(5) == Some(&'1') };
        run_case("replay", &out::unhex(f[2]), &c3, f[0], &ver, bits.get(3) != Some(&'1'), &mut stats);
        return;
    }
    let n = if tier == "thorough" { 5000 * crate::out::thorough_scale() } else { 320 };
    let scripts = ["e", "ee", "ege", "ge", "eee", "egege", "gee"];
    let mut nconfigs = std::collections::HashSet::new();
    for case in 0..n {
        let mut rng = Rng::new(seed ^ 0x5ec7, case as u64);
        let mut g = if case % 4 == 0 { GenCfg::mvp() } else { GenCfg::random(&mut rng) };
        g.customs = true;
        g.names = rng.chance(2, 3);
        g.names_simple = true;
        g.producers = rng.chance(2, 3);
        // the open findings of other properties are kept out of this suite's inputs
        g.import_mem64 = false;
        g.big_offsets = false;
        g.extern_elem_global = false;
        g.max_funcs = 4;
        let mut c3 = Cfg3 { skip_name: rng.chance(1, 2), skip_producers: rng.chance(1, 2), dwarf: rng.chance(1, 3), preserve: false, synthetic: false };
        g.junk_debug = !c3.dwarf;
        let (mut wasm, _) = gen::gen_valid(&mut rng, &g);
        // every sixth input has no local function at all (imports, a memory, data)
        if case % 6 == 5 {
            wasm = no_code_module(&mut rng);
        }
        // … and some have nothing but dead passive segments for a GC run to delete
        let dead_segments = case % 16 == 9;
        if dead_segments {
            wasm = dead_segments_module(&mut rng);
        }
        // damaged inputs (before any DWARF is attached: what walrus does with damaged DWARF when the
        // switch is on is not this suite's subject)
        if rng.chance(1, 7) {
            wasm = corrupt(&mut rng, &wasm);
        }
        // real DWARF (the junk `.debug_*` sections above only exist with the switch off: walrus
        // reads them when it is on); with the switch on it has to reach the output
        if (c3.dwarf || rng.chance(1, 4)) && rng.chance(2, 3) {
            if let Ok(a) = decode::decode(&wasm) {
                if a.customs.iter().all(|c| !c.name.starts_with(".debug")) {
                    wasm = crate::dwarf::synthesize(&wasm, &a, if rng.chance(1, 2) { 4 } else { 5 }, 1).0;
                    stats.real_dwarf += 1;
                }
            }
        }
        let script = if dead_segments { *rng.pick(&["ge", "ege", "gee"]) } else { *rng.pick(&scripts) };
        c3.preserve = rng.chance(1, 2);
        nconfigs.insert((c3.skip_name, c3.skip_producers, c3.dwarf, c3.preserve, script));
        run_case(&format!("s{}", case), &wasm, &c3, script, &ver, true, &mut stats);
    }
    // C08 also over what this suite's model does not describe: full name sections (function, local,
    // type, table, memory, global, element names) on modules with more functions
    let prop = std::env::var("VERIF_PROPERTY").unwrap_or_default();
    if prop == "C08" || prop == "C14" {
        for case in 0..n / 2 {
            let mut rng = Rng::new(seed ^ 0x5ec8, case as u64);
            let mut g = if case % 4 == 0 { GenCfg::mvp() } else { GenCfg::random(&mut rng) };
            g.customs = rng.chance(1, 2);
            g.names = true;
            g.names_simple = false;
            g.names_module = true;
            g.producers = rng.chance(1, 2);
            g.import_mem64 = false;
            g.big_offsets = false;
            g.extern_elem_global = false;
            g.max_funcs = 12;
            g.junk_debug = false;
            let mut c3 = Cfg3 { skip_name: rng.chance(1, 8), skip_producers: rng.chance(1, 2), dwarf: false, preserve: rng.chance(1, 4), synthetic: rng.chance(1, 3) };
            if prop == "C14" {
                c3.skip_name = rng.chance(1, 2);
                c3.synthetic = rng.chance(1, 2);
                g.names = rng.chance(2, 3);
            }
            if c3.synthetic {
                stats.synthetic_names += 1;
            }
            let (wasm, _) = gen::gen_valid(&mut rng, &g);
            let script = *rng.pick(&["e", "ee", "ege"]);
            run_case(&format!("x{}", case), &wasm, &c3, script, &ver, false, &mut stats);
            stats.full_names += 1;
        }
    }
    // DWARF as a compiler writes it (clang 14 -O0 -g of data/clang_O0_dwarf.c): base types in the
    // middle of the unit, location lists, ranges - shapes the synthesised DWARF does not have
    if prop == "C08" || prop == "C14" {
        let wasm: &[u8] = include_bytes!("../data/clang_O0_dwarf.wasm");
        for (k, dwarf) in [true, false].into_iter().enumerate() {
            let c3 = Cfg3 { skip_name: false, skip_producers: false, dwarf, preserve: false, synthetic: false };
            run_case(&format!("clang{}", k), wasm, &c3, "e", &ver, false, &mut stats);
        }
    }
    out::stat("sections.real_dwarf_inputs", stats.real_dwarf);
    out::stat("sections.full_name_section_inputs", stats.full_names);
    out::stat("sections.cases_with_synthetic_names_on", stats.synthetic_names);
    out::stat("sections.accepted", stats.accepted);
    out::stat("sections.rejected_inputs", stats.rejected);
    out::stat("sections.unknown_custom_sections", stats.unknown_customs);
    out::stat("sections.emits", stats.emits);
    out::stat("sections.distinct_config_script_cells", nconfigs.len());
}
