//! Suite `gate` (C05): arbitrary bytes through `Module::parse`, against a standalone validator.
use crate::decode;
use crate::gen::{self, GenCfg};
use crate::modtext;
use crate::out;
use crate::rng::Rng;
use walrus::ModuleConfig;

fn mutate(rng: &mut Rng, wasm: &[u8]) -> (Vec<u8>, &'static str) {
    let mut w = wasm.to_vec();
    if w.len() < 10 {
        return (w, "none");
    }
    match rng.below(13) {
        12 => start_edit(rng, &w),
        9 | 10 => body_edit(rng, &w),
        11 => custom_count(rng, &w),
        0 => {
            let n = rng.range(0, (w.len() - 1) as u64) as usize;
            w.truncate(n);
            (w, "truncate")
        }
        1 => {
            let n = rng.range(8, (w.len() - 1) as u64) as usize;
            w[n] ^= 1 << rng.below(8);
            (w, "bitflip")
        }
        2 => {
            let n = rng.range(8, (w.len() - 1) as u64) as usize;
            w[n] = rng.next() as u8;
            (w, "byte")
        }
        3 => {
            // splice a random slice somewhere else
            let a = rng.range(8, (w.len() - 1) as u64) as usize;
            let b = rng.range(a as u64, (w.len() - 1) as u64) as usize;
            let at = rng.range(8, (w.len() - 1) as u64) as usize;
            let slice = w[a..b].to_vec();
            for (k, x) in slice.into_iter().enumerate() {
                w.insert(at + k, x);
            }
            (w, "splice")
        }
        4 => {
            // duplicate or swap sections
            let secs = section_spans(&w);
            if secs.len() >= 2 {
                let i = rng.below(secs.len() as u64) as usize;
                let j = rng.below(secs.len() as u64) as usize;
                let (a, b) = (secs[i], secs[j]);
                let mut out = w[..8].to_vec();
                for (k, s) in secs.iter().enumerate() {
                    if k == i {
                        out.extend_from_slice(&w[b.0..b.1]);
                    } else if k == j {
                        out.extend_from_slice(&w[a.0..a.1]);
                    } else {
                        out.extend_from_slice(&w[s.0..s.1]);
                    }
                }
                return (out, "swap-sections");
            }
            (w, "none")
        }
        5 => {
            let secs = section_spans(&w);
            if !secs.is_empty() {
                let s = *rng.pick(&secs);
                let dup = w[s.0..s.1].to_vec();
                w.extend_from_slice(&dup);
                return (w, "duplicate-section");
            }
            (w, "none")
        }
        6 => {
            // corrupt a section size field
            let secs = section_spans(&w);
            if !secs.is_empty() {
                let s = *rng.pick(&secs);
                w[s.0 + 1] = w[s.0 + 1].wrapping_add(rng.range(1, 3) as u8);
                return (w, "section-size");
            }
            (w, "none")
        }
        7 => {
            w.extend_from_slice(&[rng.next() as u8, rng.next() as u8, rng.next() as u8]);
            (w, "append-garbage")
        }
        _ => {
            // an unknown / unsupported section id
            let id = *rng.pick(&[13u8, 14, 20, 127]);
            w.extend_from_slice(&[id, 1, 0]);
            (w, "unknown-section")
        }
    }
}

/// the start section is rewritten to name another function (or one is inserted where the format
/// wants it): the index stays small, so it is mostly in range, and the function it names mostly
/// does not have the type `[] -> []` a start function must have - validity is wasmparser's verdict
fn start_edit(rng: &mut Rng, w: &[u8]) -> (Vec<u8>, &'static str) {
    let secs = section_spans(w);
    let idx = rng.below(6) as u8;
    let mut out = w[..8.min(w.len())].to_vec();
    let mut done = false;
    for s in &secs {
        let id = w[s.0];
        if !done && id == 8 {
            out.extend_from_slice(&[8, 1, idx]);
            done = true;
            continue;
        }
        if !done && matches!(id, 9 | 10 | 11 | 12) {
            out.extend_from_slice(&[8, 1, idx]);
            done = true;
        }
        out.extend_from_slice(&w[s.0..s.1]);
    }
    if !done {
        out.extend_from_slice(&[8, 1, idx]);
    }
    (out, "start-edit")
}

/// a `producers` or `name` custom section whose declared element count is far larger than what
/// follows (walrus reads both sections itself; the count is not validated by anyone before that).
/// The module stays valid - the content of these sections is not subject to validation - so the
/// gate has to accept it, without dying on the way.
fn custom_count(rng: &mut Rng, w: &[u8]) -> (Vec<u8>, &'static str) {
    let huge: &[u8] = match rng.below(3) {
        0 => &[0xff, 0xff, 0xff, 0xff, 0x0f],
        1 => &[0x80, 0x80, 0x80, 0x80, 0x04],
        _ => &[0xff, 0xff, 0xff, 0x7f],
    };
    let mut payload: Vec<u8> = vec![];
    let name: &str;
    let kind: &'static str;
    if rng.chance(1, 2) {
        name = "producers";
        kind = "producers-count";
        match rng.below(3) {
            0 => payload.extend_from_slice(huge),
            1 => {
                // one field with a huge value count
                payload.push(1);
                payload.extend_from_slice(&[8]);
                payload.extend_from_slice(b"language");
                payload.extend_from_slice(huge);
            }
            _ => {
                payload.extend_from_slice(huge);
                payload.extend_from_slice(&[3]);
                payload.extend_from_slice(b"sdk");
                payload.extend_from_slice(&[1, 1, b'x', 1, b'1']);
            }
        }
    } else {
        name = "name";
        kind = "name-count";
        // subsection 1 (functions), 2 (locals) or 7 (globals) with a huge count
        let sub = *rng.pick(&[1u8, 2, 7, 4]);
        let mut body: Vec<u8> = huge.to_vec();
        if rng.chance(1, 2) {
            body.extend_from_slice(&[0, 1, b'f']);
        }
        payload.push(sub);
        leb(body.len(), &mut payload);
        payload.extend_from_slice(&body);
    }
    let mut sec = vec![];
    leb(name.len(), &mut sec);
    sec.extend_from_slice(name.as_bytes());
    sec.extend_from_slice(&payload);
    let mut out = w.to_vec();
    // drop an existing section of that name (the name section may appear once)
    let spans = section_spans(&out);
    for (a, b) in spans.into_iter().rev() {
        if out[a] == 0 {
            let mut p = a + 1;
            while out[p] & 0x80 != 0 {
                p += 1;
            }
            p += 1;
            let nl = out[p] as usize;
            if p + 1 + nl <= b && &out[p + 1..p + 1 + nl] == name.as_bytes() {
                out.drain(a..b);
            }
        }
    }
    out.push(0);
    leb(sec.len(), &mut out);
    out.extend_from_slice(&sec);
    (out, kind)
}

fn leb(mut n: usize, out: &mut Vec<u8>) {
    loop {
        let b = (n & 0x7f) as u8;
        n >>= 7;
        if n == 0 {
            out.push(b);
            break;
        }
        out.push(b | 0x80);
    }
}

/// structure-aware edit of one function body: a short, well-encoded operator snippet is inserted
/// after the final `end`, just before it, or right after the local declarations; all size fields
/// are recomputed, so the module is well-formed at the section level and wrong only (if at all) at
/// the level the operator validator decides
fn body_edit(rng: &mut Rng, w: &[u8]) -> (Vec<u8>, &'static str) {
    use wasmparser::{Parser, Payload};
    let mut code_span: Option<(usize, usize)> = None; // whole section incl. id and size
    let mut bodies: Vec<(usize, usize, usize)> = vec![]; // body start, end, position after the locals
    for p in Parser::new(0).parse_all(w) {
        match p {
            Ok(Payload::CodeSectionStart { range, .. }) => {
                // walk back over the size LEB and the id byte
                let mut q = range.start;
                let mut lebs = 0;
                while q > 0 && lebs < 5 {
                    // the size LEB ends right before range.start; its first byte follows the id 0x0a
                    q -= 1;
                    lebs += 1;
                    if q >= 1 && w[q - 1] == 0x0a {
                        // candidate: check that the LEB at q decodes to the section length
                        let (mut v, mut sh, mut k) = (0usize, 0, q);
                        while k < w.len() {
                            v |= ((w[k] & 0x7f) as usize) << sh;
                            sh += 7;
                            k += 1;
                            if w[k - 1] & 0x80 == 0 {
                                break;
                            }
                        }
                        if k == range.start && v == range.end - range.start {
                            code_span = Some((q - 1, range.end));
                            break;
                        }
                    }
                }
            }
            Ok(Payload::CodeSectionEntry(b)) => {
                let r = b.range();
                let after_locals = b.get_operators_reader().map(|o| o.original_position()).unwrap_or(r.start);
                bodies.push((r.start, r.end, after_locals));
            }
            Ok(_) => {}
            Err(_) => return (w.to_vec(), "none"),
        }
    }
    let (Some((s0, s1)), false) = (code_span, bodies.is_empty()) else { return (w.to_vec(), "none") };
    // the last three are encodings only the multi-memory / memory64 proposals allow, naming memory 0
    // with a 32-bit offset all the same: a memarg with flag bit 6 and an explicit memory index, a
    // `memory.size` whose index is a two-byte LEB, a memarg offset in a six-byte LEB. Valid by
    // default, malformed under `only_stable_features`.
    let snippets: [&[u8]; 10] = [
        &[0x41, 0x07, 0x1a],
        &[0x01],
        &[0x0b],
        &[0x41, 0x07],
        &[0x00],
        &[0x1a],
        &[0x01, 0x0b],
        &[0x41, 0x00, 0x28, 0x42, 0x00, 0x00, 0x1a],
        &[0x3f, 0x80, 0x00, 0x1a],
        &[0x41, 0x00, 0x28, 0x02, 0x80, 0x80, 0x80, 0x80, 0x80, 0x00, 0x1a],
    ];
    let snip = *rng.pick(&snippets);
    let which = rng.below(bodies.len() as u64) as usize;
    let place = rng.below(3);
    let mut content = vec![];
    leb(bodies.len(), &mut content);
    for (i, (a, b, al)) in bodies.iter().enumerate() {
        let mut body = w[*a..*b].to_vec();
        if i == which {
            let at = match place {
                0 => body.len(),
                1 => body.len() - 1,
                _ => al - a,
            };
            for (k, x) in snip.iter().enumerate() {
                body.insert(at + k, *x);
            }
        }
        leb(body.len(), &mut content);
        content.extend_from_slice(&body);
    }
    let mut out = w[..s0].to_vec();
    out.push(0x0a);
    leb(content.len(), &mut out);
    out.extend_from_slice(&content);
    out.extend_from_slice(&w[s1..]);
    (out, match place { 0 => "operators-after-final-end", 1 => "operators-before-final-end", _ => "operators-at-body-start" })
}

fn section_spans(w: &[u8]) -> Vec<(usize, usize)> {
    let mut v = vec![];
    let mut p = 8;
    while p < w.len() {
        let start = p;
        p += 1;
        let mut size = 0usize;
        let mut shift = 0;
        loop {
            if p >= w.len() {
                return v;
            }
            let b = w[p];
            p += 1;
            size |= ((b & 0x7f) as usize) << shift;
            shift += 7;
            if b & 0x80 == 0 || shift > 28 {
                break;
            }
        }
        if p + size > w.len() {
            return v;
        }
        p += size;
        v.push((start, p));
    }
    v
}

#[derive(Default)]
struct Stats {
    cases: usize,
    accepted: usize,
    rejected: usize,
    kinds: std::collections::BTreeMap<&'static str, (usize, usize)>,
    samples: usize,
    stable_differs: usize,
    trace: bool,
}

fn run_bytes(case: &str, kind: &'static str, bytes: &[u8], stats: &mut Stats) {
    let only = out::hex(bytes);
    if stats.trace {
        // (worker re-run after the process died: the last line of this kind names the input)
        use std::io::Write;
        println!("T\t{}\t{}\t{}", case, kind, only);
        std::io::stdout().flush().unwrap();
    }
    for stable in [false, true] {
        let want = decode::validate(bytes, decode::walrus_features(stable));
        let mut cfg = ModuleConfig::new();
        cfg.only_stable_features(stable);
        let got = out::catch(|| cfg.parse(bytes).map(|_| ()));
        stats.cases += 1;
        let e = stats.kinds.entry(kind).or_insert((0, 0));
        let cname = format!("{}{}", case, if stable { ".stable" } else { "" });
        match (&got, &want) {
            (Err(p), _) => {
                out::oracle(&cname, false, "C05:parse-panic", &format!("[{} only_stable={}] parse panicked: {} | only: {}", kind, stable, &p[..p.len().min(160)], only));
                continue;
            }
            (Ok(Ok(())), Err(e2)) => {
                out::oracle(&cname, false, "C05:accepts-invalid", &format!("[{} only_stable={}] walrus accepts bytes the reference validator rejects: {} | only: {}", kind, stable, e2, only));
                continue;
            }
            (Ok(Err(e2)), Ok(())) => {
                out::oracle(&cname, false, "C05:rejects-valid", &format!("[{} only_stable={}] walrus rejects a module the reference validator accepts: {:#} | only: {}", kind, stable, e2, only));
                continue;
            }
            (Ok(Ok(())), Ok(())) => {
                stats.accepted += 1;
                e.0 += 1;
            }
            (Ok(Err(_)), Err(_)) => {
                stats.rejected += 1;
                e.1 += 1;
            }
        }
        out::oracle(&cname, true, "", "");
    }
    let a = decode::validate(bytes, decode::walrus_features(false)).is_ok();
    let b = decode::validate(bytes, decode::walrus_features(true)).is_ok();
    if a != b {
        stats.stable_differs += 1;
    }
    // correspondence: on valid inputs the model's round trip must not panic either (and predict the output)
    if a {
        if let Ok(m) = decode::decode(bytes) {
            if let Ok(Ok(outb)) = out::catch(|| walrus::Module::from_buffer(bytes).map(|mut m| m.emit_wasm())) {
                if let Ok(b2) = decode::decode(&outb) {
                    out::corr(case, true, &format!("module {}", modtext::module_text(&m, false, true)), &modtext::module_text(&b2, false, true));
                }
            }
        }
    }
    if stats.samples < 3 && bytes.len() < 80 {
        out::sample(&format!("[{}] {} bytes: {}", kind, bytes.len(), only));
        stats.samples += 1;
    }
}

pub fn deep(depth: usize) {
    // 10^5 nested blocks / ifs; parse (and emit) on a 256 KiB stack
    use wasm_encoder::*;
    let mut m = wasm_encoder::Module::new();
    let mut t = TypeSection::new();
    t.function([], []);
    m.section(&t);
    let mut fs = FunctionSection::new();
    fs.function(0);
    m.section(&fs);
    let mut code = CodeSection::new();
    let mut f = Function::new([]);
    for k in 0..depth {
        if k % 2 == 0 {
            f.instruction(&Instruction::Block(BlockType::Empty));
        } else {
            f.instruction(&Instruction::I32Const(0));
            f.instruction(&Instruction::If(BlockType::Empty));
        }
    }
    for _ in 0..depth {
        f.instruction(&Instruction::End);
    }
    f.instruction(&Instruction::End);
    code.function(&f);
    m.section(&code);
    let wasm = m.finish();
    let h = std::thread::Builder::new()
        .stack_size(256 * 1024)
        .spawn(move || {
            let t0 = std::time::Instant::now();
            let r = walrus::Module::from_buffer(&wasm).map(|mut m| m.emit_wasm().len());
            (r.is_ok(), t0.elapsed().as_secs())
        })
        .unwrap();
    let (ok, secs) = h.join().expect("thread died");
    println!("DEEPGATE {} {} {}", depth, ok, secs);
}

fn run_range(seed: u64, from: usize, to: usize, stats: &mut Stats) {
    for case in from..to {
        let mut rng = Rng::new(seed ^ 0x6a7e, case as u64);
        match case % 6 {
            0 => {
                // random bytes, with and without a plausible header
                let len = rng.below(64) as usize;
                let mut b: Vec<u8> = if rng.chance(2, 3) { vec![0, 0x61, 0x73, 0x6d, 1, 0, 0, 0] } else { vec![] };
                for _ in 0..len {
                    b.push(if rng.chance(1, 3) { rng.below(12) as u8 } else { rng.next() as u8 });
                }
                run_bytes(&format!("r{}", case), "random", &b, stats);
            }
            1 => {
                let mut g = GenCfg::random(&mut rng);
                g.extern_elem_global = false;
                g.max_funcs = 4;
                let (wasm, _) = gen::gen_valid(&mut rng, &g);
                run_bytes(&format!("v{}", case), "valid", &wasm, stats);
            }
            _ => {
                let mut g = if case % 2 == 0 { GenCfg::mvp() } else { GenCfg::random(&mut rng) };
                g.extern_elem_global = false;
                g.max_funcs = 4;
                g.max_stmts = 3;
                let (wasm, _) = gen::gen_valid(&mut rng, &g);
                let (mut w, mut kind) = mutate(&mut rng, &wasm);
                if rng.chance(1, 4) {
                    let (w2, k2) = mutate(&mut rng, &w);
                    w = w2;
                    kind = k2;
                }
                run_bytes(&format!("m{}", case), kind, &w, stats);
            }
        }
    }
}

fn print_stats(stats: &Stats) {
    out::stat("gate.verdicts", stats.cases);
    out::stat("gate.accepted", stats.accepted);
    out::stat("gate.rejected", stats.rejected);
    out::stat("gate.inputs_where_only_stable_changes_the_verdict", stats.stable_differs);
    for (k, (a, r)) in &stats.kinds {
        out::stat(&format!("gate.{}.accepted", k), *a);
        out::stat(&format!("gate.{}.rejected", k), *r);
    }
}

pub fn main(seed: u64, tier: &str, only: Option<&str>) {
    let mut stats = Stats::default();
    if let Some(o) = only {
        run_bytes("replay", "replay", &out::unhex(o), &mut stats);
        return;
    }
    let n = if tier == "thorough" { 30000 * crate::out::thorough_scale() } else { 1200 };
    // worker: a range of cases, in this process
    if let Ok(r) = std::env::var("VERIF_GATE_RANGE") {
        let (a, b) = r.split_once(':').unwrap();
        stats.trace = std::env::var("VERIF_GATE_TRACE").is_ok();
        run_range(seed, a.parse().unwrap(), b.parse().unwrap(), &mut stats);
        print_stats(&stats);
        return;
    }
    // parent: the cases run in worker processes, because what the property excludes includes ways of
    // dying that no `catch_unwind` sees (allocation failure, stack overflow, abort). A worker that
    // dies is run again with a trace to name the input it died on, which is reported, and the rest
    // of its range is run after it.
    let exe = std::env::current_exe().unwrap();
    let workers = 8usize;
    let per = (n + workers - 1) / workers;
    let handles: Vec<_> = (0..workers)
        .map(|w| {
            let exe = exe.clone();
            let tier = tier.to_string();
            std::thread::spawn(move || {
                let mut text = String::new();
                let (mut from, to) = (w * per, ((w + 1) * per).min(n));
                let mut deaths = 0;
                while from < to {
                    let run = |trace: bool| {
                        let mut c = std::process::Command::new(&exe);
                        c.args(["gate", "--tier", &tier]).env("VERIF_GATE_RANGE", format!("{}:{}", from, to));
                        if trace {
                            c.env("VERIF_GATE_TRACE", "1");
                        }
                        c.output().expect("spawn gate worker")
                    };
                    let o = run(false);
                    if o.status.success() {
                        text.push_str(&String::from_utf8_lossy(&o.stdout));
                        break;
                    }
                    deaths += 1;
                    let t = run(true);
                    let tout = String::from_utf8_lossy(&t.stdout).to_string();
                    let last = tout.lines().filter(|l| l.starts_with("T\t")).last().map(|l| l.to_string());
                    // verdicts of the cases before the fatal one
                    for l in tout.lines() {
                        if !l.starts_with("T\t") && !l.starts_with("S\t") {
                            text.push_str(l);
                            text.push('\n');
                        }
                    }
                    let Some(last) = last else { break };
                    let f: Vec<&str> = last.split('\t').collect();
                    let err = String::from_utf8_lossy(&t.stderr);
                    text.push_str(&format!(
                        "O\t{}\tFAIL\tC05:process-died\t[{}] the process died while parsing ({:?}; {}) | only: {}\n",
                        f[1],
                        f[2],
                        t.status,
                        err.lines().last().unwrap_or("").replace('\t', " "),
                        f[3]
                    ));
                    let idx: usize = f[1][1..].parse().unwrap_or(to);
                    from = idx + 1;
                    if deaths >= 5 {
                        break;
                    }
                }
                text
            })
        })
        .collect();
    for h in handles {
        print!("{}", h.join().unwrap());
    }
    // deep nesting in a subprocess (a stack overflow aborts the process)
    let exe = std::env::current_exe().unwrap();
    let depth = 100_000usize;
    let t0 = std::time::Instant::now();
    let o = std::process::Command::new(exe).args(["gate-deep", &depth.to_string()]).output();
    let ok = match &o {
        Ok(o) => o.status.success() && String::from_utf8_lossy(&o.stdout).contains(&format!("DEEPGATE {} true", depth)),
        Err(_) => false,
    };
    out::oracle("deep", ok && t0.elapsed().as_secs() < 120, "C05:deep-nesting", &format!("nesting depth {} on a 256 KiB stack: {}", depth, o.map(|o| format!("status {:?} {}", o.status.code(), String::from_utf8_lossy(&o.stdout).trim().to_string())).unwrap_or("spawn failed".into())));
    let _ = stats;
}
