//! Suite `offsets` (C11): the `CodeTransform` handed to custom sections.
use crate::code;
use crate::decode::{self, AMod, AOp, Space};
use crate::gen::{self, GenCfg};
use crate::out;
use crate::rng::Rng;
use std::borrow::Cow;
use std::sync::{Arc, Mutex};
use walrus::{CodeTransform, CustomSection, IdsToIndices, Module, ModuleConfig};

#[derive(Default, Debug, Clone)]
pub struct Seen {
    pub calls: usize,
    pub map: Vec<(u32, usize)>,
    pub start: usize,
    pub ranges: Vec<(walrus::FunctionId, usize, usize)>,
    /// output function index of every range id, as `IdsToIndices` reports it in `data()`
    pub range_index: Vec<u32>,
}

#[derive(Debug)]
pub struct Spy(pub Arc<Mutex<Seen>>);
impl CustomSection for Spy {
    fn name(&self) -> &str {
        "verif.spy"
    }
    fn data(&self, ids: &IdsToIndices) -> Cow<[u8]> {
        let mut s = self.0.lock().unwrap();
        let idx: Vec<u32> = s.ranges.iter().map(|r| ids.get_func_index(r.0)).collect();
        s.range_index = idx;
        Cow::Borrowed(&[])
    }
    fn apply_code_transform(&mut self, t: &CodeTransform) {
        let mut s = self.0.lock().unwrap();
        s.calls += 1;
        s.map = t.instruction_map.iter().map(|(l, o)| (if l.is_default() { u32::MAX } else { l.data() }, *o)).collect();
        s.start = t.code_section_start;
        s.ranges = t.function_ranges.iter().map(|(id, r)| (*id, r.start, r.end)).collect();
    }
}

#[derive(Clone, Copy, PartialEq, Debug)]
pub enum Variant {
    Unchanged,
    Inserted,
    Gc,
}

/// per input function: the elided operator stream with the input offset of each operator; the
/// completed `else` of an `if` without `else` carries the offset of the `end` it stands for, and
/// that `end` itself is marked as having no input location of its own
fn elided_with_offsets(body: &[AOp]) -> Vec<(Option<usize>, &'static str)> {
    let e = code::elide(body);
    let mut out: Vec<(Option<usize>, &'static str)> = vec![];
    for (k, op) in e.iter().enumerate() {
        let synthetic_end = op.name == "End" && k > 0 && e[k - 1].name == "Else" && e[k - 1].offset == op.offset;
        out.push((if synthetic_end { None } else { Some(op.offset) }, op.name));
    }
    out
}

pub fn run_case(case: &str, wasm: &[u8], variant: Variant, stats: &mut Stats) {
    run_case_cfg(case, wasm, variant, false, stats)
}

/// `dwarf`: DWARF generation switched on as well (the map handed to custom sections must not depend
/// on it)
pub fn run_case_cfg(case: &str, wasm: &[u8], variant: Variant, dwarf: bool, stats: &mut Stats) {
    let only = format!("{:?}{} {}", variant, if dwarf { "+D" } else { "" }, out::hex(wasm));
    let Ok(a) = decode::decode(wasm) else { return };
    let seen = Arc::new(Mutex::new(Seen::default()));
    let mut cfg = ModuleConfig::new();
    cfg.preserve_code_transform(true);
    cfg.generate_dwarf(dwarf);
    let parsed = out::catch(|| cfg.parse(wasm));
    let Ok(Ok(mut m)) = parsed else {
        out::oracle(case, false, "C05:valid-module-rejected-or-panic", &format!("parse failed | only: {}", only));
        return;
    };
    m.customs.add(Spy(seen.clone()));
    // edits
    // input local-function ordinal -> (position among the surviving operators of the function, number
    // of operators inserted there). The two operators go to the start of the entry sequence, behind
    // its first instruction (when that is a plain one) or to its end, in turn: an inserted
    // instruction has parsed neighbours on either side in the last two cases.
    let mut inserted: std::collections::HashMap<usize, (usize, usize)> = Default::default();
    let ni = a.n_imported(Space::Func) as usize;
    if variant == Variant::Inserted {
        let ids: Vec<_> = m.funcs.iter_local().map(|(id, _)| id).collect();
        for (k, id) in ids.iter().enumerate() {
            if k % 2 == 0 {
                let ord = id.index() - ni;
                let survivors = a.code.get(ord).map(|c| elided_with_offsets(&c.ops).len()).unwrap_or(1);
                let f = m.funcs.get_mut(*id).kind.unwrap_local_mut();
                let entry = f.entry_block();
                let len = f.block(entry).instrs.len();
                let first_is_plain = f.block(entry).instrs.first().map(|(i, _)| !matches!(i, walrus::ir::Instr::Block(_) | walrus::ir::Instr::Loop(_) | walrus::ir::Instr::IfElse(_))).unwrap_or(false);
                let (pos, flat) = match (k / 2) % 3 {
                    1 if first_is_plain => (1, 1),
                    2 => (len, survivors.saturating_sub(1)),
                    _ => (0, 0),
                };
                f.builder_mut().instr_seq(entry).drop_at(pos).const_at(pos, walrus::ir::Value::I32(7));
                inserted.insert(ord, (flat, 2));
                stats.insert_positions[if pos == 0 { 0 } else if pos == len { 2 } else { 1 }] += 1;
            }
        }
    }
    if variant == Variant::Gc {
        walrus::passes::gc::run(&mut m);
    }
    let bytes = match out::catch(|| m.emit_wasm()) {
        Ok(b) => b,
        Err(p) => {
            out::oracle(case, false, "C02:emit-panic", &format!("emit panicked: {} | only: {}", p, only));
            return;
        }
    };
    let s = seen.lock().unwrap().clone();
    let b = decode::decode(&bytes).expect("decode output");
    stats.cases += 1;
    stats.pairs += s.map.len();

    // ---- correspondence (unchanged variant only: the model parses the input itself)
    if variant == Variant::Unchanged && !b.code.is_empty() {
        let (cs, ce) = b.code_section_range.unwrap();
        let prefix = cs - decode::leb_len((ce - cs) as u64) - 1;
        let mut req = format!("offsets {} x", prefix);
        for body in &b.code {
            let mut lens = vec![];
            for (k, op) in body.ops.iter().enumerate() {
                let end = body.ops.get(k + 1).map(|o| o.offset).unwrap_or(body.body_range.1);
                lens.push((end - op.offset).to_string());
            }
            let decl = body.ops.first().map(|o| o.offset).unwrap_or(body.body_range.1) - body.body_range.0;
            req.push_str(&format!(" B {}:{}", decl, lens.join(",")));
        }
        req.push_str(" || ");
        req.push_str(code::request(&a).strip_prefix("code ").unwrap());
        let obs = format!(
            "start={} ranges={} map={}",
            s.start,
            s.ranges.iter().map(|r| format!("{}:{}-{}", r.0.index(), r.1, r.2)).collect::<Vec<_>>().join(","),
            s.map.iter().map(|p| format!("{}:{}", p.0, p.1)).collect::<Vec<_>>().join(",")
        );
        out::corr(case, a.code.len() > 1, &req, &obs);
        if stats.samples < 2 && req.len() < 700 {
            out::sample(&format!("{} => {}", req, obs));
            stats.samples += 1;
        }
    }

    // ---- oracle
    let mut fails: Vec<(String, String)> = vec![];
    if s.calls != 1 {
        fails.push(("C11:apply-count".into(), format!("apply_code_transform called {} times", s.calls)));
    }
    // expected pairs: elided input operator #idx of function k  <->  output operator #(idx + inserted) of its output function
    let mut expected: std::collections::HashMap<usize, usize> = Default::default();
    let mut out_starts: std::collections::HashSet<usize> = Default::default();
    for body in &b.code {
        for op in &body.ops {
            out_starts.insert(op.offset);
        }
    }
    // follow functions through the spy's id -> index map (ranges list every emitted local function)
    let mut out_of_in: std::collections::HashMap<usize, usize> = Default::default(); // input ordinal -> output ordinal
    let bni = b.n_imported(Space::Func) as usize;
    for (r, idx) in s.ranges.iter().zip(s.range_index.iter()) {
        if r.0.index() >= ni && (*idx as usize) >= bni {
            out_of_in.insert(r.0.index() - ni, *idx as usize - bni);
        }
    }
    for (k, body) in a.code.iter().enumerate() {
        let Some(&j) = out_of_in.get(&k) else { continue }; // function removed (GC)
        let e = elided_with_offsets(&body.ops);
        let (at, shift) = inserted.get(&k).copied().unwrap_or((0, 0));
        let ob = &b.code[j];
        if e.len() + shift != ob.ops.len() {
            fails.push(("C03:operator-count".into(), format!("function {}: {} operators expected, {} emitted", k, e.len() + shift, ob.ops.len())));
            continue;
        }
        for (idx, (off, _)) in e.iter().enumerate() {
            if let Some(off) = off {
                expected.entry(*off).or_insert(ob.ops[if idx < at { idx } else { idx + shift }].offset);
            }
        }
    }
    let in_starts: std::collections::HashSet<usize> = a.code.iter().flat_map(|c| c.ops.iter().map(|o| o.offset)).collect();
    let mut last_loc: Option<u32> = None;
    for (loc, off) in &s.map {
        if *loc == u32::MAX {
            fails.push(("C11:default-location-in-map".into(), "a pair for an instruction without an input location (inserted instruction)".into()));
            break;
        }
        if let Some(l) = last_loc {
            if *loc <= l {
                fails.push(("C11:map-not-sorted".into(), format!("locations not strictly increasing at {}", loc)));
                break;
            }
        }
        last_loc = Some(*loc);
        if !in_starts.contains(&(*loc as usize)) {
            fails.push(("C11:pair-for-non-instruction".into(), format!("input offset {} is not the start of an input instruction", loc)));
            break;
        }
        if !out_starts.contains(off) {
            fails.push(("C11:output-offset-not-instruction-start".into(), format!("pair ({}, {}): output offset is not the first byte of an instruction of the emitted binary", loc, off)));
            break;
        }
        match expected.get(&(*loc as usize)) {
            Some(want) if want == off => {}
            Some(want) => {
                fails.push(("C11:pair-points-at-other-instruction".into(), format!("pair ({}, {}): the same instruction starts at {} in the output", loc, off, want)));
                break;
            }
            None => {
                fails.push(("C11:pair-for-removed-instruction".into(), format!("pair ({}, {}) for an instruction that is not in the output (elided or its function removed)", loc, off)));
                break;
            }
        }
    }
    // function ranges
    let mut seen_out = std::collections::HashSet::new();
    for (r, idx) in s.ranges.iter().zip(s.range_index.iter()) {
        let j = *idx as usize;
        if j < bni || j - bni >= b.code.len() {
            fails.push(("C11:range-for-non-local-function".into(), format!("range for function index {}", j)));
            continue;
        }
        let ob = &b.code[j - bni];
        seen_out.insert(j);
        if (r.1, r.2) != ob.entry_range {
            fails.push(("C11:function-range".into(), format!("function id {} (output index {}): reported range {}..{}, its code-section entry is {}..{}", r.0.index(), j, r.1, r.2, ob.entry_range.0, ob.entry_range.1)));
            break;
        }
    }
    if s.range_index.len() == s.ranges.len() && seen_out.len() != b.code.len() {
        fails.push(("C11:function-range-missing".into(), format!("{} ranges for {} emitted functions", seen_out.len(), b.code.len())));
    }
    if let Some((cs, _)) = b.code_section_range {
        if s.start != cs {
            fails.push(("C11:code-section-start".into(), format!("reported code_section_start {} but the code section's contents (what code-relative debug addresses are measured from) start at {}; {} functions", s.start, cs, b.code.len())));
        }
    }
    if fails.is_empty() {
        out::oracle(case, true, "", "");
    } else {
        for (k, msg) in fails.iter().take(3) {
            out::oracle(case, false, k, &format!("[{:?}] {} | only: {}", variant, msg, only));
        }
    }
}

#[derive(Default)]
pub struct Stats {
    pub cases: usize,
    pub pairs: usize,
    pub samples: usize,
    /// insertions at the start / behind the first instruction / at the end of the entry sequence
    pub insert_positions: [usize; 3],
}

/// `n` tiny functions (count LEB boundaries) with bodies padded to `pad` bytes (size LEB boundaries)
pub fn many(n: usize, pad: usize) -> Vec<u8> {
    many_with_imports(n, pad, 0)
}

/// the same with `imports` imported functions in front (each called once by the first function, so
/// that they survive a GC run)
pub fn many_with_imports(n: usize, pad: usize, imports: usize) -> Vec<u8> {
    use wasm_encoder::*;
    let mut m = wasm_encoder::Module::new();
    let mut t = TypeSection::new();
    t.function([], []);
    m.section(&t);
    if imports > 0 {
        let mut im = ImportSection::new();
        for i in 0..imports {
            im.import("env", &format!("imp{}", i), EntityType::Function(0));
        }
        m.section(&im);
    }
    let mut fs = FunctionSection::new();
    for _ in 0..n {
        fs.function(0);
    }
    m.section(&fs);
    let mut ex = ExportSection::new();
    for i in 0..n {
        ex.export(&format!("__f{}", i), ExportKind::Func, (imports + i) as u32);
    }
    m.section(&ex);
    let mut code = CodeSection::new();
    for i in 0..n {
        let mut f = Function::new([]);
        // body bytes: 1 (locals count) + 3 per const/drop pair (small const) + 1 (end)
        let pairs = if i == 0 { pad.saturating_sub(2 + 2 * imports) / 3 } else { i % 3 };
        if i == 0 {
            for k in 0..imports {
                f.instruction(&Instruction::Call(k as u32));
            }
        }
        for k in 0..pairs {
            f.instruction(&Instruction::I32Const((k % 60) as i32));
            f.instruction(&Instruction::Drop);
        }
        f.instruction(&Instruction::End);
        code.function(&f);
    }
    m.section(&code);
    m.finish()
}

/// `n` functions with one (used) i32 local each; the body of function 0 is exactly `size` bytes
/// (local declaration included), so that body sizes sit on both sides of a LEB-length boundary
pub fn exact_with_locals(n: usize, size: usize) -> Vec<u8> {
    use wasm_encoder::*;
    let mut m = wasm_encoder::Module::new();
    let mut t = TypeSection::new();
    t.function([], []);
    m.section(&t);
    let mut fs = FunctionSection::new();
    for _ in 0..n {
        fs.function(0);
    }
    m.section(&fs);
    let mut ex = ExportSection::new();
    for i in 0..n {
        ex.export(&format!("__f{}", i), ExportKind::Func, i as u32);
    }
    m.section(&ex);
    let mut code = CodeSection::new();
    for i in 0..n {
        let mut f = Function::new([(1, ValType::I32)]);
        // body bytes: 3 (one group: count, n, type) + 3 per `local.get 0; drop`… + 1 (end)
        let target = if i == 0 { size } else { 7 + 3 * (i % 3) };
        // nothing walrus elides (the output body then has the input's size): 3-byte pairs
        // `i32.const 5; drop` and 4-byte pairs `i32.const 100; drop`
        let rem = target.saturating_sub(4 + 3);
        f.instruction(&Instruction::LocalGet(0));
        f.instruction(&Instruction::Drop);
        let four = rem % 3;
        let three = (rem - 4 * four.min(rem / 4)) / 3;
        for _ in 0..four.min(rem / 4) {
            f.instruction(&Instruction::I32Const(100));
            f.instruction(&Instruction::Drop);
        }
        for _ in 0..three {
            f.instruction(&Instruction::I32Const(5));
            f.instruction(&Instruction::Drop);
        }
        f.instruction(&Instruction::End);
        code.function(&f);
    }
    m.section(&code);
    m.finish()
}

pub fn main(seed: u64, tier: &str, only: Option<&str>) {
    let mut stats = Stats::default();
    if let Some(o) = only {
        let (v, h) = o.split_once(' ').unwrap();
        let dwarf = v.ends_with("+D");
        let v = match v.trim_end_matches("+D") {
            "Inserted" => Variant::Inserted,
            "Gc" => Variant::Gc,
            _ => Variant::Unchanged,
        };
        run_case_cfg("replay", &out::unhex(h), v, dwarf, &mut stats);
        return;
    }
    let n = if tier == "thorough" { 3000 * crate::out::thorough_scale() } else { 200 };
    for case in 0..n {
        let mut rng = Rng::new(seed ^ 0x0ff5, case as u64);
        let mut g = if case % 3 == 0 { GenCfg::mvp() } else { GenCfg::random(&mut rng) };
        g.export_all_funcs = true;
        g.import_mem64 = false;
        g.big_offsets = false;
        g.extern_elem_global = false;
        let (wasm, _) = gen::gen_valid(&mut rng, &g);
        let v = [Variant::Unchanged, Variant::Unchanged, Variant::Inserted, Variant::Gc][case % 4];
        run_case_cfg(&format!("o{}", case), &wasm, v, case % 5 == 1, &mut stats);
    }
    // LEB-length boundaries of the function count and of the body size
    let shapes: &[(usize, usize)] = if tier == "thorough" { &[(1, 10), (2, 126), (2, 127), (2, 128), (2, 129), (127, 10), (128, 10), (129, 10), (300, 16383), (300, 16384), (300, 16385), (16383, 4), (16384, 4)] } else { &[(1, 10), (2, 127), (2, 128), (127, 10), (128, 10), (129, 200)] };
    for (k, (nf, pad)) in shapes.iter().enumerate() {
        let wasm = many(*nf, *pad);
        for v in [Variant::Unchanged, Variant::Inserted] {
            run_case(&format!("many{}-{:?}", k, v), &wasm, v, &mut stats);
        }
    }
    // the same boundaries with imported functions in front of the local ones (the function index
    // space is then larger than the code section's entry count)
    let ishapes: &[(usize, usize, usize)] = if tier == "thorough" { &[(125, 10, 3), (126, 10, 3), (127, 10, 3), (127, 10, 1), (128, 10, 2), (2, 127, 2), (16382, 4, 3)] } else { &[(126, 10, 3), (127, 10, 1), (2, 127, 2)] };
    for (k, (nf, pad, ni)) in ishapes.iter().enumerate() {
        let wasm = many_with_imports(*nf, *pad, *ni);
        for v in [Variant::Unchanged, Variant::Inserted, Variant::Gc] {
            run_case(&format!("imany{}-{:?}", k, v), &wasm, v, &mut stats);
        }
    }
    let eshapes: &[usize] = if tier == "thorough" { &[63, 64, 65, 127, 128, 129, 16383, 16384, 16385] } else { &[64, 127, 128, 129] };
    for (k, size) in eshapes.iter().enumerate() {
        let wasm = exact_with_locals(3, *size);
        for v in [Variant::Unchanged, Variant::Inserted] {
            run_case(&format!("exact{}-{:?}", k, v), &wasm, v, &mut stats);
        }
    }
    out::stat("offsets.cases", stats.cases);
    out::stat("offsets.pairs_checked", stats.pairs);
    out::stat("offsets.insertions_at_start", stats.insert_positions[0]);
    out::stat("offsets.insertions_behind_the_first_instruction", stats.insert_positions[1]);
    out::stat("offsets.insertions_at_the_end", stats.insert_positions[2]);
}
