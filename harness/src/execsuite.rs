//! C01 / C06 (behaviour): the input binary and walrus's output are decoded independently and run
//! side by side by the Lean interpreter (`Walrus/Sem.lean`, `Walrus/Run.lean`) on the same call
//! script; the observations (instantiation outcome, results and traps of every call, host-call
//! trace, exported state) must be the same text.
use crate::decode;
use crate::gen::{self, GenCfg};
use crate::model;
use crate::modtext;
use crate::out;
use crate::rng::Rng;
use walrus::ModuleConfig;

#[derive(Clone, Copy, Debug, PartialEq)]
enum Pass {
    None,
    Gc,
}

struct Case {
    name: String,
    only: String,
    pass: Pass,
    req_in: String,
    req_out: String,
    corr: Option<(String, String)>,
    tie: Option<String>,
    rentie: Option<String>,
    big_offset: bool,
}

fn prepare(name: &str, wasm: &[u8], pass: Pass, seed: u64, rounds: usize, gas: usize) -> Result<Case, (String, String)> {
    let only = format!("{:?} {} {}", pass, seed, out::hex(wasm));
    let a = decode::decode(wasm).map_err(|e| ("skip".to_string(), e.to_string()))?;
    let mut cfg = ModuleConfig::new();
    cfg.generate_name_section(true);
    cfg.generate_producers_section(false);
    let mut m = match out::catch(|| cfg.parse(wasm)) {
        Ok(Ok(m)) => m,
        _ => return Err(("C05:valid-module-rejected-or-panic".into(), format!("parse failed | only: {}", only))),
    };
    let bytes = match out::catch(|| {
        if pass == Pass::Gc {
            walrus::passes::gc::run(&mut m);
        }
        m.emit_wasm()
    }) {
        Ok(b) => b,
        Err(p) => return Err(("C02:emit-panic".into(), format!("emit panicked: {} | only: {}", &p[..p.len().min(120)], only))),
    };
    let b = decode::decode(&bytes).map_err(|e| ("C02:invalid-output".to_string(), format!("{} | only: {}", e, only)))?;
    // the input validates (and instantiates); an output that does not validate cannot be instantiated at
    // all, whatever its functions would compute: that is a difference in behaviour, not only of C02
    if let Err(e) = decode::validate(&bytes, decode::walrus_features(false)) {
        let prop = std::env::var("VERIF_PROPERTY").unwrap_or_default();
        let key = if prop == "C01" || prop == "C06" { format!("{}:output-does-not-validate", prop) } else { "C02:invalid-output".to_string() };
        return Err((key, format!("the input validates, the output does not and so cannot be instantiated: {} | only: {}", e, only)));
    }
    let ta = modtext::module_text(&a, false, false);
    let tb = modtext::module_text(&b, false, false);
    let corr = if pass == Pass::None {
        Some((format!("module {}", modtext::module_text(&a, false, true)), modtext::module_text(&b, false, true)))
    } else {
        Some((format!("gc {}", modtext::module_text(&a, false, true)), modtext::module_text(&b, false, true)))
    };
    Ok(Case {
        name: name.to_string(),
        only,
        pass,
        req_in: format!("exec {} {} {} {}", seed, rounds, gas, ta),
        req_out: format!("exec {} {} {} {}", seed, rounds, gas, tb),
        corr,
        tie: if pass == Pass::None { Some(format!("elidetie {} || {}", ta, tb)) } else { None },
        rentie: if pass == Pass::None { Some(format!("rentie {} {} {} {} || {}", seed, rounds, gas, ta, tb)) } else { None },
        big_offset: a.code.iter().any(|b| b.ops.iter().any(|o| {
            o.args.windows(3).any(|w| matches!((&w[0], &w[1], &w[2]), (decode::Arg::Imm(_), decode::Arg::Imm(off), decode::Arg::Ref(decode::Space::Mem, _)) if off.parse::<u64>().map(|v| v >= 1 << 32).unwrap_or(false)))
        })),
    })
}

#[derive(Default)]
struct Stats {
    modules: usize,
    inst_fail: usize,
    calls_ok: usize,
    calls_trap: usize,
    calls_oog: usize,
    calls_unsup: usize,
    host_calls: usize,
    with_state: usize,
    escalated: usize,
    escalation_cap: usize,
    found_diff: bool,
    distinct: std::collections::HashSet<String>,
}

fn account(obs: &str, st: &mut Stats) {
    st.modules += 1;
    if !obs.starts_with("instantiate: ok") {
        st.inst_fail += 1;
        return;
    }
    for item in obs.split("; ") {
        if item.starts_with("trace: ") {
            st.host_calls += item.split(' ').count() - 1;
        } else if item.starts_with("state: ") {
            if item.len() > 7 {
                st.with_state += 1;
            }
        } else if item.contains("=>trap:") {
            st.calls_trap += 1;
        } else if item.contains("=>out-of-gas") {
            st.calls_oog += 1;
        } else if item.contains("=>unsupported:") {
            st.calls_unsup += 1;
        } else if item.contains("=>") {
            st.calls_ok += 1;
        }
    }
}

fn first_diff(a: &str, b: &str) -> String {
    let (x, y): (Vec<&str>, Vec<&str>) = (a.split("; ").collect(), b.split("; ").collect());
    for i in 0..x.len().max(y.len()) {
        let (p, q) = (x.get(i).copied().unwrap_or("<end>"), y.get(i).copied().unwrap_or("<end>"));
        if p != q {
            let cut = |s: &str| s.chars().take(300).collect::<String>();
            return format!("item {}: input <{}> output <{}>", i, cut(p), cut(q));
        }
    }
    "same".into()
}

fn judge(cases: Vec<Case>, prop: &str, stats: &mut Stats) {
    let mut reqs = vec![];
    for c in &cases {
        reqs.push(c.req_in.clone());
        reqs.push(c.req_out.clone());
    }
    let ans = model::ask(&reqs);
    // one batch of probes: does the model still predict each output, and is it the elision of the input?
    let mut probes = vec![];
    let mut probe_at = vec![];
    for c in cases.iter() {
        probe_at.push(probes.len());
        if let Some((rq, _)) = &c.corr {
            probes.push(rq.clone());
        }
        if let Some(t) = &c.tie {
            probes.push(t.clone());
        }
    }
    let probe_ans = model::ask(&probes);
    for (i, c) in cases.iter().enumerate() {
        let (oi, oo) = (&ans[2 * i], &ans[2 * i + 1]);
        account(oi, stats);
        if std::env::var("VERIF_DUMP").is_ok() {
            eprintln!("{}\t{}", c.name, oi);
        }
        let nontrivial = oi.starts_with("instantiate: ok") && oi.contains("=>");
        if nontrivial {
            stats.distinct.insert(c.req_in.clone());
        }
        if let Some((rq, ob)) = &c.corr {
            out::corr(&c.name, nontrivial, rq, ob);
        }
        if let Some(t) = &c.tie {
            out::corr(&format!("{}.tie", c.name), nontrivial, t, "elide-ok");
        }
        if let Some(t) = &c.rentie {
            out::corr(&format!("{}.ren", c.name), nontrivial, t, "ren-ok");
        }
        // C06: modules whose original instantiation fails are not compared
        if c.pass == Pass::Gc && !oi.starts_with("instantiate: ok") {
            out::oracle(&c.name, true, "", "");
            continue;
        }
        let (mut oi, mut oo) = (oi.clone(), oo.clone());
        if oi == oo {
            // the search the brief asks for: when the model no longer predicts this output (or the
            // output is not the elision of the input), look harder for a behavioural difference on
            // this very pair of binaries: many more scripts
            let n_probes = c.corr.is_some() as usize + c.tie.is_some() as usize;
            let pa = &probe_ans[probe_at[i]..probe_at[i] + n_probes];
            let suspicious = c.corr.as_ref().map(|(_, ob)| &pa[0] != ob).unwrap_or(false) || c.tie.as_ref().map(|_| pa[pa.len() - 1] != "elide-ok").unwrap_or(false);
            if suspicious && !stats.found_diff && stats.escalated < stats.escalation_cap {
                stats.escalated += 1;
                let reseed = |r: &str, k: u64| -> String {
                    let mut f: Vec<String> = r.splitn(5, ' ').map(|x| x.to_string()).collect();
                    f[1] = ((f[1].parse::<u64>().unwrap() + k * 7919) % 1000000007).to_string();
                    f[2] = "3".into();
                    f.join(" ")
                };
                let mut rq = vec![];
                for k in 1..=24u64 {
                    rq.push(reseed(&c.req_in, k));
                    rq.push(reseed(&c.req_out, k));
                }
                let an = model::ask(&rq);
                for k in 0..24 {
                    if an[2 * k] != an[2 * k + 1] {
                        oi = an[2 * k].clone();
                        oo = an[2 * k + 1].clone();
                        break;
                    }
                }
            }
        }
        let (oi, oo) = (&oi, &oo);
        if oi == oo {
            out::oracle(&c.name, true, "", "");
        } else {
            let mut key = if c.pass == Pass::Gc { "C06:behaviour-differs-after-gc" } else { "C01:behaviour-differs-after-round-trip" };
            if c.big_offset {
                // is the difference fully explained by the parse reducing memarg offsets modulo 2^32 (D5)?
                let w = model::ask(&[c.req_in.replacen("exec ", "execw ", 1)]);
                if &w[0] == oo {
                    key = if c.pass == Pass::Gc { "C06:behaviour-differs-memarg-offset-truncated-to-u32" } else { "C01:behaviour-differs-memarg-offset-truncated-to-u32" };
                }
            }
            if !key.contains("memarg-offset-truncated") {
                stats.found_diff = true;
            }
            if key.starts_with(prop) || prop.is_empty() {
                out::oracle(&c.name, false, key, &format!("{} | only: {}", first_diff(oi, oo), c.only));
            } else {
                out::oracle(&c.name, true, "", "");
            }
        }
    }
}

pub fn exec_cfg(rng: &mut Rng, case: usize) -> GenCfg {
    let mut g = if case % 4 == 0 { GenCfg::mvp() } else if case % 4 == 1 { GenCfg::full() } else { GenCfg::random(rng) };
    g.simd = false;
    g.threads = false;
    g.customs = false;
    g.producers = false;
    g.names = false;
    g.extern_elem_global = true;
    g.instantiable = true;
    g
}

fn memory_limit_cases() -> Vec<(String, Vec<u8>)> {
    use wasm_encoder::{CodeSection, ExportKind, ExportSection, Function, FunctionSection, Instruction as I, MemArg, MemorySection, MemoryType, Module, TypeSection, ValType};
    let mut v = vec![];
    for (min, max) in [(1u64, Some(1u64)), (0, Some(0)), (2, Some(2)), (1, Some(2)), (1, Some(3)), (1, None), (0, Some(1))] {
        let mut m = Module::new();
        let mut t = TypeSection::new();
        t.function([], [ValType::I32]);
        t.function([], []);
        m.section(&t);
        let mut fs = FunctionSection::new();
        for ty in [0u32, 0, 0, 1] {
            fs.function(ty);
        }
        m.section(&fs);
        let mut ms = MemorySection::new();
        ms.memory(MemoryType { minimum: min, maximum: max, memory64: false, shared: false, page_size_log2: None });
        m.section(&ms);
        let mut ex = ExportSection::new();
        ex.export("grow1", ExportKind::Func, 0);
        ex.export("grow2", ExportKind::Func, 1);
        ex.export("size", ExportKind::Func, 2);
        ex.export("poke", ExportKind::Func, 3);
        ex.export("m", ExportKind::Memory, 0);
        m.section(&ex);
        let mut code = CodeSection::new();
        for body in [
            vec![I::I32Const(1), I::MemoryGrow(0), I::End],
            vec![I::I32Const(2), I::MemoryGrow(0), I::End],
            vec![I::MemorySize(0), I::End],
            vec![I::I32Const(65536 * min as i32), I::I32Const(1), I::I32Store8(MemArg { offset: 0, align: 0, memory_index: 0 }), I::End],
        ] {
            let mut f = Function::new([]);
            for i in &body {
                f.instruction(i);
            }
            code.function(&f);
        }
        m.section(&code);
        v.push((format!("{}-{}", min, max.map(|x| x.to_string()).unwrap_or("none".into())), m.finish()));
    }
    v
}

pub fn main(seed: u64, tier: &str, only: Option<&str>) {
    let prop = std::env::var("VERIF_PROPERTY").unwrap_or_default();
    let mut stats = Stats::default();
    stats.escalation_cap = if tier == "thorough" { 600 } else { 60 };
    let (rounds, gas) = (2usize, 300usize);
    if let Some(o) = only {
        let f: Vec<&str> = o.split(' ').collect();
        let pass = if f[0] == "Gc" { Pass::Gc } else { Pass::None };
        match prepare("replay", &out::unhex(f[2]), pass, f[1].parse().unwrap(), rounds, gas) {
            Ok(c) => judge(vec![c], &prop, &mut stats),
            Err((k, t)) => out::oracle("replay", k == "skip", &k, &t),
        }
        return;
    }
    let n = if tier == "thorough" { 6000 * crate::out::thorough_scale() } else { 400 };
    let mut batch = vec![];
    for case in 0..n {
        let mut rng = Rng::new(seed ^ 0xe8ec, case as u64);
        let g = exec_cfg(&mut rng, case);
        // every third case: a control-flow shaped module with observable markers
        let wasm = if case % 3 == 2 { crate::ctrlgen::ctrl_module(&mut rng) } else { gen::gen_valid(&mut rng, &g).0 };
        if case % 3 == 2 {
            if let Err(e) = decode::validate(&wasm, decode::walrus_features(false)) {
                panic!("ctrlgen produced an invalid module: {}", e);
            }
        }
        let pass = if prop == "C06" { Pass::Gc } else { Pass::None };
        match prepare(&format!("x{}", case), &wasm, pass, rng.next() % 1000000007, rounds, gas) {
            Ok(c) => batch.push(c),
            Err((k, t)) => {
                if k != "skip" && (k.starts_with(&prop) || prop.is_empty()) {
                    out::oracle(&format!("x{}", case), false, &k, &t);
                }
            }
        }
        if batch.len() >= 200 {
            judge(std::mem::take(&mut batch), &prop, &mut stats);
        }
    }
    judge(batch, &prop, &mut stats);
    // one function per numeric operator without immediates (operands are its parameters, its result
    // is returned): a slip in one row of an operator table shows as a different result
    let mut batch = vec![];
    let mut nops = 0;
    for (k, (name, wasm)) in crate::opsx::numeric_cases().into_iter().enumerate() {
        let pass = if prop == "C06" { Pass::Gc } else { Pass::None };
        if let Ok(c) = prepare(&format!("op-{}", name), &wasm, pass, (seed * 1000 + k as u64) % 1000000007, rounds, gas) {
            batch.push(c);
            nops += 1;
        }
    }
    judge(batch, &prop, &mut stats);
    out::stat("exec.numeric_operators_run_one_by_one", nops);
    // memories at, just below and far from their declared maximum, grown, measured and written
    // beyond the first page by parameterless exports: a changed limit shows as a different
    // result of `memory.grow`, a different size or a missing trap
    let mut batch = vec![];
    for (k, (name, wasm)) in memory_limit_cases().into_iter().enumerate() {
        let pass = if prop == "C06" { Pass::Gc } else { Pass::None };
        if let Ok(c) = prepare(&format!("memlim-{}", name), &wasm, pass, (seed * 77 + k as u64) % 1000000007, rounds, gas) {
            batch.push(c);
        }
    }
    out::stat("exec.memory_limit_cases", batch.len());
    judge(batch, &prop, &mut stats);
    out::stat("exec.modules_run", stats.modules / 1);
    out::stat("exec.instantiation_failed", stats.inst_fail);
    out::stat("exec.calls_returned", stats.calls_ok);
    out::stat("exec.calls_trapped", stats.calls_trap);
    out::stat("exec.calls_out_of_gas", stats.calls_oog);
    out::stat("exec.calls_hit_unsupported_operator", stats.calls_unsup);
    out::stat("exec.host_calls_traced", stats.host_calls);
    out::stat("exec.modules_with_exported_state", stats.with_state);
    out::stat("exec.cases_escalated_after_model_mismatch", stats.escalated);
    out::stat("distinct_nontrivial", 0);
}
