//! Output protocol between the harness and the `check` driver (tab-separated lines on stdout).
//!
//!   C <case> <nontrivial 0|1> <request> <observed answer>   correspondence case: the request is
//!                                                           sent to the Lean model, whose answer
//!                                                           must equal the observed one
//!   O <case> <ok|FAIL> <key> <text>                         oracle verdict on the implementation
//!   S <key> <value>                                         statistics (input distribution)
//!   X <text>                                                a sample case, for the evidence file
use std::io::Write;

pub fn corr(case: &str, nontrivial: bool, request: &str, observed: &str) {
    let o = std::io::stdout();
    let mut o = o.lock();
    writeln!(o, "C\t{}\t{}\t{}\t{}", case, nontrivial as u8, request, observed).unwrap();
}
pub fn oracle(case: &str, ok: bool, key: &str, text: &str) {
    let o = std::io::stdout();
    let mut o = o.lock();
    writeln!(o, "O\t{}\t{}\t{}\t{}", case, if ok { "ok" } else { "FAIL" }, key, text.replace('\n', " | ").replace('\t', " ")).unwrap();
}
pub fn stat(key: &str, value: impl std::fmt::Display) {
    println!("S\t{}\t{}", key, value);
}
pub fn sample(text: &str) {
    println!("X\t{}", text.replace('\n', " | ").replace('\t', " "));
}

pub fn hex(bytes: &[u8]) -> String {
    let mut s = String::with_capacity(bytes.len() * 2);
    for b in bytes {
        s.push_str(&format!("{:02x}", b));
    }
    if s.is_empty() {
        s.push('-');
    }
    s
}
pub fn unhex(s: &str) -> Vec<u8> {
    if s == "-" {
        return vec![];
    }
    (0..s.len() / 2).map(|i| u8::from_str_radix(&s[2 * i..2 * i + 2], 16).unwrap()).collect()
}

/// run `f` catching panics; the panic message is swallowed (the hook is silenced by `quiet_panics`)
pub fn catch<R>(f: impl FnOnce() -> R) -> Result<R, String> {
    match std::panic::catch_unwind(std::panic::AssertUnwindSafe(f)) {
        Ok(r) => Ok(r),
        Err(e) => {
            let msg = if let Some(s) = e.downcast_ref::<&str>() {
                s.to_string()
            } else if let Some(s) = e.downcast_ref::<String>() {
                s.clone()
            } else {
                "panic".to_string()
            };
            Err(msg)
        }
    }
}

pub fn quiet_panics() {
    std::panic::set_hook(Box::new(|_| {}));
}

/// how much larger than its base size a thorough run is (env `VERIF_THOROUGH_SCALE`, default 6)
pub fn thorough_scale() -> usize {
    std::env::var("VERIF_THOROUGH_SCALE").ok().and_then(|s| s.parse().ok()).unwrap_or(6)
}
