//! Suite `maps` (C19): `IndicesToIds` as seen by `on_parse`, `IdsToIndices` as seen by a custom
//! section's `data()`.
use crate::decode::{self, AMod, DataMode, ImportDesc, Space};
use crate::gen::{self, GenCfg};
use crate::modtext;
use crate::out;
use crate::rng::Rng;
use std::borrow::Cow;
use std::sync::{Arc, Mutex};
use walrus::{CustomSection, IdsToIndices, Module, ModuleConfig};

#[derive(Default, Debug, Clone)]
struct ParseSeen {
    text: String,
    fails: Vec<(String, String)>,
}

#[derive(Default, Debug, Clone)]
struct EmitSeen {
    types: Vec<(usize, u32)>,
    funcs: Vec<(usize, u32)>,
    tables: Vec<(usize, u32)>,
    mems: Vec<(usize, u32)>,
    globals: Vec<(usize, u32)>,
    elems: Vec<(usize, u32)>,
    datas: Vec<(usize, u32)>,
}

#[derive(Debug)]
struct IdSpy {
    types: Vec<walrus::TypeId>,
    funcs: Vec<walrus::FunctionId>,
    tables: Vec<walrus::TableId>,
    mems: Vec<walrus::MemoryId>,
    globals: Vec<walrus::GlobalId>,
    elems: Vec<walrus::ElementId>,
    datas: Vec<walrus::DataId>,
    seen: Arc<Mutex<EmitSeen>>,
}
impl CustomSection for IdSpy {
    fn name(&self) -> &str {
        "verif.ids"
    }
    fn data(&self, ids: &IdsToIndices) -> Cow<[u8]> {
        let mut s = self.seen.lock().unwrap();
        s.types = self.types.iter().map(|i| (i.index(), ids.get_type_index(*i))).collect();
        s.funcs = self.funcs.iter().map(|i| (i.index(), ids.get_func_index(*i))).collect();
        s.tables = self.tables.iter().map(|i| (i.index(), ids.get_table_index(*i))).collect();
        s.mems = self.mems.iter().map(|i| (i.index(), ids.get_memory_index(*i))).collect();
        s.globals = self.globals.iter().map(|i| (i.index(), ids.get_global_index(*i))).collect();
        s.elems = self.elems.iter().map(|i| (i.index(), ids.get_element_index(*i))).collect();
        s.datas = self.datas.iter().map(|i| (i.index(), ids.get_data_index(*i))).collect();
        Cow::Borrowed(&[])
    }
}

fn vt(t: walrus::ValType) -> String {
    t.to_string()
}

/// runs inside `on_parse`: read the map for every index of every space (and two indices past
/// the end) and check that each id denotes the entity the input defines at that index
fn inspect(module: &Module, ids: &walrus::IndicesToIds, a: &AMod) -> ParseSeen {
    let mut s = ParseSeen::default();
    let mut fail = |k: &str, m: String| s.fails.push((k.to_string(), m));
    macro_rules! space {
        ($tag:expr, $n:expr, $get:ident) => {{
            let n = $n as u32;
            let mut v = vec![];
            for i in 0..n {
                match ids.$get(i) {
                    Ok(id) => v.push(id.index().to_string()),
                    Err(_) => {
                        v.push("err".into());
                        fail("C19:parse-map-missing-index", format!("{} index {} of {} is not in the parse-time map", $tag, i, n));
                    }
                }
            }
            for i in n..n + 2 {
                if ids.$get(i).is_ok() {
                    fail("C19:parse-map-out-of-range", format!("{} index {} (past the end {}) resolves", $tag, i, n));
                }
            }
            v.join(",")
        }};
    }
    let ty = space!("type", a.types.len(), get_type);
    let fu = space!("function", a.count(Space::Func), get_func);
    let ta = space!("table", a.count(Space::Table), get_table);
    let me = space!("memory", a.count(Space::Mem), get_memory);
    let gl = space!("global", a.count(Space::Global), get_global);
    let el = space!("element", a.elems.len(), get_element);
    let da = space!("data", a.datas.len(), get_data);
    // denotation checks
    for (i, t) in a.types.iter().enumerate() {
        if let Ok(id) = ids.get_type(i as u32) {
            let ty = module.types.get(id);
            let (p, r): (Vec<String>, Vec<String>) = (ty.params().iter().map(|x| vt(*x)).collect(), ty.results().iter().map(|x| vt(*x)).collect());
            if (&p, &r) != (&t.0, &t.1) {
                fail("C19:parse-map-wrong-type", format!("type index {} maps to a type with signature {:?}->{:?}, the input defines {:?}->{:?}", i, p, r, t.0, t.1));
            }
        }
    }
    let imports_of = |sp: Space| -> Vec<&decode::AImport> {
        a.imports.iter().filter(|i| matches!((&i.desc, sp), (ImportDesc::Func(_), Space::Func) | (ImportDesc::Table(_), Space::Table) | (ImportDesc::Mem(_), Space::Mem) | (ImportDesc::Global(_), Space::Global))).collect()
    };
    let fimps = imports_of(Space::Func);
    let in_content = a.code_section_range.map(|r| r.0).unwrap_or(0);
    for i in 0..a.count(Space::Func) {
        let Ok(id) = ids.get_func(i) else { continue };
        let f = module.funcs.get(id);
        if (i as usize) < fimps.len() {
            match &f.kind {
                walrus::FunctionKind::Import(imp) => {
                    let im = module.imports.get(imp.import);
                    if im.module != fimps[i as usize].module || im.name != fimps[i as usize].name {
                        fail("C19:parse-map-wrong-function", format!("function index {} maps to import {}.{}, the input has {}.{}", i, im.module, im.name, fimps[i as usize].module, fimps[i as usize].name));
                    }
                }
                _ => fail("C19:parse-map-wrong-function", format!("function index {} (an import) maps to a local function", i)),
            }
        } else {
            let k = i as usize - fimps.len();
            match &f.kind {
                walrus::FunctionKind::Local(l) => {
                    let want = (a.code[k].entry_range.0 - in_content, a.code[k].entry_range.1 - in_content);
                    let got = l.original_range.clone().map(|r| (r.start, r.end));
                    if got != Some(want) {
                        fail("C19:parse-map-wrong-function", format!("function index {} maps to a function parsed from code range {:?}, the input body {} is at {:?}", i, got, k, want));
                    }
                }
                _ => fail("C19:parse-map-wrong-function", format!("function index {} (local) maps to an import", i)),
            }
        }
    }
    let timps = imports_of(Space::Table);
    for i in 0..a.count(Space::Table) {
        let Ok(id) = ids.get_table(i) else { continue };
        let t = module.tables.get(id);
        let want = if (i as usize) < timps.len() { if let ImportDesc::Table(t) = &timps[i as usize].desc { t.clone() } else { unreachable!() } } else { a.tables[i as usize - timps.len()].0.clone() };
        let elem = match t.element_ty { walrus::RefType::Funcref => "funcref", walrus::RefType::Externref => "externref", _ => "?" };
        if (t.initial, t.maximum, elem, t.import.is_some()) != (want.min, want.max, want.elem.as_str(), (i as usize) < timps.len()) {
            fail("C19:parse-map-wrong-table", format!("table index {} maps to a different table", i));
        }
    }
    let mimps = imports_of(Space::Mem);
    for i in 0..a.count(Space::Mem) {
        let Ok(id) = ids.get_memory(i) else { continue };
        let m = module.memories.get(id);
        let want = if (i as usize) < mimps.len() { if let ImportDesc::Mem(t) = &mimps[i as usize].desc { t.clone() } else { unreachable!() } } else { a.memories[i as usize - mimps.len()].clone() };
        if (m.initial, m.maximum, m.shared, m.memory64, m.import.is_some()) != (want.min, want.max, want.shared, want.mem64, (i as usize) < mimps.len()) {
            fail("C19:parse-map-wrong-memory", format!("memory index {} maps to a different memory", i));
        }
    }
    let gimps = imports_of(Space::Global);
    for i in 0..a.count(Space::Global) {
        let Ok(id) = ids.get_global(i) else { continue };
        let g = module.globals.get(id);
        let want = if (i as usize) < gimps.len() { if let ImportDesc::Global(t) = &gimps[i as usize].desc { t.clone() } else { unreachable!() } } else { a.globals[i as usize - gimps.len()].0.clone() };
        let is_import = matches!(g.kind, walrus::GlobalKind::Import(_));
        if (vt(g.ty), g.mutable, is_import) != (want.ty.clone(), want.mutable, (i as usize) < gimps.len()) {
            fail("C19:parse-map-wrong-global", format!("global index {} maps to a different global", i));
        }
    }
    for (i, e) in a.elems.iter().enumerate() {
        let Ok(id) = ids.get_element(i as u32) else { continue };
        let el = module.elements.get(id);
        let n = match &el.items { walrus::ElementItems::Functions(f) => f.len(), walrus::ElementItems::Expressions(_, x) => x.len() };
        let want = match &e.items { decode::ElemItems::Funcs(f) => f.len(), decode::ElemItems::Exprs(_, x) => x.len() };
        let kind_ok = matches!((&el.kind, &e.mode), (walrus::ElementKind::Passive, decode::ElemMode::Passive) | (walrus::ElementKind::Declared, decode::ElemMode::Declared) | (walrus::ElementKind::Active { .. }, decode::ElemMode::Active { .. }));
        if n != want || !kind_ok {
            fail("C19:parse-map-wrong-element", format!("element index {} maps to a different segment", i));
        }
    }
    for (i, d) in a.datas.iter().enumerate() {
        let Ok(id) = ids.get_data(i as u32) else { continue };
        let dd = module.data.get(id);
        let kind_ok = matches!((&dd.kind, &d.mode), (walrus::DataKind::Passive, DataMode::Passive) | (walrus::DataKind::Active { .. }, DataMode::Active { .. }));
        if dd.value != d.bytes || !kind_ok {
            fail("C19:parse-map-wrong-data", format!("data index {} maps to a different segment", i));
        }
    }
    // locals
    let mut lx = vec![];
    for (k, body) in a.code.iter().enumerate() {
        let fi = (fimps.len() + k) as u32;
        let Ok(fid) = ids.get_func(fi) else { continue };
        let mut tys: Vec<String> = a.types[a.funcs[k] as usize].0.clone();
        for (n, t) in &body.locals {
            for _ in 0..*n {
                tys.push(t.clone());
            }
        }
        let mut idsv = vec![];
        for (li, t) in tys.iter().enumerate() {
            match ids.get_local(fid, li as u32) {
                Ok(l) => {
                    idsv.push(l.index().to_string());
                    if &vt(module.locals.get(l).ty()) != t {
                        fail("C19:parse-map-wrong-local", format!("function {} local {} maps to a local of type {}, the input declares {}", fi, li, module.locals.get(l).ty(), t));
                    }
                }
                Err(_) => {
                    idsv.push("err".into());
                    fail("C19:parse-map-missing-local", format!("function {} local {} is not in the parse-time map", fi, li));
                }
            }
        }
        if ids.get_local(fid, tys.len() as u32).is_ok() {
            fail("C19:parse-map-out-of-range", format!("function {} local {} (past the end) resolves", fi, tys.len()));
        }
        lx.push(format!("{}={}", fid.index(), idsv.join(",")));
    }
    s.text = format!("P y:{} f:{} t:{} m:{} g:{} e:{} d:{} x:{}", ty, fu, ta, me, gl, el, da, lx.join(";"));
    s
}

#[derive(Default)]
pub struct Stats {
    cases: usize,
    samples: usize,
    lookups: usize,
}

pub const TRACER_BASE: i32 = 0x5eed00;

/// the same module with `i32.const <tracer of the function>; drop` in front of every function body,
/// so that a body can be recognised wherever it is emitted
pub fn add_tracers(wasm: &[u8]) -> Vec<u8> {
    use wasm_encoder::Encode;
    let mut out = wasm_encoder::Module::new();
    let mut code = wasm_encoder::CodeSection::new();
    let mut in_code = false;
    let mut ordinal = 0;
    let mut expected = 0;
    for p in wasmparser::Parser::new(0).parse_all(wasm) {
        let Ok(p) = p else { return wasm.to_vec() };
        match &p {
            wasmparser::Payload::CodeSectionStart { count, .. } => {
                in_code = true;
                expected = *count;
                if expected == 0 {
                    out.section(&code);
                }
            }
            wasmparser::Payload::CodeSectionEntry(body) => {
                let Ok(ops) = body.get_operators_reader() else { return wasm.to_vec() };
                let ops_start = ops.original_position();
                let r = body.range();
                let mut nb = wasm[r.start..ops_start].to_vec();
                nb.push(0x41);
                (TRACER_BASE + ordinal as i32).encode(&mut nb);
                nb.push(0x1a);
                nb.extend_from_slice(&wasm[ops_start..r.end]);
                code.raw(&nb);
                ordinal += 1;
                if ordinal == expected {
                    out.section(&code);
                }
            }
            _ => {
                if let Some((id, range)) = p.as_section() {
                    if id != 10 {
                        out.section(&wasm_encoder::RawSection { id, data: &wasm[range] });
                    }
                }
            }
        }
    }
    let _ = in_code;
    out.finish()
}

pub fn run_wasm(case: &str, wasm: &[u8], gc: bool, stats: &mut Stats) {
    let only = format!("{} {}", gc as u8, out::hex(wasm));
    let Ok(a) = decode::decode(wasm) else { return };
    let seen = Arc::new(Mutex::new(ParseSeen::default()));
    let mut cfg = ModuleConfig::new();
    {
        let seen = seen.clone();
        let a2 = a.clone();
        cfg.on_parse(move |m, ids| {
            *seen.lock().unwrap() = inspect(m, ids, &a2);
            Ok(())
        });
    }
    let Ok(Ok(mut m)) = out::catch(|| cfg.parse(wasm)) else {
        out::oracle(case, false, "C05:valid-module-rejected-or-panic", &format!("parse failed | only: {}", only));
        return;
    };
    let ps = seen.lock().unwrap().clone();
    // tracer names on every entity: the output's name section then tells where each id ended up
    if gc {
        walrus::passes::gc::run(&mut m);
    }
    // (function-entry types are internal and never emitted; `find` skips them)
    let tids: Vec<_> = m.types.iter().filter(|t| m.types.find(t.params(), t.results()) == Some(t.id())).map(|t| t.id()).collect();
    for t in &tids {
        m.types.get_mut(*t).name = Some(format!("id{}", t.index()));
    }
    let fids: Vec<_> = m.funcs.iter().map(|f| f.id()).collect();
    for f in &fids {
        m.funcs.get_mut(*f).name = Some(format!("id{}", f.index()));
    }
    let tbids: Vec<_> = m.tables.iter().map(|t| t.id()).collect();
    for t in &tbids {
        m.tables.get_mut(*t).name = Some(format!("id{}", t.index()));
    }
    let mids: Vec<_> = m.memories.iter().map(|t| t.id()).collect();
    for t in &mids {
        m.memories.get_mut(*t).name = Some(format!("id{}", t.index()));
    }
    let gids: Vec<_> = m.globals.iter().map(|t| t.id()).collect();
    for t in &gids {
        m.globals.get_mut(*t).name = Some(format!("id{}", t.index()));
    }
    let eids: Vec<_> = m.elements.iter().map(|t| t.id()).collect();
    for t in &eids {
        m.elements.get_mut(*t).name = Some(format!("id{}", t.index()));
    }
    let dids: Vec<_> = m.data.iter().map(|t| t.id()).collect();
    for t in &dids {
        m.data.get_mut(*t).name = Some(format!("id{}", t.index()));
    }
    let eseen = Arc::new(Mutex::new(EmitSeen::default()));
    // entry types (function-entry block types) are never emitted: only ask for the others
    let emitted_tids: Vec<_> = m.types.iter().filter(|t| m.funcs.iter().any(|f| f.ty() == t.id()) || true).map(|t| t.id()).collect();
    let _ = emitted_tids;
    let asked_types: Vec<walrus::TypeId> = vec![]; // filled below from the output (only emitted ids may be asked)
    m.customs.add(IdSpy { types: asked_types, funcs: fids.clone(), tables: tbids.clone(), mems: mids.clone(), globals: gids.clone(), elems: eids.clone(), datas: dids.clone(), seen: eseen.clone() });
    let bytes = match out::catch(|| m.emit_wasm()) {
        Ok(b) => b,
        Err(p) => {
            // a lookup of the emit-time map that panics inside a custom section's `data` is this
            // property's failure: the map must know every emitted entity
            let key = if p.contains("_index") { "C19:emit-map-lookup-panicked" } else { "C02:emit-panic" };
            out::oracle(case, false, key, &format!("{} | only: {}", &p[..p.len().min(200)], only));
            return;
        }
    };
    let b = decode::decode(&bytes).expect("decode output");
    let es = eseen.lock().unwrap().clone();
    stats.cases += 1;
    let show = |v: &Vec<(usize, u32)>| { let mut v = v.clone(); v.sort(); v.iter().map(|p| format!("{}={}", p.0, p.1)).collect::<Vec<_>>().join(",") };
    stats.lookups += es.funcs.len() + es.tables.len() + es.mems.len() + es.globals.len() + es.elems.len() + es.datas.len();

    // ---- correspondence (not after GC: the model's emit maps are those of the unedited module)
    if !gc {
        // type ids are asked through the name tracer instead (an un-emitted type id panics in get_type_index)
        let names = b.names().and_then(|r| r.ok()).unwrap_or_default();
        let mut ty: Vec<(usize, u32)> = names.types.iter().filter_map(|(j, n)| n.strip_prefix("id").and_then(|x| x.parse::<usize>().ok()).map(|i| (i, *j))).collect();
        ty.sort();
        let obs = format!("{} | E y:{} f:{} t:{} m:{} g:{} e:{} d:{}", ps.text, show(&ty), show(&es.funcs), show(&es.tables), show(&es.mems), show(&es.globals), show(&es.elems), show(&es.datas));
        let req = format!("maps {}", modtext::module_text(&a, false, false));
        out::corr(case, a.imports.len() > 0 && a.code.len() > 1, &req, &obs);
        if stats.samples < 2 && req.len() < 600 {
            out::sample(&format!("{} => {}", req, obs));
            stats.samples += 1;
        }
    }

    // ---- oracle
    let mut fails = ps.fails.clone();
    let names = b.names().and_then(|r| r.ok()).unwrap_or_default();
    let truth = |m: &Vec<(u32, String)>| -> std::collections::HashMap<usize, u32> { m.iter().filter_map(|(j, n)| n.strip_prefix("id").and_then(|x| x.parse::<usize>().ok()).map(|i| (i, *j))).collect() };
    for (what, seen, named) in [("function", &es.funcs, &names.funcs), ("table", &es.tables, &names.tables), ("memory", &es.mems, &names.memories), ("global", &es.globals, &names.globals), ("element", &es.elems, &names.elems), ("data", &es.datas, &names.datas)] {
        let t = truth(named);
        for (id, idx) in seen.iter() {
            match t.get(id) {
                Some(j) if j == idx => {}
                Some(j) => fails.push((format!("C19:emit-map-wrong-{}", what), format!("{} id {} reported at index {}, it appears at index {} in the emitted binary", what, id, idx, j))),
                None => fails.push((format!("C19:emit-map-entity-not-emitted-{}", what), format!("{} id {} reported at index {} but it does not appear in the emitted binary", what, id, idx))),
            }
        }
        if seen.len() != t.len() {
            fails.push((format!("C19:emit-map-count-{}", what), format!("{} {} ids asked, {} appear in the output", seen.len(), what, t.len())));
        }
    }
    // the same ids followed by what the entities *are* (independent of the name section, which is
    // itself written through the emit-time map): the entity at the reported index must be the
    // input entity with that id (ids are input indices)
    let mut body_fails: Vec<(String, String)> = vec![];
    let mut diff = |what: &str, id: usize, idx: u32, same: Option<bool>| match same {
        Some(true) => {}
        Some(false) => fails.push((format!("C19:emit-map-points-at-a-different-{}", what), format!("{} id {} reported at index {}, but the {} emitted there is a different one", what, id, idx, what))),
        None => fails.push((format!("C19:emit-map-index-out-of-range-{}", what), format!("{} id {} reported at index {}, the emitted binary has no such {}", what, id, idx, what))),
    };
    for (id, idx) in es.datas.iter() {
        let same = b.datas.get(*idx as usize).map(|d| a.datas.get(*id).map(|x| x.bytes == d.bytes && std::mem::discriminant(&x.mode) == std::mem::discriminant(&d.mode)).unwrap_or(true));
        diff("data", *id, *idx, same);
    }
    for (id, idx) in es.elems.iter() {
        let len = |e: &decode::AElem| match &e.items { decode::ElemItems::Funcs(f) => f.len(), decode::ElemItems::Exprs(_, x) => x.len() };
        let same = b.elems.get(*idx as usize).map(|d| a.elems.get(*id).map(|x| len(x) == len(d) && std::mem::discriminant(&x.mode) == std::mem::discriminant(&d.mode)).unwrap_or(true));
        diff("element", *id, *idx, same);
    }
    for (id, idx) in es.globals.iter() {
        let same = b.global_ty(*idx).map(|d| a.global_ty(*id as u32).map(|x| x == d).unwrap_or(true));
        diff("global", *id, *idx, if *idx < b.count(Space::Global) { same } else { None });
    }
    for (id, idx) in es.tables.iter() {
        let same = b.table_ty(*idx).map(|d| a.table_ty(*id as u32).map(|x| x == d).unwrap_or(true));
        diff("table", *id, *idx, if *idx < b.count(Space::Table) { same } else { None });
    }
    for (id, idx) in es.mems.iter() {
        let same = b.mem_ty(*idx).map(|d| a.mem_ty(*id as u32).map(|x| x == d).unwrap_or(true));
        diff("memory", *id, *idx, if *idx < b.count(Space::Mem) { same } else { None });
    }
    for (id, idx) in es.funcs.iter() {
        let sig = |m: &AMod, f: u32| m.func_type(f).and_then(|t| m.types.get(t as usize).cloned());
        let same = if *idx < b.count(Space::Func) { Some(sig(&a, *id as u32).map(|x| Some(x) == sig(&b, *idx)).unwrap_or(true)) } else { None };
        diff("function", *id, *idx, same);
        // the body emitted at that index must be this function's body: it starts with the function's
        // tracer constant (inputs of this suite carry one per function)
        let (ni_in, ni_out) = (a.n_imported(Space::Func) as usize, b.n_imported(Space::Func) as usize);
        if *id >= ni_in && (*idx as usize) >= ni_out {
            let want = format!("I32Const/i:{}", (TRACER_BASE as u32).wrapping_add((*id - ni_in) as u32));
            let input_has = a.code.get(*id - ni_in).and_then(|c| c.ops.first()).map(|o| o.text() == want).unwrap_or(false);
            if input_has {
                let got = b.code.get(*idx as usize - ni_out).and_then(|c| c.ops.first()).map(|o| o.text());
                if got.as_deref() != Some(want.as_str()) {
                    body_fails.push(("C19:emit-map-points-at-a-different-function-body".to_string(), format!("function id {} reported at index {}, but the body emitted there starts with {:?}, not with this function's tracer {}", id, idx, got, want)));
                }
            }
        }
    }
    fails.extend(body_fails);
    if fails.is_empty() {
        out::oracle(case, true, "", "");
    } else {
        let mut keys = std::collections::HashSet::new();
        for (k, msg) in fails {
            if keys.insert(k.clone()) {
                out::oracle(case, false, &k, &format!("{} | only: {}", msg, only));
            }
        }
    }
}

pub fn main(seed: u64, tier: &str, only: Option<&str>) {
    let mut stats = Stats::default();
    if let Some(o) = only {
        let (g, h) = o.split_once(' ').unwrap();
        run_wasm("replay", &out::unhex(h), g == "1", &mut stats);
        return;
    }
    let n = if tier == "thorough" { 3000 * crate::out::thorough_scale() } else { 240 };
    for case in 0..n {
        let mut rng = Rng::new(seed ^ 0x3a95, case as u64);
        let mut g = if case % 4 == 0 { GenCfg::mvp() } else if case % 4 == 1 { GenCfg::full() } else { GenCfg::random(&mut rng) };
        g.extern_elem_global = false;
        // raw custom sections in the input are emitted before the section that reads the map
        g.customs = case % 2 == 1;
        g.junk_debug = false;
        g.producers = false;
        // a third of the inputs carry a name section: the parse-time map is handed to `on_parse` after
        // the name section has been applied, and has to be as complete then as without one
        g.names = case % 3 == 1;
        let (wasm, _) = gen::gen_valid(&mut rng, &g);
        let wasm = add_tracers(&wasm);
        run_wasm(&format!("k{}", case), &wasm, case % 3 == 2, &mut stats);
    }
    out::stat("maps.cases", stats.cases);
    out::stat("maps.emit_lookups_checked", stats.lookups);
}
