//! Independent reading of walrus's IR through its public API: every instruction as
//! `Variant@loc/field=kind:ids…` with *all* fields listed (entity ids by arena index), and the
//! sequences reachable from a function's entry.
use walrus::ir::*;
use walrus::{InstrLocId, LocalFunction};

pub fn loc_num(l: &InstrLocId) -> u32 {
    if l.is_default() {
        0xffff_ffff
    } else {
        l.data()
    }
}

/// (variant name, [(field name, kind, ids)])
pub fn fields(i: &Instr) -> (&'static str, Vec<(&'static str, &'static str, Vec<usize>)>) {
    macro_rules! f {
        ($n:expr, $k:expr, $id:expr) => {
            ($n, $k, vec![$id.index()])
        };
    }
    let o = |n: &'static str| (n, "o", vec![]);
    match i {
        Instr::Block(e) => ("Block", vec![f!("seq", "s", e.seq)]),
        Instr::Loop(e) => ("Loop", vec![f!("seq", "s", e.seq)]),
        Instr::Call(e) => ("Call", vec![f!("func", "f", e.func)]),
        Instr::CallIndirect(e) => ("CallIndirect", vec![f!("ty", "y", e.ty), f!("table", "t", e.table)]),
        Instr::LocalGet(e) => ("LocalGet", vec![f!("local", "x", e.local)]),
        Instr::LocalSet(e) => ("LocalSet", vec![f!("local", "x", e.local)]),
        Instr::LocalTee(e) => ("LocalTee", vec![f!("local", "x", e.local)]),
        Instr::GlobalGet(e) => ("GlobalGet", vec![f!("global", "g", e.global)]),
        Instr::GlobalSet(e) => ("GlobalSet", vec![f!("global", "g", e.global)]),
        Instr::Const(_) => ("Const", vec![("value", "v", vec![0])]),
        Instr::TernOp(_) => ("TernOp", vec![o("op")]),
        Instr::Binop(_) => ("Binop", vec![o("op")]),
        Instr::Unop(_) => ("Unop", vec![o("op")]),
        Instr::Select(_) => ("Select", vec![o("ty")]),
        Instr::Unreachable(_) => ("Unreachable", vec![]),
        Instr::Br(e) => ("Br", vec![f!("block", "s", e.block)]),
        Instr::BrIf(e) => ("BrIf", vec![f!("block", "s", e.block)]),
        Instr::IfElse(e) => ("IfElse", vec![f!("consequent", "s", e.consequent), f!("alternative", "s", e.alternative)]),
        Instr::BrTable(e) => ("BrTable", vec![("blocks", "s", e.blocks.iter().map(|b| b.index()).collect()), f!("default", "s", e.default)]),
        Instr::Drop(_) => ("Drop", vec![]),
        Instr::Return(_) => ("Return", vec![]),
        Instr::MemorySize(e) => ("MemorySize", vec![f!("memory", "m", e.memory)]),
        Instr::MemoryGrow(e) => ("MemoryGrow", vec![f!("memory", "m", e.memory)]),
        Instr::MemoryInit(e) => ("MemoryInit", vec![f!("memory", "m", e.memory), f!("data", "d", e.data)]),
        Instr::DataDrop(e) => ("DataDrop", vec![f!("data", "d", e.data)]),
        Instr::MemoryCopy(e) => ("MemoryCopy", vec![f!("src", "m", e.src), f!("dst", "m", e.dst)]),
        Instr::MemoryFill(e) => ("MemoryFill", vec![f!("memory", "m", e.memory)]),
        Instr::Load(e) => ("Load", vec![f!("memory", "m", e.memory), o("kind"), o("arg")]),
        Instr::Store(e) => ("Store", vec![f!("memory", "m", e.memory), o("kind"), o("arg")]),
        Instr::AtomicRmw(e) => ("AtomicRmw", vec![f!("memory", "m", e.memory), o("op"), o("width"), o("arg")]),
        Instr::Cmpxchg(e) => ("Cmpxchg", vec![f!("memory", "m", e.memory), o("width"), o("arg")]),
        Instr::AtomicNotify(e) => ("AtomicNotify", vec![f!("memory", "m", e.memory), o("arg")]),
        Instr::AtomicWait(e) => ("AtomicWait", vec![f!("memory", "m", e.memory), o("arg"), o("sixty_four")]),
        Instr::AtomicFence(_) => ("AtomicFence", vec![]),
        Instr::TableGet(e) => ("TableGet", vec![f!("table", "t", e.table)]),
        Instr::TableSet(e) => ("TableSet", vec![f!("table", "t", e.table)]),
        Instr::TableGrow(e) => ("TableGrow", vec![f!("table", "t", e.table)]),
        Instr::TableSize(e) => ("TableSize", vec![f!("table", "t", e.table)]),
        Instr::TableFill(e) => ("TableFill", vec![f!("table", "t", e.table)]),
        Instr::RefNull(_) => ("RefNull", vec![o("ty")]),
        Instr::RefIsNull(_) => ("RefIsNull", vec![]),
        Instr::RefFunc(e) => ("RefFunc", vec![f!("func", "f", e.func)]),
        Instr::V128Bitselect(_) => ("V128Bitselect", vec![]),
        Instr::I8x16Swizzle(_) => ("I8x16Swizzle", vec![]),
        Instr::I8x16Shuffle(_) => ("I8x16Shuffle", vec![o("indices")]),
        Instr::LoadSimd(e) => ("LoadSimd", vec![f!("memory", "m", e.memory), o("kind"), o("arg")]),
        Instr::TableInit(e) => ("TableInit", vec![f!("table", "t", e.table), f!("elem", "e", e.elem)]),
        Instr::ElemDrop(e) => ("ElemDrop", vec![f!("elem", "e", e.elem)]),
        Instr::TableCopy(e) => ("TableCopy", vec![f!("src", "t", e.src), f!("dst", "t", e.dst)]),
        Instr::ReturnCall(e) => ("ReturnCall", vec![f!("func", "f", e.func)]),
        Instr::ReturnCallIndirect(e) => ("ReturnCallIndirect", vec![f!("ty", "y", e.ty), f!("table", "t", e.table)]),
    }
}

pub fn variant_name(i: &Instr) -> &'static str {
    fields(i).0
}

pub fn instr_token(i: &Instr, loc: &InstrLocId) -> String {
    let (v, fs) = fields(i);
    let mut s = format!("{}@{}", v, loc_num(loc));
    for (n, k, ids) in fs {
        s.push_str(&format!("/{}={}:{}", n, k, ids.iter().map(|x| x.to_string()).collect::<Vec<_>>().join(",")));
    }
    s
}

/// nested sequences an instruction owns
pub fn kids(i: &Instr) -> Vec<InstrSeqId> {
    match i {
        Instr::Block(b) => vec![b.seq],
        Instr::Loop(b) => vec![b.seq],
        Instr::IfElse(b) => vec![b.consequent, b.alternative],
        _ => vec![],
    }
}

/// all sequences reachable from `entry` (explicit stack; each id once), in discovery order
pub fn reachable_seqs(f: &LocalFunction, entry: InstrSeqId) -> Vec<InstrSeqId> {
    let mut seen = std::collections::HashSet::new();
    let mut order = vec![];
    let mut stack = vec![entry];
    while let Some(s) = stack.pop() {
        if !seen.insert(s) {
            continue;
        }
        order.push(s);
        for (i, _) in f.block(s).instrs.iter() {
            for k in kids(i) {
                stack.push(k);
            }
        }
    }
    order
}

/// `S<id> <ty> instr… ; S<id> …`
pub fn func_text(f: &LocalFunction, entry: InstrSeqId) -> String {
    let mut parts = vec![];
    for s in reachable_seqs(f, entry) {
        let seq = f.block(s);
        let ty = match seq.ty {
            InstrSeqType::Simple(_) => "-".to_string(),
            InstrSeqType::MultiValue(t) => format!("y{}", t.index()),
        };
        let mut p = format!("S{} {}", s.index(), ty);
        for (i, l) in seq.instrs.iter() {
            p.push(' ');
            p.push_str(&instr_token(i, l));
        }
        parts.push(p);
    }
    parts.join(" ; ")
}
