-- Root of the `Walrus` library: every model, proof and property module.
import Walrus.Props.C03
import Walrus.Props.C04
import Walrus.Props.C05
import Walrus.Props.C08
import Walrus.Props.C09
import Walrus.Props.C10
import Walrus.Props.C11
import Walrus.Props.C12
import Walrus.Props.C13
import Walrus.Props.C14
import Walrus.Props.C15
import Walrus.Props.C16
import Walrus.Props.C17
import Walrus.Props.C19
import Walrus.Props.C20
