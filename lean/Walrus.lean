import Walrus.Arena
import Walrus.Proofs.Arena
