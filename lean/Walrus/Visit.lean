import Walrus.Traverse
import Walrus.Gen.InstrSpec

/-
M12: what the generated `Visit`/`VisitMut` impls report for one instruction, derived from the
regenerated `Instr` table (`Gen.instrSpec`), and the two traversals instantiated with it.
-/
namespace Walrus
open Gen

structure FieldVal where
  name : String
  kind : String          -- f t g m y x d e (entities), s (sequence id), v (constant), o (opaque payload)
  ids : List Nat
  deriving Repr, DecidableEq

structure IRInstr where
  variant : String
  fields : List FieldVal
  loc : Nat
  deriving Repr, DecidableEq

inductive VEv
  | startSeq (s : Nat)
  | seqType (y : Nat)
  | instr (variant : String) (loc : Nat)
  | hook (variant : String)
  | operand (kind : String) (id : Nat)
  | endSeq (s : Nat)
  | mismatch                       -- the instruction does not have the shape the table gives its variant
  deriving Repr, DecidableEq

/-- which visitor callback a field type goes to (`visit_<snake_case(type)>`), as an operand kind -/
def kindOfType (ty : String) : String :=
  if ty = "FunctionId" then "f" else if ty = "TableId" then "t" else if ty = "GlobalId" then "g"
  else if ty = "MemoryId" then "m" else if ty = "TypeId" then "y" else if ty = "LocalId" then "x"
  else if ty = "DataId" then "d" else if ty = "ElementId" then "e" else if ty = "InstrSeqId" then "s"
  else if ty = "Value" then "v" else "o"

def isEntityKind (k : String) : Bool :=
  k = "f" || k = "t" || k = "g" || k = "m" || k = "y" || k = "x" || k = "d" || k = "e"

def findVariant (spec : List VariantSpec) (v : String) : Option VariantSpec := spec.find? (·.name = v)

def fieldIds (fs : List FieldVal) (name : String) : List Nat :=
  match fs.find? (·.name = name) with
  | some f => f.ids
  | none => []

/-- callbacks for the fields of one variant, in declaration order: one per non-skipped field, one
    per item for list fields (fields are matched positionally and by name against the table) -/
def fieldEvents : List FieldSpec → List FieldVal → List VEv
  | [], [] => []
  | f :: fs, v :: vs =>
    (if f.name = v.name then
      (if f.skipVisit then [] else v.ids.map (VEv.operand (kindOfType f.ty)))
     else [VEv.mismatch]) ++ fieldEvents fs vs
  | _, _ => [VEv.mismatch]

/-- the body of the generated `impl Visit for <Variant>` -/
def operandEvents (spec : List VariantSpec) (i : IRInstr) : List VEv :=
  match findVariant spec i.variant with
  | none => [VEv.mismatch]
  | some vs => fieldEvents vs.fields i.fields

/-- what the traversal reports for one instruction.
    `logsHook`: the visitor overrides the per-instruction hook (and does not recurse in it);
    otherwise the default hook body runs, which visits the operands iff `defaultVisits`. -/
def instrEvents (spec : List VariantSpec) (logsHook defaultVisits : Bool) (i : IRInstr) : List VEv :=
  [VEv.instr i.variant i.loc] ++
  (if logsHook then [VEv.hook i.variant] else if defaultVisits then operandEvents spec i else []) ++
  operandEvents spec i

def seqStart (s : Nat) (ty : Option Nat) : List VEv :=
  VEv.startSeq s :: (match ty with | some y => [VEv.seqType y] | none => [])

def seqEnd (s : Nat) (_ty : Option Nat) : List VEv := [VEv.endSeq s]

/-- nested sequences of an instruction, as the `match instr` of both traversals reads them -/
def kidsOf (i : IRInstr) : List Nat :=
  if i.variant = "Block" || i.variant = "Loop" then fieldIds i.fields "seq"
  else if i.variant = "IfElse" then fieldIds i.fields "consequent" ++ fieldIds i.fields "alternative"
  else []

abbrev IRArena := TArena (Option Nat) IRInstr

def toT (i : IRInstr) : TInstr IRInstr := ⟨i, kidsOf i⟩

def defaultVisits (o : Option Bool) : Bool := o.getD true

/-- `dfs_in_order` with a recording visitor -/
def visitInOrder (logsHook : Bool) (ar : IRArena) (fuel entry : Nat) : List (Nat × Nat) × List VEv :=
  dfsInOrder seqStart (instrEvents instrSpec logsHook (defaultVisits hookDefaultVisitsOperands)) seqEnd ar fuel entry

/-- `dfs_pre_order_mut` with a recording visitor -/
def visitPreOrderMut (logsHook : Bool) (ar : IRArena) (fuel entry : Nat) : List Nat × List VEv :=
  dfsPreOrderMut seqStart (instrEvents instrSpec logsHook (defaultVisits mutHookDefaultVisitsOperands)) seqEnd ar fuel entry

end Walrus
