import Walrus.Body

/-
M5: `LocalFunction::parse` / `append_instruction` with its `ValidationContext`
(`local_function/{mod,context}.rs`): the flat operator stream of one function body is turned into
an arena of instruction sequences by an explicit control stack.

  * `push_control` allocates the sequence and pushes a frame with `unreachable = false`;
  * `Block`/`Loop` are appended to the *parent* frame (`alloc_instr_in_control(1, ..)`), and are
    skipped when the parent is unreachable (the sequence is still allocated);
  * `If` pushes an `IfElseState`; the `IfElse` node is appended when the construct ends;
    an `if` without `else` gets a fresh empty alternative;
  * `br`, `br_table`, `return`, `unreachable` append and then mark the frame unreachable;
    `nop` appends nothing; everything appended to an unreachable frame is dropped.
Every `unwrap()` of the source is an explicit `none` (= panic) here.
-/
namespace Walrus

structure PFrame where
  seq : Nat
  unr : Bool
  kind : BlockKind
  ty : SeqTy
  deriving Repr

structure IfSt where
  start : Nat               -- InstrLocId of the `if`
  consequent : Nat
  alternative : Option Nat
  deriving Repr

structure PSeq where
  ty : SeqTy
  instrs : List (BInstr × Nat)    -- instruction, location
  fin : Nat                       -- `InstrSeq::end` (location of the terminating `end`/`else`)
  deriving Repr

structure PSt where
  seqs : List PSeq                -- arena: id = position
  controls : List PFrame          -- innermost first
  ifElse : List IfSt              -- innermost first
  deriving Repr

/-- index → id maps at parse time plus what is needed to resolve block types -/
structure PEnv where
  funcs : List Nat                     -- function index ↦ FunctionId
  types : List Nat                     -- type index ↦ TypeId
  locals : List Nat                    -- local index ↦ LocalId (this function)
  sigs : List (List String × List String)   -- type index ↦ signature
  deriving Repr

def PEnv.get (e : PEnv) (sp : String) (i : Nat) : Option Nat :=
  if sp = "f" then e.funcs[i]? else if sp = "y" then e.types[i]? else if sp = "x" then e.locals[i]?
  else some i     -- tables, memories, globals, data and element segments: ids are handed out in index order

def pMapArgs (e : PEnv) : List Arg → Option (List Arg)
  | [] => some []
  | .ref sp i :: r =>
    match e.get sp i, pMapArgs e r with
    | some id, some r' => some (.ref sp id :: r')
    | _, _ => none
  | a :: r => (pMapArgs e r).map (a :: ·)

/-- `InstrSeqType::existing` applied to the block type's parameter and result lists -/
def seqTyOfBt (e : PEnv) : BT → Option SeqTy
  | .empty => some .empty
  | .val t => some (.val t)
  | .idx idx =>
    match e.sigs[idx]? with
    | none => none
    | some (ps, rs) =>
      match ps, rs with
      | [], [] => some .empty
      | [], [r] => some (.val r)
      | _, _ =>
        -- `types.find(params, results)`: the first live non-entry type with this signature
        let first := e.sigs.findIdx (fun s => s == (ps, rs))
        (e.types[first]?).map SeqTy.multi

def appendTo (seqs : List PSeq) (s : Nat) (i : BInstr) (loc : Nat) : List PSeq :=
  seqs.modify s (fun q => { q with instrs := q.instrs ++ [(i, loc)] })

def setEnd (seqs : List PSeq) (s : Nat) (loc : Nat) : List PSeq :=
  seqs.modify s (fun q => { q with fin := loc })

/-- `alloc_instr_in_control(k, instr, loc)`; `none`: the frame does not exist -/
def allocIn (st : PSt) (k : Nat) (i : BInstr) (loc : Nat) : Option PSt :=
  match st.controls[k]? with
  | none => none
  | some f => if f.unr then some st else some { st with seqs := appendTo st.seqs f.seq i loc }

def markUnr (st : PSt) : Option PSt :=
  match st.controls with
  | [] => none
  | f :: r => some { st with controls := { f with unr := true } :: r }

def pushControl (st : PSt) (kind : BlockKind) (ty : SeqTy) : PSt × Nat :=
  let id := st.seqs.length
  ({ st with seqs := st.seqs ++ [⟨ty, [], defaultLoc⟩], controls := ⟨id, false, kind, ty⟩ :: st.controls }, id)

/-- `mem_arg`: `offset: arg.offset as u32` — the 64-bit offset of the operator is truncated to
    32 bits (`ir::MemArg::offset` is a `u32`). A memarg is the immediates `align, offset` followed by
    the memory operand. -/
def wrapOffsets : List Arg → List Arg
  | .num a :: .num o :: .ref "m" k :: r => .num a :: .num (o % 4294967296) :: .ref "m" k :: wrapOffsets r
  | x :: r => x :: wrapOffsets r
  | [] => []

def btOf (op : Op) : Option BT :=
  match op.args with
  | [.bt b] => some b
  | _ => none

def labelsOf (op : Op) : List Nat := op.args.filterMap fun a => match a with | .ref "l" n => some n | _ => none

def frameSeq (st : PSt) (n : Nat) : Option Nat := (st.controls[n]?).map (·.seq)

/-- `append_instruction` -/
def pstep (e : PEnv) (st : PSt) (op : Op) (loc : Nat) : Option PSt :=
  if op.name = "Block" || op.name = "Loop" then
    match (btOf op).bind (seqTyOfBt e) with
    | none => none
    | some ty =>
      let (st1, id) := pushControl st (if op.name = "Block" then .block else .loop) ty
      allocIn st1 1 (if op.name = "Block" then .block id else .loop id) loc
  else if op.name = "If" then
    match (btOf op).bind (seqTyOfBt e) with
    | none => none
    | some ty =>
      let (st1, id) := pushControl st .if_ ty
      some { st1 with ifElse := ⟨loc, id, none⟩ :: st1.ifElse }
  else if op.name = "Else" then
    match st.controls with
    | f :: r =>
      if f.kind ≠ .if_ then none else
      let st1 : PSt := { st with controls := r, seqs := setEnd st.seqs f.seq loc }
      let (st2, alt) := pushControl st1 .else_ f.ty
      match st2.ifElse with
      | s :: rs => if s.alternative.isSome then none else some { st2 with ifElse := { s with alternative := some alt } :: rs }
      | [] => none
    | [] => none
  else if op.name = "End" then
    match st.controls with
    | f :: r =>
      let st1 : PSt := { st with controls := r, seqs := setEnd st.seqs f.seq loc }
      if f.kind = .if_ || f.kind = .else_ then
        match st1.ifElse with
        | s :: rs =>
          let st2 : PSt := { st1 with ifElse := rs }
          let (st3, alt) := match s.alternative with
            | some a => (st2, a)
            | none =>
              let (t, a) := pushControl st2 .else_ f.ty
              ({ t with controls := st2.controls }, a)
          allocIn st3 0 (.ifElse s.consequent alt) s.start
        | [] => none
      else some st1
    | [] => none
  else if op.name = "Br" then
    match labelsOf op with
    | [n] => (frameSeq st n).bind fun b => (allocIn st 0 (.br b) loc).bind markUnr
    | _ => none
  else if op.name = "BrIf" then
    match labelsOf op with
    | [n] => (frameSeq st n).bind fun b => allocIn st 0 (.brIf b) loc
    | _ => none
  else if op.name = "BrTable" then
    match (labelsOf op).reverse with
    | d :: ts =>
      match frameSeq st d, ts.reverse.mapM (frameSeq st) with
      | some dd, some tts => (allocIn st 0 (.brTable tts dd) loc).bind markUnr
      | _, _ => none
    | [] => none
  else if op.name = "Return" || op.name = "Unreachable" then
    (allocIn st 0 (.leaf op) loc).bind markUnr
  else if op.name = "Nop" then some st
  else
    (pMapArgs e (wrapOffsets op.args)).bind fun a => allocIn st 0 (.leaf ⟨op.name, a⟩) loc

def prun (e : PEnv) : PSt → List (Op × Nat) → Option PSt
  | st, [] => some st
  | st, (op, loc) :: r => (pstep e st op loc).bind (prun e · r)

/-- `LocalFunction::parse`: entry frame with the function-entry type, then every operator -/
def buildBody (e : PEnv) (entryTy : Nat) (ops : List (Op × Nat)) : Option (List PSeq) :=
  let (st0, _) := pushControl ⟨[], [], []⟩ .entry (.multi entryTy)
  (prun e st0 ops).map (·.seqs)

def PSeqs.toArena (seqs : List PSeq) : BArena :=
  seqs.zipIdx.map fun p => (p.2, (p.1.ty, p.1.fin), p.1.instrs.map bT)

end Walrus
