import Walrus.Sem

/-
M13 (continued): instantiation of a `ModuleM`, a deterministic call script over its exports, and
the observation of the run as text.  Two modules are *observationally equal on a script* when their
observations are the same text.
-/
namespace Walrus.Sem

def hexVal (c : Char) : Nat :=
  if '0' ≤ c ∧ c ≤ '9' then c.toNat - 48 else if 'a' ≤ c ∧ c ≤ 'f' then c.toNat - 87 else 0

def hexBytes : List Char → List Nat
  | a :: b :: r => (hexVal a * 16 + hexVal b) :: hexBytes r
  | _ => []

def importedFuncs (m : ModuleM) : List (String × String × Nat) :=
  m.imports.filterMap fun i => match i.2.2 with | .func t => some (i.1, i.2.1, t) | _ => none

/-- the interpreter's view of a decoded module: uids are positions; `none` if a body is not well
    nested -/
def mkEnv (m : ModuleM) : Option Env :=
  let lt := fun (sg : Sig) (locals : List String) => (sg.1 ++ locals).zipIdx.map fun p => (p.2, p.1)
  let imps : List (Option FuncInfo) := (importedFuncs m).map fun i =>
    (m.sigs[i.2.2]?).map fun sg => (⟨sg, some (i.1, i.2.1), lt sg [], .nil⟩ : FuncInfo)
  let locs : List (Option FuncInfo) := (m.funcs.zip m.code).map fun p =>
    match m.sigs[p.1]?, structureBody (p.2.2.map (·.1)) with
    | some sg, some b => some ⟨sg, none, lt sg (expandLocals p.2.1), b⟩
    | _, _ => none
  if m.funcs.length ≠ m.code.length then none else
  ((imps ++ locs).mapM id).map fun fs => ⟨m.sigs, List.range fs.length, fs⟩

/-- one operator of a constant expression -/
def constStep (res : Nat → Option Nat) (globals : List V) (stk : Option (List V)) (o : Op) : Option (List V) :=
  match stk with
  | none => none
  | some stk =>
    if o.name = "End" then some stk
    else if o.name = "GlobalGet" then
      (match o.args with | [.ref _ g] => (globals[g]?).map (· :: stk) | _ => none)
    else if o.name = "RefFunc" then
      (match o.args with | [.ref _ f] => (res f).map fun u => .fref (some u) :: stk | _ => none)
    else match pureOp o stk with
      | some (.ok s) => some s
      | _ => none

/-- constant expressions: constants, `global.get`, `ref.func`, `ref.null`, integer arithmetic -/
def evalConst (res : Nat → Option Nat) (globals : List V) (c : CExprM) : Option V :=
  match c.foldl (constStep res globals) (some []) with
  | some [v] => some v
  | _ => none

inductive Inst
  | ok (st : Store)
  | fail (why : String)

def memOfTy (t : MemTyM) : Mem :=
  ⟨t.min, t.max, (match t.pageLog2 with | some l => 2 ^ l | none => 65536), t.mem64, {}⟩

def tabOfTy (t : TableTyM) : Tab :=
  ⟨List.replicate t.min (if t.elem = "externref" then .xref none else .fref none), t.max, t.table64, t.elem = "externref"⟩

def elemItems (res : Nat → Option Nat) (globals : List V) (e : ElemM) : Option (List V) :=
  match e.items with
  | .funcs fs => fs.mapM fun f => (res f).map fun u => .fref (some u)
  | .exprs _ es => es.mapM (evalConst res globals)

def initGlobals (res : Nat → Option Nat) (imp : List V) (gl : List (GlobalTyM × CExprM)) : Option (List V) :=
  gl.foldl (fun (acc : Option (List V)) g =>
    acc.bind fun gs => (evalConst res gs g.2).map fun v => gs ++ [v]) (some imp)

/-- one element segment at instantiation: active ones are written into their table and dropped,
    declared ones are dropped -/
def elemStep (res : Nat → Option Nat) (acc : Except String Store) (p : ElemM × Nat) : Except String Store :=
  match acc with
  | .error e => .error e
  | .ok st =>
    match p.1.mode with
    | .active t off =>
      let ti := t.getD 0
      (match evalConst res st.globals off, st.tabs[ti]?, st.elems[p.2]? with
       | some o, some tb, some vs =>
         if o.payload + vs.length > tb.elems.length then .error "out of bounds table access" else
         let el := tb.elems.take o.payload ++ vs ++ tb.elems.drop (o.payload + vs.length)
         .ok { st with tabs := st.tabs.set ti { tb with elems := el }, elems := st.elems.set p.2 [] }
       | _, _, _ => .error "bad element segment")
    | .declared => .ok { st with elems := st.elems.set p.2 [] }
    | .passive => .ok st

def dataStep (res : Nat → Option Nat) (acc : Except String Store) (p : DataM × Nat) : Except String Store :=
  match acc with
  | .error e => .error e
  | .ok st =>
    match p.1.mode with
    | .active mi off =>
      (match evalConst res st.globals off, st.mems[mi]?, st.datas[p.2]? with
       | some o, some mm, some bytes =>
         if o.payload + bytes.length > mm.size then .error "out of bounds memory access" else
         .ok { st with mems := st.mems.set mi (mm.writeBytes o.payload bytes), datas := st.datas.set p.2 [] }
       | _, _, _ => .error "bad data segment")
    | .passive => .ok st

def runStart (res : Nat → Option Nat) (inv : CallFn) (start : Option Nat) (st2 : Store) : Inst :=
  match start with
  | none => .ok st2
  | some f =>
    match res f with
    | none => .fail "start: no such function"
    | some u =>
      match inv u [] st2 with
      | .ok _ st3 => .ok st3
      | .trap w _ => .fail ("start trapped: " ++ w)
      | .oog => .fail "start: out of gas"
      | .unsup w => .fail ("start: unsupported " ++ w)

/-- instantiate against the canonical host: imported globals get a value derived from their name,
    imported tables and memories arrive at their minimum size, empty -/
def instantiate (m : ModuleM) (res : Nat → Option Nat) (inv : CallFn) : Inst :=
  let impGlobals : List V := m.imports.filterMap fun i => match i.2.2 with
    | .global g =>
      -- the host hands out a non-null reference for an imported externref global
      let h := strHash (i.1 ++ "." ++ i.2.1) % 1000
      some (if g.ty = "externref" then .xref (some h) else mkTy g.ty h)
    | _ => none
  match initGlobals res impGlobals m.globals with
  | none => .fail "unsupported constant expression"
  | some globals =>
    let tabs := (m.imports.filterMap fun i => match i.2.2 with | .table t => some (tabOfTy t) | _ => none) ++ m.tables.map tabOfTy
    let mems := (m.imports.filterMap fun i => match i.2.2 with | .mem t => some (memOfTy t) | _ => none) ++ m.mems.map memOfTy
    match m.elems.mapM (elemItems res globals) with
    | none => .fail "unsupported element expression"
    | some items =>
      let st0 : Store := ⟨globals, mems, tabs, m.datas.map (fun d => hexBytes d.bytes.toList), items, [], 0⟩
      match (m.elems.zipIdx).foldl (elemStep res) (.ok st0) with
      | .error e => .fail e
      | .ok st1 =>
        match (m.datas.zipIdx).foldl (dataStep res) (.ok st1) with
        | .error e => .fail e
        | .ok st2 => runStart res inv m.start st2

/-! ## the call script and the observation -/

def interesting : List Nat :=
  [0, 1, 2, 3, 7, 8, 255, 256, 65535, 65536, 65537, 2147483647, 2147483648, 4294967295, 4294967296, 1000, 12, 100]

def lcg (x : Nat) : Nat := (x * 6364136223846793005 + 1442695040888963407) % p64

def argFor (seed : Nat) (ty : String) : V :=
  let r := lcg seed
  let pick := if r / 65536 % 4 = 0 then r / 7 else interesting.getD (r / 65536 % interesting.length) 0
  mkTy ty pick

def sigText (s : Sig) : String := join "," s.1 ++ "->" ++ join "," s.2

def showMem (m : Mem) : String :=
  let sorted := (m.bytes.toList.filter (·.2 ≠ 0)).mergeSort (fun a b => a.1 ≤ b.1)
  -- every non-zero byte enters the digest; the first 24 are also shown
  let digest := sorted.foldl (fun h p => mix (mix h p.1) p.2) 17
  let cells := (sorted.take 24).map fun p => s!"{p.1}={p.2}"
  s!"pages={m.pages} nonzero={sorted.length} digest={digest} " ++ join "," cells

def showTabEntry (US : List Sig) : V → String
  | .fref (some u) => match US[u]? with | some sg => "func(" ++ sigText sg ++ ")" | none => "dangling"
  | v => showV v

def insertStr (x : String × String × Nat) : List (String × String × Nat) → List (String × String × Nat)
  | [] => [x]
  | y :: r => if x.1 ≤ y.1 then x :: y :: r else y :: insertStr x r

/-- exported state: every exported global, memory and table, by export name -/
def showState (m : ModuleM) (US : List Sig) (st : Store) : String :=
  let ex := m.exports.foldr insertStr []
  join " " (ex.filterMap fun e =>
    if e.2.1 = "g" then (st.globals[e.2.2]?).map fun v => s!"{e.1}:g={showTabEntry US v}"
    else if e.2.1 = "m" then (st.mems[e.2.2]?).map fun mm => s!"{e.1}:m=[{showMem mm}]"
    else if e.2.1 = "t" then (st.tabs[e.2.2]?).map fun tb => s!"{e.1}:t=[" ++ join "," (tb.elems.map (showTabEntry US)) ++ "]"
    else none)

/-- run the script: `rounds` passes over the exported functions in name order, arguments drawn from
    `seed`; state carries over from call to call; stop at the first out-of-gas / unsupported outcome -/
def runCalls (res : Nat → Option Nat) (US : List Sig) (inv : CallFn) : List (String × Nat × Nat) → Store → List String → List String × Store
  | [], st, acc => (acc.reverse, st)
  | (name, f, sd) :: rest, st, acc =>
    match (res f).bind fun u => (US[u]?).map fun sg => (u, sg) with
    | none => ((s!"{name}: no such function" :: acc).reverse, st)
    | some (u, sg) =>
      let args := sg.1.zipIdx.map fun p => argFor (sd + p.2 * 7919) p.1
      let hdr := name ++ "(" ++ join "," (args.map showV) ++ ")"
      match inv u args st with
      | .ok rs st' => runCalls res US inv rest st' ((hdr ++ "=>" ++ join "," (rs.map (showTabEntry US))) :: acc)
      | .trap w st' => runCalls res US inv rest st' ((hdr ++ "=>trap:" ++ w) :: acc)
      | .oog => (((hdr ++ "=>out-of-gas") :: acc).reverse, st)
      | .unsup w => (((hdr ++ "=>unsupported:" ++ w) :: acc).reverse, st)

/-- the observation, given the resolution of function indices to uids, the signatures by uid and
    the meaning of a call (by uid) -/
def observeWith (m : ModuleM) (res : Nat → Option Nat) (US : List Sig) (inv : CallFn) (seed rounds : Nat) : String :=
  match instantiate m res inv with
  | .fail w => "instantiate: " ++ w
  | .ok st0 =>
    let exf := (m.exports.filter (·.2.1 = "f")).foldr insertStr []
    let script : List (String × Nat × Nat) := (List.range rounds).flatMap fun r =>
      exf.zipIdx.map fun p => (p.1.1, p.1.2.2, lcg (seed + r * 104729 + p.2 * 1299709))
    let (lines, st) := runCalls res US inv script st0 []
    "instantiate: ok; " ++ join "; " lines ++ "; trace: " ++ join " " st.trace.reverse ++ "; state: " ++ showState m US st

def observe (m : ModuleM) (seed rounds gas : Nat) : String :=
  match mkEnv m with
  | none => "ill-formed"
  | some E => observeWith m E.resolve E.usigs (invoke E gas) seed rounds

end Walrus.Sem
