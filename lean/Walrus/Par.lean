/-
M14: the collection discipline of walrus's parallel sections (`maybe_parallel!` sites).

A *schedule* is the order in which the per-item tasks happen to complete (any list of item
indices; for a complete run, a permutation of `0..n`). `runSched` is rayon's indexed `collect`:
task `i` writes its result into slot `i`. `schedAny` is `any`: a disjunction evaluated in
completion order. Tie: T6 (`Gen/ParSites.lean`, regenerated from the source on every run) shows
that every parallel site has one of these two shapes.
-/
namespace Walrus

variable {α β : Type}

def runSched (f : α → β) (xs : List α) (sched : List Nat) (slots : List (Option β)) : List (Option β) :=
  sched.foldl (fun sl i => match xs[i]? with | some x => sl.set i (some (f x)) | none => sl) slots

/-- indexed parallel `map(..).collect::<Vec<_>>()` under a schedule -/
def parMapCollect (f : α → β) (xs : List α) (sched : List Nat) : List (Option β) :=
  runSched f xs sched (List.replicate xs.length none)

/-- parallel `any` under a schedule -/
def schedAny (p : α → Bool) (xs : List α) (sched : List Nat) : Bool :=
  sched.any (fun i => match xs[i]? with | some x => p x | none => false)

/-- the serial loop that follows the collect in `parse_local_functions`: first error in index order -/
def firstError {ε : Type} : List (Except ε β) → Except ε (List β)
  | [] => .ok []
  | .error e :: _ => .error e
  | .ok v :: r => match firstError r with
    | .ok vs => .ok (v :: vs)
    | .error e => .error e

end Walrus
