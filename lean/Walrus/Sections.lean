/-
M9 (slice): custom sections, producers, name-section presence, DWARF switch, parse callback,
and `emit_wasm` as a *state transformer* (what does emitting do to the in-memory module?).

Mirrors: `Module::parse` (the `Payload::CustomSection` arm and the tail of the function),
`Module::emit_wasm` (everything after the standard sections), `ModuleProducers::field`,
`parse_producers_section`, `ModuleProducers::emit`.  Tie: H (suite `sections`).
-/

namespace Walrus

structure PField where
  name : String
  values : List (String × String)      -- (name, version)
  deriving Repr, DecidableEq

/-- `ModuleProducers::field`: replace the value with this name in the *first* field of this name,
    else append the value to that field, else append a new field. -/
def replaceOrPush (vs : List (String × String)) (name version : String) : List (String × String) :=
  match vs with
  | [] => [(name, version)]
  | (n, v) :: r => if n = name then (name, version) :: r else (n, v) :: replaceOrPush r name version

def producersField (fs : List PField) (field name version : String) : List PField :=
  match fs with
  | [] => [⟨field, [(name, version)]⟩]
  | f :: r =>
    if f.name = field then { f with values := replaceOrPush f.values name version } :: r
    else f :: producersField r field name version

structure SCfg where
  skipName : Bool
  skipProducers : Bool
  generateDwarf : Bool
  deriving Repr, DecidableEq

/-- one custom section of the input, with the views an independent decoder gives of it -/
structure InC where
  name : String
  data : String                 -- payload (hex)
  prod : List PField            -- producers view: the fields that decode before the first error
  modname : Option String       -- name-section view (this slice: module name only)
  nonEmptyDwarf : Bool          -- `.debug_*` view: section carries data
  deriving Repr

inductive CKind | producers | name | debug | raw
  deriving Repr, DecidableEq

/-- `name.starts_with(".debug")`, written so that it reduces in the kernel -/
def isDebugName (s : String) : Bool := (".debug".toList).isPrefixOf s.toList

/-- the `match s.name()` of the `Payload::CustomSection` arm -/
def classify (name : String) : CKind :=
  if name = "producers" then .producers
  else if name = "name" then .name
  else if isDebugName name then .debug
  else .raw

inductive OutC
  | names (modname : Option String)
  | producers (fields : List PField)
  | dwarf
  | raw (name data : String)
  deriving Repr, DecidableEq

/-- the part of `Module` this slice is about -/
structure SMod where
  cfg : SCfg
  customs : List (String × String)     -- live raw custom sections, arena order
  producers : List PField
  modname : Option String
  hasDwarf : Bool
  onParseCalls : Nat
  deriving Repr

def parseCustom (m : SMod) (c : InC) : SMod :=
  match classify c.name with
  | .producers => { m with producers := m.producers ++ c.prod }
  | .name => match c.modname with
      | some n => { m with modname := some n }
      | none => m
  | .debug => { m with hasDwarf := m.hasDwarf || c.nonEmptyDwarf }
  | .raw => { m with customs := m.customs ++ [(c.name, c.data)] }

/-- `Module::parse` restricted to this slice. `valid = false`: the validator / a `parse_*` step
    rejects the input, the function returns `Err` before reaching the callback. -/
def sparse (cfg : SCfg) (version : String) (valid : Bool) (input : List InC) : Option SMod :=
  if !valid then none else
  let m0 : SMod := ⟨cfg, [], [], none, false, 0⟩
  let m1 := input.foldl parseCustom m0
  let m2 := { m1 with producers := producersField m1.producers "processed-by" "walrus" version }
  some { m2 with onParseCalls := m2.onParseCalls + 1 }

/-- the custom-section tail of `emit_wasm`; returns the output sections and the module afterwards -/
def semit (m : SMod) : List OutC × SMod :=
  let names := if !m.cfg.skipName && m.modname.isSome then [OutC.names m.modname] else []
  let prods := if !m.cfg.skipProducers && !m.producers.isEmpty then [OutC.producers m.producers] else []
  let dwarf := if m.cfg.generateDwarf && m.hasDwarf then [OutC.dwarf] else []
  let raws := (m.customs.filter (fun c => !isDebugName c.1)).map (fun c => OutC.raw c.1 c.2)
  (names ++ prods ++ dwarf ++ raws, m)

/-- the GC pass does not touch anything in this slice -/
def sgc (m : SMod) : SMod := m

/-- view of an output section as an input section of the next round trip -/
def OutC.toIn : OutC → InC
  | .names n => ⟨"name", "", [], n, false⟩
  | .producers fs => ⟨"producers", "", fs, none, false⟩
  | .dwarf => ⟨".debug_info", "", [], none, true⟩
  | .raw n d => ⟨n, d, [], none, false⟩

inductive SOp | emit | gc
  deriving Repr, DecidableEq

/-- run a script of operations on one in-memory module, collecting the output of every emit -/
def srun : SMod → List SOp → List (List OutC)
  | _, [] => []
  | m, .emit :: r => let (o, m') := semit m; o :: srun m' r
  | m, .gc :: r => srun (sgc m) r

end Walrus
