import Walrus.Body

/-
M11: `FunctionBuilder` / `InstrSeqBuilder` (src/function_builder.rs) as a state transformer over
an arena of sequences. `block`, `loop_`, `if_else` and their `_at` variants are compositions of
these three primitives (allocate the nested sequence(s), run the closure, attach), and are logged
by the harness as the primitive steps they perform.
-/
namespace Walrus

inductive BOp
  | dangling (ty : SeqTy)                       -- dangling_instr_seq(ty): returns the next arena id
  | push (seq : Nat) (i : BInstr)               -- instr(..)
  | insertAt (seq : Nat) (pos : Nat) (i : BInstr)  -- instr_at(pos, ..): panics when pos > len
  deriving Repr

/-- builder state: sequences in allocation order; id = position -/
abbrev BState := List (SeqTy × List BInstr)

def insertAtList {α : Type} (l : List α) (pos : Nat) (x : α) : Option (List α) :=
  if pos ≤ l.length then some (l.take pos ++ x :: l.drop pos) else none

def modifySeq (st : BState) (seq : Nat) (f : List BInstr → Option (List BInstr)) : Option BState :=
  match st[seq]? with
  | none => none
  | some (ty, is) => (f is).map fun is' => st.set seq (ty, is')

/-- one builder call; `none` = panic. `dangling` also reports the id it handed out. -/
def bstep (st : BState) : BOp → Option (BState × Option Nat)
  | .dangling ty => some (st ++ [(ty, [])], some st.length)
  | .push seq i => (modifySeq st seq (fun is => some (is ++ [i]))).map (·, none)
  | .insertAt seq pos i => (modifySeq st seq (fun is => insertAtList is pos i)).map (·, none)

def brun : BState → List BOp → Option BState
  | st, [] => some st
  | st, op :: r => (bstep st op).bind fun p => brun p.1 r

def BState.toArena (st : BState) : BArena :=
  st.zipIdx.map fun p => (p.2, (p.1.1, defaultLoc), p.1.2.map (fun i => bT (i, defaultLoc)))

end Walrus
