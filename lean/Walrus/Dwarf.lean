import Walrus.Offsets

/-
M10 (DWARF address logic): `CodeAddressGenerator::find_address`, `CodeAddressConverter::find_address`
(`src/module/debug/expression.rs`), the `convert_address` closures of `ModuleDebugData::emit`
(`debug/mod.rs`), `convert_high_pc` and the line-row loop of `convert_line_program`
(`debug/dwarf.rs`) over an abstract line program.  gimli's parsing / serialisation is not modelled.
Binary searches over tables sorted by a key with distinct keys are modelled as lookups.
-/
namespace Walrus

inductive CodeAddress
  | instrInFunction (loc : Nat)
  | instrEdge (loc : Nat)
  | offsetInFunction (func : Nat) (offset : Nat)
  | functionEdge (func : Nat)
  | unknown
  deriving Repr, DecidableEq

/-- input side: per local function its `original_range` (relative to the code section contents)
    and the `instruction_mapping` (relative address ↦ location) of all functions -/
structure AddrGen where
  ranges : List (Nat × Nat × Nat)      -- (start, end, function id), sorted by start
  instrs : List (Nat × Nat)            -- (address, location), sorted by address
  deriving Repr

def lookupAddr (l : List (Nat × Nat)) (a : Nat) : Option Nat :=
  match l with
  | [] => none
  | (k, v) :: r => if k = a then some v else lookupAddr r a

/-- first entry whose address is greater than `a` (the insertion point of a failed binary search) -/
def nextAfter (l : List (Nat × Nat)) (a : Nat) : Option (Nat × Nat) := l.find? (fun p => a < p.1)

inductive Pref | exclusiveEnd | inclusiveEnd
  deriving Repr, DecidableEq

def rangeMatch (pref : Pref) (a : Nat) (r : Nat × Nat × Nat) : Bool :=
  match pref with
  | .inclusiveEnd => r.1 < a && a ≤ r.2.1
  | .exclusiveEnd => r.1 ≤ a && a < r.2.1

/-- `CodeAddressGenerator::find_address` -/
def findAddress (g : AddrGen) (a : Nat) (pref : Pref) : CodeAddress :=
  match lookupAddr g.instrs a with
  | some loc => .instrInFunction loc
  | none =>
    match nextAfter g.instrs a with
    | some (k, loc) => if k - 1 = a then .instrEdge loc else findRange g a pref
    | none => findRange g a pref
where
  findRange (g : AddrGen) (a : Nat) (pref : Pref) : CodeAddress :=
    match g.ranges.find? (rangeMatch pref a) with
    | some (s, e, f) => if a = e then .functionEdge f else .offsetInFunction f (a - s)
    | none => .unknown

def lookupRange (l : List (Nat × Nat × Nat)) (f : Nat) : Option (Nat × Nat) :=
  match l with
  | [] => none
  | (k, s, e) :: r => if k = f then some (s, e) else lookupRange r f

/-- `CodeAddressConverter::find_address` over the emitted `CodeTransform` -/
def convertCode (ct : CodeTransform) : CodeAddress → Option Nat
  | .instrInFunction loc => lookupAddr ct.instructionMap loc
  | .instrEdge loc => (lookupAddr ct.instructionMap loc).map (· - 1)
  | .offsetInFunction f off => (lookupRange ct.functionRanges f).map (·.1 + off)
  | .functionEdge f => (lookupRange ct.functionRanges f).map (·.2)
  | .unknown => none

/-- the closure `convert_address` of `ModuleDebugData::emit`: an address relative to the contents
    of the *output* code section -/
def convertAddress (g : AddrGen) (ct : CodeTransform) (a : Nat) (pref : Pref) : Option Nat :=
  (convertCode ct (findAddress g a pref)).map (· - ct.codeSectionStart)

def deadCode : Nat := 0xFFFFFFFF

/-- the closure handed to `write::Dwarf::from` (every `DW_FORM_addr` attribute, e.g. `DW_AT_low_pc`) -/
def convertAttrAddress (g : AddrGen) (ct : CodeTransform) (a : Nat) : Nat :=
  if a = 0 || a = deadCode then a else (convertAddress g ct a .inclusiveEnd).getD deadCode

/-- `convert_high_pc` for one DIE with `low_pc` (address form) and `high_pc` (offset form):
    the new (low_pc, high_pc) pair -/
def convertSubprogram (g : AddrGen) (ct : CodeTransform) (low len : Nat) : Nat × Nat :=
  let newLowAttr := convertAttrAddress g ct low
  match convertAddress g ct low .inclusiveEnd, convertAddress g ct (low + len) .inclusiveEnd with
  | some l, some h => (newLowAttr, h - l)
  | _, _ => (newLowAttr, len)

/-- abstract line-number program: what the row loop sees after the header -/
inductive LineInstr
  | setAddress (a : Nat)
  | row (addrOffset : Nat) (line : Nat)       -- an instruction that emits a row, at sequence-relative address
  | endSequence (addrOffset : Nat)
  deriving Repr

structure OutRow where
  address : Nat            -- absolute: sequence base + offset
  line : Nat
  endSeq : Bool
  deriving Repr, DecidableEq

structure LineSt where
  fromBase : Nat := 0
  inSeq : Bool := false
  seqBase : Option Nat := none
  out : List OutRow := []
  /-- `program.row().address_offset` of the writer: 0 after `begin_sequence`, the offset of the last
      generated row afterwards -/
  lastOff : Nat := 0
  deriving Repr

/-- one iteration of the `while let Some(instruction)` loop of `convert_line_program`
    (`SetAddress` inside a sequence is an error: `none`). An `end_sequence` whose address does not
    resolve (it lies in code that is not emitted) closes the open sequence at the last row that was
    kept. -/
def lineStep (g : AddrGen) (ct : CodeTransform) (st : LineSt) : LineInstr → Option LineSt
  | .setAddress a => if st.inSeq then none else some { st with fromBase := a }
  | .row off line => some (emit st (st.fromBase + off) (some line))
  | .endSequence off => some (emit st (st.fromBase + off) none)
where
  emit (st : LineSt) (fromRowAddr : Nat) (line : Option Nat) : LineSt :=
    -- begin a new sequence if there is none
    let st1 : LineSt :=
      if st.inSeq then st else
        let b := convertAddress g ct st.fromBase .exclusiveEnd
        { st with seqBase := b, inSeq := b.isSome, lastOff := if b.isSome then 0 else st.lastOff }
    match st1.seqBase with
    | none => st1
    | some base =>
      match convertAddress g ct fromRowAddr .inclusiveEnd with
      | none =>
        (match line with
         | none =>
           if st1.inSeq then
             { st1 with out := st1.out ++ [⟨base + st1.lastOff, 0, true⟩], inSeq := false, fromBase := fromRowAddr }
           else st1
         | some _ => st1)
      | some addr =>
        let off := addr - base        -- saturating
        match line with
        | none => { st1 with out := st1.out ++ [⟨base + off, 0, true⟩], inSeq := false, fromBase := fromRowAddr }
        | some l => { st1 with out := st1.out ++ [⟨base + off, l, false⟩], lastOff := off }

def lineRun (g : AddrGen) (ct : CodeTransform) : LineSt → List LineInstr → Option LineSt
  | st, [] => some st
  | st, i :: r => (lineStep g ct st i).bind (lineRun g ct · r)

end Walrus
