import Walrus.Sem

/-
M13 (continued): renumbering of the index spaces an operator can name.  walrus renumbers functions
(size-sorted emission), types (de-duplication and sorting), locals (compaction) and rewrites block
types to their normal form; `Ren` is such a renumbering and `SL.ren` applies it to a body.
-/
namespace Walrus.Sem

structure Ren where
  f : Nat → Nat        -- function indices
  y : Nat → Nat        -- type indices
  x : Nat → Nat        -- local indices of the function the body belongs to
  bt : BT → BT         -- block types (type-index renumbering and normal form)

def isLocalOp (n : String) : Bool := n = "LocalGet" || n = "LocalSet" || n = "LocalTee"

/-- renumber the operands of one operator (the operators that name functions, types or locals) -/
def Ren.op (ρ : Ren) (o : Op) : Op :=
  if o.name = "Call" || o.name = "RefFunc" || o.name = "ReturnCall" then
    match o.args with
    | [.ref sp f] => ⟨o.name, [.ref sp (ρ.f f)]⟩
    | _ => o
  else if o.name = "CallIndirect" || o.name = "ReturnCallIndirect" then
    match o.args with
    | [.ref sp y, t] => ⟨o.name, [.ref sp (ρ.y y), t]⟩
    | _ => o
  else if isLocalOp o.name then
    match o.args with
    | [.ref sp x] => ⟨o.name, [.ref sp (ρ.x x)]⟩
    | _ => o
  else o

mutual
def SI.ren (ρ : Ren) : SI → SI
  | .op o => .op (ρ.op o)
  | .block bt b => .block (ρ.bt bt) (b.ren ρ)
  | .loop bt b => .loop (ρ.bt bt) (b.ren ρ)
  | .ite bt t e => .ite (ρ.bt bt) (t.ren ρ) (e.ren ρ)
def SL.ren (ρ : Ren) : SL → SL
  | .nil => .nil
  | .cons h t => .cons (h.ren ρ) (t.ren ρ)
end

mutual
/-- a property of every operator of a body -/
def SI.All (P : Op → Prop) : SI → Prop
  | .op o => P o
  | .block _ b => b.All P
  | .loop _ b => b.All P
  | .ite _ t e => t.All P ∧ e.All P
def SL.All (P : Op → Prop) : SL → Prop
  | .nil => True
  | .cons h t => h.All P ∧ t.All P
end

end Walrus.Sem
