import Walrus.Sem

/-
M13 (continued): renumbering of the index spaces an operator can name.  walrus renumbers functions
(size-sorted emission), types (de-duplication and sorting), locals (compaction) and rewrites block
types to their normal form; `Ren` is such a renumbering and `SL.ren` applies it to a body.
-/
namespace Walrus.Sem

structure Ren where
  f : Nat → Nat        -- function indices
  y : Nat → Nat        -- type indices
  x : Nat → Nat        -- local indices of the function the body belongs to
  bt : BT → BT         -- block types (type-index renumbering and normal form)

def isLocalOp (n : String) : Bool := n = "LocalGet" || n = "LocalSet" || n = "LocalTee"

/-- renumber the operands of one operator (the operators that name functions, types or locals) -/
def Ren.op (ρ : Ren) (o : Op) : Op :=
  if o.name = "Call" || o.name = "RefFunc" || o.name = "ReturnCall" then
    match o.args with
    | [.ref sp f] => ⟨o.name, [.ref sp (ρ.f f)]⟩
    | _ => o
  else if o.name = "CallIndirect" || o.name = "ReturnCallIndirect" then
    match o.args with
    | [.ref sp y, t] => ⟨o.name, [.ref sp (ρ.y y), t]⟩
    | _ => o
  else if isLocalOp o.name then
    match o.args with
    | [.ref sp x] => ⟨o.name, [.ref sp (ρ.x x)]⟩
    | _ => o
  else o

mutual
def SI.ren (ρ : Ren) : SI → SI
  | .op o => .op (ρ.op o)
  | .block bt b => .block (ρ.bt bt) (b.ren ρ)
  | .loop bt b => .loop (ρ.bt bt) (b.ren ρ)
  | .ite bt t e => .ite (ρ.bt bt) (t.ren ρ) (e.ren ρ)
def SL.ren (ρ : Ren) : SL → SL
  | .nil => .nil
  | .cons h t => .cons (h.ren ρ) (t.ren ρ)
end

mutual
/-- a property of every operator of a body -/
def SI.All (P : Op → Prop) : SI → Prop
  | .op o => P o
  | .block _ b => b.All P
  | .loop _ b => b.All P
  | .ite _ t e => t.All P ∧ e.All P
def SL.All (P : Op → Prop) : SL → Prop
  | .nil => True
  | .cons h t => h.All P ∧ t.All P
end

/-! ## the function indices carried by the non-code sections -/

def mapFOp (g : Nat → Nat) (o : Op) : Op :=
  if o.name = "RefFunc" then
    match o.args with
    | [.ref sp f] => ⟨o.name, [.ref sp (g f)]⟩
    | _ => o
  else o

def mapFC (g : Nat → Nat) (c : CExprM) : CExprM := c.map (mapFOp g)

def mapFElem (g : Nat → Nat) (e : ElemM) : ElemM :=
  { e with
    mode := (match e.mode with
      | .active t off => .active t (mapFC g off)
      | .passive => .passive
      | .declared => .declared),
    items := (match e.items with
      | .funcs fs => .funcs (fs.map g)
      | .exprs ty es => .exprs ty (es.map (mapFC g))) }

def mapFData (g : Nat → Nat) (d : DataM) : DataM :=
  { d with mode := (match d.mode with
      | .active mi off => .active mi (mapFC g off)
      | .passive => .passive) }

def mapFExport (g : Nat → Nat) (e : String × String × Nat) : String × String × Nat :=
  if e.2.1 = "f" then (e.1, e.2.1, g e.2.2) else e

/-- the module with the function indices of its non-code sections renumbered by `g` -/
def mapFM (g : Nat → Nat) (m : ModuleM) : ModuleM :=
  { m with globals := m.globals.map (fun p => (p.1, mapFC g p.2)), elems := m.elems.map (mapFElem g),
           datas := m.datas.map (mapFData g), start := m.start.map g, exports := m.exports.map (mapFExport g) }

end Walrus.Sem
