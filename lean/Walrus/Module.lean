import Walrus.Code

/-
M2/M4/M7: the whole module. `ModuleM` is the index-based abstract syntax of a wasm module (what an
independent decoder reads off a binary); `roundTripModule` is `Module::parse` followed by
`Module::emit_wasm` on it: ids for every index space, type de-duplication and sorting, size-sorted
function order, segment flag selection as wasm-encoder does it, the data-count rule, names.
Custom sections / producers / DWARF are in `Walrus/Sections.lean`.
-/
namespace Walrus

structure TableTyM where
  elem : String
  min : Nat
  max : Option Nat
  table64 : Bool
  deriving Repr, DecidableEq

structure MemTyM where
  min : Nat
  max : Option Nat
  shared : Bool
  mem64 : Bool
  pageLog2 : Option Nat
  deriving Repr, DecidableEq

structure GlobalTyM where
  ty : String
  mutable : Bool
  shared : Bool
  deriving Repr, DecidableEq

inductive ImportDescM
  | func (ty : Nat) | table (t : TableTyM) | mem (m : MemTyM) | global (g : GlobalTyM)
  deriving Repr, DecidableEq

/-- a constant expression: its operators (normally one), generic like function-body operators -/
abbrev CExprM := List Op

inductive ElemModeM
  | active (table : Option Nat) (offset : CExprM) | passive | declared
  deriving Repr, DecidableEq

inductive ElemItemsM
  | funcs (fs : List Nat) | exprs (ty : String) (es : List CExprM)
  deriving Repr, DecidableEq

structure ElemM where
  flag : Nat
  mode : ElemModeM
  items : ElemItemsM
  deriving Repr, DecidableEq

inductive DataModeM
  | active (mem : Nat) (offset : CExprM) | passive
  deriving Repr, DecidableEq

structure DataM where
  flag : Nat
  mode : DataModeM
  bytes : String
  deriving Repr, DecidableEq

structure NamesM where
  module : Option String := none
  funcs : List (Nat × String) := []
  locals : List (Nat × List (Nat × String)) := []
  types : List (Nat × String) := []
  tables : List (Nat × String) := []
  mems : List (Nat × String) := []
  globals : List (Nat × String) := []
  elems : List (Nat × String) := []
  datas : List (Nat × String) := []
  deriving Repr, DecidableEq

structure ModuleM where
  sigs : List Sig := []
  imports : List (String × String × ImportDescM) := []
  funcs : List Nat := []
  tables : List TableTyM := []
  mems : List MemTyM := []
  globals : List (GlobalTyM × CExprM) := []
  exports : List (String × String × Nat) := []       -- name, kind (f t m g), index
  start : Option Nat := none
  elems : List ElemM := []
  dataCount : Option Nat := none
  datas : List DataM := []
  code : List (List (Nat × String) × List (Op × Nat)) := []
  names : Option NamesM := none
  /-- roots contributed by custom sections (`CustomSection::add_gc_roots`): (space, index) -/
  roots : List (String × Nat) := []
  deriving Repr

def importedCount (m : ModuleM) (k : String) : Nat :=
  (m.imports.filter fun i => match i.2.2, k with
    | .func _, "f" => true | .table _, "t" => true | .mem _, "m" => true | .global _, "g" => true
    | _, _ => false).length

/-- rename the entity operands of a constant expression -/
def mapCExpr (m : IdMaps) (c : CExprM) : Option CExprM :=
  c.mapM fun op => (mapArgs m op.args).map fun a => ⟨op.name, a⟩

/-- flag byte wasm-encoder 0.214 chooses for an element segment -/
def elemFlag (mode : ElemModeM) (items : ElemItemsM) : Nat :=
  let exprBit := match items with | .exprs _ _ => 4 | .funcs _ => 0
  match mode with
  | .passive => 1 + exprBit
  | .declared => 3 + exprBit
  | .active none _ =>
    (match items with
     | .funcs _ => 0
     | .exprs ty _ => if ty = "funcref" then 4 else 6)
  | .active (some _) _ => 2 + exprBit

def dataFlag : DataModeM → Nat
  | .passive => 1
  | .active 0 _ => 0
  | .active _ _ => 2

def sortNames (l : List (Nat × String)) : List (Nat × String) := sortBy (fun a b => a.1 ≤ b.1) l

/-- does the (reachable, elided) IR of a function mention a data segment? (`used_data_segments`) -/
def usesData (evs : List EEv) : Bool :=
  evs.any fun e => match e with
    | .instr (.leaf op) _ => op.args.any (fun a => match a with | .ref "d" _ => true | _ => false)
    | _ => false

/-- last name given to an id wins (`get_mut(id).name = Some(..)` in section order) -/
def lastName (l : List (Nat × String)) (id : Nat) : Option String :=
  (l.reverse.find? (·.1 = id)).map (·.2)

def distinctIds (l : List Nat) : List Nat := l.foldl (fun acc x => if acc.contains x then acc else acc ++ [x]) []

/-- names of an index space whose ids are their indices: one name per named index (the last one
    given), sorted by index -/
def keepNames (l : List (Nat × String)) : List (Nat × String) :=
  sortNames ((distinctIds (l.map (·.1))).filterMap fun i => (lastName l i).map (i, ·))

/-- function names through the id → index map -/
def funcNamesOut (l : List (Nat × String)) (funcMap : List (Nat × Nat)) : List (Nat × String) :=
  sortNames ((distinctIds (l.map (·.1))).filterMap fun i =>
    match lastName l i, assoc funcMap i with
    | some s, some j => some (j, s)
    | _, _ => none)

/-- one element segment through parse and emit -/
def rtElem (funcMap : List (Nat × Nat)) (maps : IdMaps) (e : ElemM) : Option ElemM :=
  let mode := match e.mode with
    | .active t off => (mapCExpr maps off).map fun o =>
        -- the table operand is given explicitly only when its index is not 0
        ElemModeM.active (match t.getD 0 with | 0 => none | k => some k) o
    | x => some x
  let items := match e.items with
    | .funcs fs => (fs.mapM (assoc funcMap)).map ElemItemsM.funcs
    | .exprs ty es => (es.mapM (mapCExpr maps)).map (ElemItemsM.exprs ty)
  match mode, items with
  | some md, some it =>
    let flag := elemFlag md it
    -- encodings 2 and 6 carry an explicit table index, which a decoder reports
    let md' := match md with
      | .active none o => if flag = 2 || flag = 6 then ElemModeM.active (some 0) o else md
      | x => x
    some (⟨flag, md', it⟩ : ElemM)
  | _, _ => none

/-- which part of an input name section is applied (`parse_name_section`): subsections are read in
    order; an entry that names a missing entity is skipped with a warning, **except** a local-name
    entry for a function index that does not exist, which makes the reader give up: the local names
    before it stay, every later subsection (types, tables, memories, globals, elements, data in the
    standard order) is ignored. -/
def appliedNames (nFuncs : Nat) (n : NamesM) : NamesM :=
  let good := n.locals.takeWhile (·.1 < nFuncs)
  if good.length = n.locals.length then n
  else { n with locals := good, types := [], tables := [], mems := [], globals := [], elems := [], datas := [] }

/-- a module may carry several `name` sections; each is read on its own (so a reader that gives up
    does so for that section only) and a later section's entries are applied after the earlier ones,
    the later name winning where both name the same entity -/
def mergeNames (a b : NamesM) : NamesM :=
  { module := match b.module with | some m => some m | none => a.module,
    funcs := a.funcs ++ b.funcs, locals := a.locals ++ b.locals, types := a.types ++ b.types,
    tables := a.tables ++ b.tables, mems := a.mems ++ b.mems, globals := a.globals ++ b.globals,
    elems := a.elems ++ b.elems, datas := a.datas ++ b.datas }

def appliedNameSections (nFuncs : Nat) (secs : List NamesM) : NamesM :=
  (secs.map (appliedNames nFuncs)).foldl mergeNames {}

/-- entries that name an entity the module does not have are skipped (with a warning) -/
def inRangeNames (nF nY nT nM nG nE nD : Nat) (n : NamesM) : NamesM :=
  { n with funcs := n.funcs.filter (·.1 < nF), types := n.types.filter (·.1 < nY),
           tables := n.tables.filter (·.1 < nT), mems := n.mems.filter (·.1 < nM),
           globals := n.globals.filter (·.1 < nG), elems := n.elems.filter (·.1 < nE),
           datas := n.datas.filter (·.1 < nD) }

/-- one data segment through parse and emit -/
def rtData (maps : IdMaps) (d : DataM) : Option DataM :=
  match d.mode with
  | .active mem off => (mapCExpr maps off).map fun o => (⟨dataFlag (.active mem o), .active mem o, d.bytes⟩ : DataM)
  | .passive => some ⟨1, .passive, d.bytes⟩

/-- the whole round trip; `none` = walrus panics or rejects in the model -/
def roundTripModule (m : ModuleM) : Option ModuleM :=
  let nif := importedCount m "f"
  let c : InCode := ⟨m.sigs, nif, m.code.zip m.funcs |>.map fun p => ⟨p.2, p.1.1, p.1.2⟩⟩
  if m.code.length ≠ m.funcs.length then none else
  match parseCode c with
  | none => none
  | some pfs =>
    match emitCode c pfs with
    | none => none
    | some oc =>
      let tids := dedupIds m.sigs
      let dsigs := distinctSigs m.sigs
      let idSigs : List (Nat × Sig) := dsigs.zipIdx.map (fun p => (p.2, p.1))
      let sortedTy := sortBy (fun a b => sigLe a.2 b.2) idSigs
      let tyMap := sortedTy.zipIdx.map (fun p => (p.1.1, p.2))
      let tyIdx := fun (i : Nat) => (tids[i]?).bind (assoc tyMap)
      let funcMap := (List.range nif).map (fun i => (i, i)) ++
        oc.funcs.zipIdx.map (fun p => (p.1.id, nif + p.2))
      let maps : IdMaps := { funcs := funcMap, types := tyMap, identity := ["t", "g", "m", "d", "e"] }
      -- imports: function imports get the new type index; (as coded) an imported memory is written
      -- with its 64-bit flag and page size as parsed
      let imports := m.imports.mapM fun i => match i.2.2 with
        | .func t => (tyIdx t).map fun t' => (i.1, i.2.1, ImportDescM.func t')
        | d => some (i.1, i.2.1, d)
      let globals := m.globals.mapM fun g => (mapCExpr maps g.2).map fun e => (g.1, e)
      let exports := m.exports.mapM fun e =>
        if e.2.1 = "f" then (assoc funcMap e.2.2).map fun i => (e.1, e.2.1, i) else some e
      let start := match m.start with
        | none => some none
        | some s => (assoc funcMap s).map some
      let elems := m.elems.mapM (rtElem funcMap maps)
      let datas := m.datas.mapM (rtData maps)
      let anyPassive := m.datas.any fun d => match d.mode with | .passive => true | _ => false
      let anyUse := pfs.any fun f =>
        let ar := PSeqs.toArena f.seqs
        usesData (bodyEvents ar (arenaFuel ar) 0).2
      let dataCount := if m.datas.isEmpty then none else if anyPassive || anyUse then some m.datas.length else none
      -- names
      let names := m.names.map fun n =>
        let fnames := funcNamesOut n.funcs funcMap
        let tnames := sortNames ((distinctIds (n.types.filterMap fun p => tids[p.1]?)).filterMap fun tid =>
          -- names given to any index of a merged type land on the one type id; the last wins
          let given := n.types.filterMap fun p => if tids[p.1]? = some tid then some (tid, p.2) else none
          match lastName given tid, assoc tyMap tid with
          | some s, some j => some (j, s)
          | _, _ => none)
        let lnames := sortBy (fun a b => a.1 ≤ b.1) (oc.funcs.filterMap fun f =>
          let inOrd := f.id - nif
          match pfs[inOrd]? with
          | none => none
          | some pf =>
            let given := (n.locals.filter (·.1 = f.id)).flatMap (·.2)
            let named := (distinctIds (given.map (·.1))).filterMap fun li =>
              match pf.localTys[li]?, lastName given li with
              | some (lid, _), some s => if f.usedLocals.contains lid then (assoc f.localMap lid).map fun slot => (slot, s) else none
              | _, _ => none
            if named.isEmpty then none else (assoc funcMap f.id).map fun j => (j, sortNames named))
        ({ module := n.module, funcs := fnames, locals := lnames, types := tnames, tables := keepNames n.tables,
           mems := keepNames n.mems, globals := keepNames n.globals, elems := keepNames n.elems,
           datas := keepNames n.datas } : NamesM)
      let namesOut := match names with
        | some n => if n.module.isNone && n.funcs.isEmpty && n.locals.isEmpty && n.types.isEmpty && n.tables.isEmpty &&
                      n.mems.isEmpty && n.globals.isEmpty && n.elems.isEmpty && n.datas.isEmpty then none else some n
        | none => none
      match imports, globals, exports, start, elems, datas with
      | some im, some gl, some ex, some st, some el, some da =>
        some { sigs := oc.sigs, imports := im, funcs := oc.funcs.map (·.tyIdx), tables := m.tables, mems := m.mems,
               globals := gl, exports := ex, start := st, elems := el, dataCount := dataCount, datas := da,
               code := oc.funcs.map (fun f => (f.locals, f.ops.map (·, 0))), names := namesOut }
      | _, _, _, _, _, _ => none

end Walrus
