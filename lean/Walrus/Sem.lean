import Walrus.Module
import Std.Data.HashMap

/-
M13: an executable semantics of the wasm modules the models talk about (`ModuleM`): structured
instructions, a big-step interpreter with an explicit value stack, instantiation, export calls, and
the observation the properties speak of (results, traps, host-call trace, exported state).

* Integer, reference, variable, memory, table, bulk and control instructions have their wasm
  semantics.  Floating-point arithmetic is *uninterpreted*: the result of `f32.add a b` is a fixed
  injective-looking function of the operator name and the operand bit patterns.  Two executions
  that apply the same operators to the same operands agree; an execution that swaps, drops or
  replaces an operand or operator does not.  Vector and atomic operators are `unsup`.
* Host functions are deterministic functions of their import name and arguments, and every call is
  appended to the trace.  A host never re-enters the instance or touches its memory.
* Gas is consumed by calls and by loop back-edges only (one unit each, counted globally in
  `Store.fuel` for one export call), never by straight-line instructions, so that removing
  instructions that are not executed cannot change when gas runs out.

Recursion: the tree of one function body is walked by structural recursion (`execI`/`execL`); calls
and loop re-entries go through a `Rec` record built by recursion on the gas (`mkRec`).
-/
namespace Walrus.Sem

inductive V
  | i32 (n : Nat) | i64 (n : Nat) | f32 (n : Nat) | f64 (n : Nat) | v128 (n : Nat)
  | fref (f : Option Nat) | xref (x : Option Nat)
  deriving Repr, DecidableEq, Inhabited

mutual
inductive SI
  | op (o : Op)
  | block (bt : BT) (b : SL)
  | loop (bt : BT) (b : SL)
  | ite (bt : BT) (t : SL) (e : SL)
inductive SL
  | nil
  | cons (h : SI) (t : SL)
end

def SL.ofList : List SI → SL
  | [] => .nil
  | h :: t => .cons h (SL.ofList t)

mutual
def SI.size : SI → Nat
  | .op _ => 1
  | .block _ b => 1 + b.size
  | .loop _ b => 1 + b.size
  | .ite _ t e => 1 + t.size + e.size
def SL.size : SL → Nat
  | .nil => 0
  | .cons h t => h.size + t.size
end

/-- an open construct while reading the flat operator list -/
structure PFr where
  kind : Nat            -- 0 block, 1 loop, 2 then-part of an if, 3 else-part, 4 function body
  bt : BT
  acc : List SI         -- reversed
  thn : List SI         -- the finished then-part (kind 3)

def btOf (o : Op) : BT := match o.args with | [.bt b] => b | _ => .empty

/-- flat operators (with `Block`/`Loop`/`If`/`Else`/`End`) to the tree; the final `End` closes the body -/
def structureOps : List Op → List PFr → Option SL
  | [], _ => none
  | o :: r, frames =>
    if o.name = "Block" then structureOps r (⟨0, btOf o, [], []⟩ :: frames)
    else if o.name = "Loop" then structureOps r (⟨1, btOf o, [], []⟩ :: frames)
    else if o.name = "If" then structureOps r (⟨2, btOf o, [], []⟩ :: frames)
    else if o.name = "Else" then
      match frames with
      | ⟨2, bt, acc, _⟩ :: fs => structureOps r (⟨3, bt, [], acc.reverse⟩ :: fs)
      | _ => none
    else if o.name = "End" then
      match frames with
      | [⟨4, _, acc, _⟩] => if r.isEmpty then some (SL.ofList acc.reverse) else none
      | ⟨k, bt, acc, thn⟩ :: p :: fs =>
        let body := SL.ofList acc.reverse
        let i : SI := if k = 0 then .block bt body else if k = 1 then .loop bt body
          else if k = 2 then .ite bt body .nil else .ite bt (SL.ofList thn) body
        structureOps r ({ p with acc := i :: p.acc } :: fs)
      | _ => none
    else
      match frames with
      | p :: fs => structureOps r ({ p with acc := .op o :: p.acc } :: fs)
      | [] => none

def structureBody (ops : List Op) : Option SL := structureOps ops [⟨4, .empty, [], []⟩]

/-- the operator names `structureOps` gives a structural meaning to -/
def structuralName (n : String) : Bool :=
  n = "Block" || n = "Loop" || n = "If" || n = "Else" || n = "End"

mutual
def SI.flat : SI → List Op
  | .op o => [o]
  | .block bt b => ⟨"Block", [.bt bt]⟩ :: (b.flat ++ [⟨"End", []⟩])
  | .loop bt b => ⟨"Loop", [.bt bt]⟩ :: (b.flat ++ [⟨"End", []⟩])
  | .ite bt t e => ⟨"If", [.bt bt]⟩ :: (t.flat ++ (match e with
      | .nil => []
      | .cons _ _ => ⟨"Else", []⟩ :: e.flat) ++ [⟨"End", []⟩])
def SL.flat : SL → List Op
  | .nil => []
  | .cons h t => h.flat ++ t.flat
end

/-! ## the elision walrus performs while building its tree -/

/-- instructions after which the rest of the sequence is syntactically unreachable -/
def endsSeq (o : Op) : Bool :=
  o.name = "Unreachable" || o.name = "Br" || o.name = "BrTable" || o.name = "Return"

mutual
def SI.elide : SI → SI
  | .op o => .op o
  | .block bt b => .block bt b.elide
  | .loop bt b => .loop bt b.elide
  | .ite bt t e => .ite bt t.elide e.elide
/-- drop `nop`s, and everything that follows an unconditional transfer within the same sequence -/
def SL.elide : SL → SL
  | .nil => .nil
  | .cons (.op o) t =>
    if o.name = "Nop" then t.elide
    else if endsSeq o then .cons (.op o) .nil
    else .cons (.op o) t.elide
  | .cons h t => .cons h.elide t.elide
end

/-! ## store -/

structure Mem where
  pages : Nat
  max : Option Nat
  pageSize : Nat
  is64 : Bool
  bytes : Std.HashMap Nat Nat     -- sparse; unwritten = 0

structure Tab where
  elems : List V
  max : Option Nat
  is64 : Bool
  ext : Bool                      -- externref table

structure Store where
  globals : List V
  mems : List Mem
  tabs : List Tab
  datas : List (List Nat)         -- dropped ⇒ []
  elems : List (List V)           -- dropped ⇒ []
  trace : List String             -- host calls, most recent first
  fuel : Nat := 0                 -- remaining budget of calls and loop back-edges (all of them, globally)

structure St where
  stack : List V
  locals : List (Nat × V)         -- the frame: local uid ↦ value; absent = the zero of its type
  store : Store

inductive Out
  | ok (s : St)
  | br (d : Nat) (s : St)
  | ret (s : St)
  | trap (msg : String) (st : Store)
  | oog
  | unsup (what : String)

inductive CallRes
  | ok (results : List V) (st : Store)
  | trap (msg : String) (st : Store)
  | oog
  | unsup (what : String)

/-- `call` takes the *uid* of the callee; `reLoop` the local table of the running function -/
structure Rec where
  call : Nat → List V → Store → CallRes
  reLoop : List (Nat × String) → BT → SL → St → Out

/-! ## numbers -/

def p32 : Nat := 4294967296
def p64 : Nat := 18446744073709551616
def pw (bits : Nat) : Nat := if bits = 32 then p32 else p64

def sgn (bits : Nat) (n : Nat) : Int := if n < pw bits / 2 then (n : Int) else (n : Int) - (pw bits : Int)
def usg (bits : Nat) (i : Int) : Nat := (i % (pw bits : Int)).toNat

def mkInt (bits : Nat) (n : Nat) : V := if bits = 32 then .i32 (n % p32) else .i64 (n % p64)
def b2v (b : Bool) : V := .i32 (if b then 1 else 0)

/-- number of leading zero bits -/
def clz (bits n : Nat) : Nat := if n = 0 then bits else bits - (Nat.log2 n + 1)
def ctzAux (n : Nat) : Nat → Nat → Nat
  | 0, acc => acc
  | f+1, acc => if n % 2 = 1 then acc else ctzAux (n / 2) f (acc + 1)
def ctz (bits n : Nat) : Nat := if n = 0 then bits else ctzAux n bits 0
def popcntAux (n : Nat) : Nat → Nat → Nat
  | 0, acc => acc
  | f+1, acc => popcntAux (n / 2) f (acc + n % 2)
def popcnt (bits n : Nat) : Nat := popcntAux n bits 0

def divTrunc (a b : Int) : Int := Int.tdiv a b
def remTrunc (a b : Int) : Int := Int.tmod a b

/-- integer binary operators; `none`: not one of them -/
def intBin (bits : Nat) (sfx : String) (a b : Nat) : Option (Except String V) :=
  let P := pw bits
  let mk := fun (n : Nat) => Except.ok (mkInt bits n)
  let sa := sgn bits a; let sb := sgn bits b
  if sfx = "Add" then some (mk (a + b))
  else if sfx = "Sub" then some (mk (a + P - b))
  else if sfx = "Mul" then some (mk (a * b))
  else if sfx = "DivU" then some (if b = 0 then .error "integer divide by zero" else mk (a / b))
  else if sfx = "DivS" then some (if b = 0 then .error "integer divide by zero"
    else if sa = -((P / 2 : Nat) : Int) ∧ sb = -1 then .error "integer overflow" else mk (usg bits (divTrunc sa sb)))
  else if sfx = "RemU" then some (if b = 0 then .error "integer divide by zero" else mk (a % b))
  else if sfx = "RemS" then some (if b = 0 then .error "integer divide by zero" else mk (usg bits (remTrunc sa sb)))
  else if sfx = "And" then some (mk (a &&& b))
  else if sfx = "Or" then some (mk (a ||| b))
  else if sfx = "Xor" then some (mk (a ^^^ b))
  else if sfx = "Shl" then some (mk (a * 2 ^ (b % bits)))
  else if sfx = "ShrU" then some (mk (a / 2 ^ (b % bits)))
  else if sfx = "ShrS" then some (mk (usg bits (sa / (2 ^ (b % bits) : Nat))))
  else if sfx = "Rotl" then some (let k := b % bits; mk ((a * 2 ^ k) % P + a / 2 ^ (bits - k)))
  else if sfx = "Rotr" then some (let k := b % bits; mk (a / 2 ^ k + (a * 2 ^ (bits - k)) % P))
  else if sfx = "Eq" then some (.ok (b2v (a = b)))
  else if sfx = "Ne" then some (.ok (b2v (a ≠ b)))
  else if sfx = "LtU" then some (.ok (b2v (a < b)))
  else if sfx = "GtU" then some (.ok (b2v (a > b)))
  else if sfx = "LeU" then some (.ok (b2v (a ≤ b)))
  else if sfx = "GeU" then some (.ok (b2v (a ≥ b)))
  else if sfx = "LtS" then some (.ok (b2v (sa < sb)))
  else if sfx = "GtS" then some (.ok (b2v (sa > sb)))
  else if sfx = "LeS" then some (.ok (b2v (sa ≤ sb)))
  else if sfx = "GeS" then some (.ok (b2v (sa ≥ sb)))
  else none

def signExt (from_ bits : Nat) (n : Nat) : Nat :=
  let m := n % 2 ^ from_
  if m < 2 ^ (from_ - 1) then m else m + pw bits - 2 ^ from_

def intUn (bits : Nat) (sfx : String) (a : Nat) : Option V :=
  if sfx = "Clz" then some (mkInt bits (clz bits a))
  else if sfx = "Ctz" then some (mkInt bits (ctz bits a))
  else if sfx = "Popcnt" then some (mkInt bits (popcnt bits a))
  else if sfx = "Eqz" then some (b2v (a = 0))
  else if sfx = "Extend8S" then some (mkInt bits (signExt 8 bits a))
  else if sfx = "Extend16S" then some (mkInt bits (signExt 16 bits a))
  else if sfx = "Extend32S" then some (mkInt bits (signExt 32 bits a))
  else none

def V.payload : V → Nat
  | .i32 n => n | .i64 n => n | .f32 n => n | .f64 n => n | .v128 n => n
  -- a function reference is opaque: null or not; which function it is must never turn into a number
  | .fref none => 0 | .fref (some _) => 1 | .xref none => 0 | .xref (some x) => x + 1

def strHash (s : String) : Nat := s.toList.foldl (fun h c => (h * 131 + c.toNat) % p64) 7

def mix (a b : Nat) : Nat := (a * 1000003 + b + 12345) % p64

def mkTy (t : String) (n : Nat) : V :=
  if t = "i32" then .i32 (n % p32) else if t = "i64" then .i64 (n % p64)
  else if t = "f32" then .f32 (n % p32) else if t = "f64" then .f64 (n % p64)
  else if t = "v128" then .v128 n
  else if t = "externref" then .xref none else .fref none

def zeroOf (t : String) : V := mkTy t 0

def pfx3 (s : String) : String := String.ofList (s.toList.take 3)
def sfx3 (s : String) : String := String.ofList (s.toList.drop 3)
def lower3 (s : String) : String :=
  if s = "I32" then "i32" else if s = "I64" then "i64" else if s = "F32" then "f32" else if s = "F64" then "f64" else "?"

def floatBinArith : List String := ["Add", "Sub", "Mul", "Div", "Min", "Max", "Copysign"]
def floatCmp : List String := ["Eq", "Ne", "Lt", "Gt", "Le", "Ge"]
def floatUn : List String := ["Abs", "Neg", "Ceil", "Floor", "Trunc", "Nearest", "Sqrt"]

/-- conversions between number types whose result is treated as an uninterpreted function -/
def isConversion (s : String) : Bool :=
  let l := s.toList
  (["TruncF32S", "TruncF32U", "TruncF64S", "TruncF64U", "TruncSatF32S", "TruncSatF32U", "TruncSatF64S",
    "TruncSatF64U", "ConvertI32S", "ConvertI32U", "ConvertI64S", "ConvertI64U", "DemoteF64", "PromoteF32"]).any
    fun x => x.toList == l

/-- stack-only operators: `none` = not a pure operator known here -/
def pureOp (o : Op) (stack : List V) : Option (Except String (List V)) :=
  let n := o.name
  let p := pfx3 n; let s := sfx3 n
  if n = "I32Const" then (match o.args with | [.num k] => some (.ok (.i32 (k % p32) :: stack)) | _ => none)
  else if n = "I64Const" then (match o.args with | [.num k] => some (.ok (.i64 (k % p64) :: stack)) | _ => none)
  else if n = "F32Const" then (match o.args with | [.num k] => some (.ok (.f32 k :: stack)) | _ => none)
  else if n = "F64Const" then (match o.args with | [.num k] => some (.ok (.f64 k :: stack)) | _ => none)
  else if n = "Drop" then (match stack with | _ :: r => some (.ok r) | _ => none)
  else if n = "Select" || n = "TypedSelect" then
    (match stack with | .i32 c :: b :: a :: r => some (.ok ((if c ≠ 0 then a else b) :: r)) | _ => none)
  else if n = "RefIsNull" then
    (match stack with
     | .fref f :: r => some (.ok (b2v f.isNone :: r))
     | .xref f :: r => some (.ok (b2v f.isNone :: r))
     | _ => none)
  else if n = "RefNull" then
    (match o.args with
     | [.imm "extern"] => some (.ok (.xref none :: stack))
     | [.imm "func"] => some (.ok (.fref none :: stack))
     | _ => none)
  else if n = "I32WrapI64" then (match stack with | .i64 a :: r => some (.ok (.i32 (a % p32) :: r)) | _ => none)
  else if n = "I64ExtendI32U" then (match stack with | .i32 a :: r => some (.ok (.i64 a :: r)) | _ => none)
  else if n = "I64ExtendI32S" then (match stack with | .i32 a :: r => some (.ok (.i64 (signExt 32 64 a) :: r)) | _ => none)
  else if n = "I32ReinterpretF32" then (match stack with | .f32 a :: r => some (.ok (.i32 a :: r)) | _ => none)
  else if n = "I64ReinterpretF64" then (match stack with | .f64 a :: r => some (.ok (.i64 a :: r)) | _ => none)
  else if n = "F32ReinterpretI32" then (match stack with | .i32 a :: r => some (.ok (.f32 a :: r)) | _ => none)
  else if n = "F64ReinterpretI64" then (match stack with | .i64 a :: r => some (.ok (.f64 a :: r)) | _ => none)
  else if p = "I32" || p = "I64" then
    let bits := if p = "I32" then 32 else 64
    if isConversion s then
      (match stack with | a :: r => some (.ok (mkTy (lower3 p) (mix (strHash n) a.payload) :: r)) | _ => none)
    else
    match stack with
    | .i32 b :: .i32 a :: r =>
      (match (if bits = 32 then intBin 32 s a b else none) with
       | some (.ok v) => some (.ok (v :: r))
       | some (.error e) => some (.error e)
       | none => (if bits = 32 then intUn 32 s b else none).map fun v => .ok (v :: .i32 a :: r))
    | .i64 b :: .i64 a :: r =>
      (match (if bits = 64 then intBin 64 s a b else none) with
       | some (.ok v) => some (.ok (v :: r))
       | some (.error e) => some (.error e)
       | none => (if bits = 64 then intUn 64 s b else none).map fun v => .ok (v :: .i64 a :: r))
    | .i32 a :: r => (if bits = 32 then intUn 32 s a else none).map fun v => .ok (v :: r)
    | .i64 a :: r => (if bits = 64 then intUn 64 s a else none).map fun v => .ok (v :: r)
    | _ => none
  else if p = "F32" || p = "F64" then
    let t := lower3 p
    if floatBinArith.contains s then
      (match stack with | b :: a :: r => some (.ok (mkTy t (mix (mix (strHash n) a.payload) b.payload) :: r)) | _ => none)
    else if floatCmp.contains s then
      (match stack with | b :: a :: r => some (.ok (.i32 (mix (mix (strHash n) a.payload) b.payload % 2) :: r)) | _ => none)
    else if floatUn.contains s || isConversion s then
      (match stack with | a :: r => some (.ok (mkTy t (mix (strHash n) a.payload) :: r)) | _ => none)
    else none
  else none

/-! ## memory and tables -/

def Mem.size (m : Mem) : Nat := m.pages * m.pageSize

def Mem.read1 (m : Mem) (a : Nat) : Nat := m.bytes.getD a 0

def Mem.read (m : Mem) (a : Nat) : Nat → Nat
  | 0 => 0
  | k+1 => m.read1 a + 256 * m.read (a + 1) k

def Mem.write (m : Mem) (a : Nat) (v : Nat) : Nat → Mem
  | 0 => m
  | k+1 => ({ m with bytes := m.bytes.insert a (v % 256) } : Mem).write (a + 1) (v / 256) k

def Mem.writeBytes (m : Mem) (a : Nat) : List Nat → Mem
  | [] => m
  | b :: r => ({ m with bytes := m.bytes.insert a (b % 256) } : Mem).writeBytes (a + 1) r

def setAt {α : Type} (l : List α) (i : Nat) (x : α) : List α := l.set i x

/-- (width in bytes, result type, sign-extend from bits or 0) of a load; `none` = not a load -/
def loadInfo (n : String) : Option (Nat × String × Nat) :=
  if n = "I32Load" then some (4, "i32", 0) else if n = "I64Load" then some (8, "i64", 0)
  else if n = "F32Load" then some (4, "f32", 0) else if n = "F64Load" then some (8, "f64", 0)
  else if n = "I32Load8S" then some (1, "i32", 8) else if n = "I32Load8U" then some (1, "i32", 0)
  else if n = "I32Load16S" then some (2, "i32", 16) else if n = "I32Load16U" then some (2, "i32", 0)
  else if n = "I64Load8S" then some (1, "i64", 8) else if n = "I64Load8U" then some (1, "i64", 0)
  else if n = "I64Load16S" then some (2, "i64", 16) else if n = "I64Load16U" then some (2, "i64", 0)
  else if n = "I64Load32S" then some (4, "i64", 32) else if n = "I64Load32U" then some (4, "i64", 0)
  else none

def storeInfo (n : String) : Option Nat :=
  if n = "I32Store" then some 4 else if n = "I64Store" then some 8
  else if n = "F32Store" then some 4 else if n = "F64Store" then some 8
  else if n = "I32Store8" then some 1 else if n = "I32Store16" then some 2
  else if n = "I64Store8" then some 1 else if n = "I64Store16" then some 2 else if n = "I64Store32" then some 4
  else none

def idxVal (is64 : Bool) (n : Nat) : V := if is64 then .i64 (n % p64) else .i32 (n % p32)
def minusOne (is64 : Bool) : V := if is64 then .i64 (p64 - 1) else .i32 (p32 - 1)
def addrLimit (is64 : Bool) : Nat := if is64 then 281474976710656 else 65536

/-! ## the module as the interpreter sees it -/

/-- a function, known by its uid (its position in `Env.ufuncs`); `lt` lists its locals, parameters
    first: local index ↦ (uid of the local, type) -/
structure FuncInfo where
  sig : Sig
  imp : Option (String × String)          -- imported: module, field
  lt : List (Nat × String)
  body : SL

/-- `ftab`: function index ↦ uid.  Values, tables and calls-in-progress name functions by uid, so
    a renumbering of the index space changes `ftab` (and the operands in the bodies) and nothing
    else. -/
structure Env where
  types : List Sig
  ftab : List Nat
  ufuncs : List FuncInfo

/-- the module with every body elided -/
def Env.elide (E : Env) : Env := { E with ufuncs := E.ufuncs.map fun fi => { fi with body := fi.body.elide } }

/-- function index ↦ uid -/
def Env.resolve (E : Env) : Nat → Option Nat := fun f => E.ftab[f]?

/-- signatures by uid -/
def Env.usigs (E : Env) : List Sig := E.ufuncs.map (·.sig)

/-- what an operator may consult besides the state -/
structure Ctx where
  T : List Sig                 -- type index ↦ signature
  FT : List Nat                -- function index ↦ uid
  US : List Sig                -- uid ↦ signature
  LT : List (Nat × String)     -- local index ↦ (uid, type), of the running function

def Env.ctx (E : Env) (lt : List (Nat × String)) : Ctx := ⟨E.types, E.ftab, E.usigs, lt⟩

abbrev CallFn := Nat → List V → Store → CallRes

def getLocal (fr : List (Nat × V)) (u : Nat) (ty : String) : V :=
  match fr.find? (·.1 = u) with
  | some p => p.2
  | none => zeroOf ty

def setLocal (fr : List (Nat × V)) (u : Nat) (v : V) : List (Nat × V) :=
  (u, v) :: fr.filter (·.1 ≠ u)

def arity (T : List Sig) : BT → Nat × Nat
  | .empty => (0, 0)
  | .val _ => (0, 1)
  | .idx n => match T[n]? with | some s => (s.1.length, s.2.length) | none => (0, 0)

/-- leave a block: keep the `k` topmost values on top of the `h` bottom values -/
def exitStack (cur : List V) (k h : Nat) : List V := cur.take k ++ cur.drop (cur.length - h)

def hostResults (name : String) (args : List V) (rs : List String) : List V :=
  let seed := args.foldl (fun h a => mix h a.payload) (strHash name)
  rs.zipIdx.map fun p => mkTy p.1 (mix seed p.2)

def showV : V → String
  | .i32 n => s!"i32:{n}" | .i64 n => s!"i64:{n}" | .f32 n => s!"f32:{n}" | .f64 n => s!"f64:{n}"
  | .v128 n => s!"v128:{n}"
  | .fref none => "null" | .fref (some _) => "func" | .xref none => "xnull" | .xref (some x) => s!"x{x}"

def join (sep : String) (l : List String) : String :=
  match l with
  | [] => ""
  | h :: t => t.foldl (fun a b => a ++ sep ++ b) h

/-- operators whose meaning does not depend on the index tables -/
def execPlain (o : Op) (s : St) : Out :=
  let n := o.name
  let st := s.store
  if n = "Nop" then .ok s
  else if n = "Unreachable" then .trap "unreachable" st
  else if n = "Br" then (match o.args with | [.ref _ d] => .br d s | _ => .unsup "br")
  else if n = "BrIf" then
    (match o.args, s.stack with
     | [.ref _ d], .i32 c :: r => if c ≠ 0 then .br d { s with stack := r } else .ok { s with stack := r }
     | _, _ => .unsup "br_if")
  else if n = "BrTable" then
    (match s.stack with
     | .i32 c :: r =>
       let ls := o.args.filterMap fun a => match a with | .ref _ d => some d | _ => none
       (match ls[c]?, ls.getLast? with
        | some d, _ => .br d { s with stack := r }
        | none, some d => .br d { s with stack := r }
        | _, _ => .unsup "br_table")
     | _ => .unsup "br_table")
  else if n = "Return" then .ret s
  else if n = "GlobalGet" then
    (match o.args with
     | [.ref _ g] => (match st.globals[g]? with | some v => .ok { s with stack := v :: s.stack } | none => .unsup "global.get")
     | _ => .unsup "global.get")
  else if n = "GlobalSet" then
    (match o.args, s.stack with
     | [.ref _ g], v :: r =>
       if g < st.globals.length then .ok { s with stack := r, store := { st with globals := st.globals.set g v } } else .unsup "global.set"
     | _, _ => .unsup "global.set")
  else if n = "MemorySize" then
    (match o.args with
     | .ref _ m :: _ => (match st.mems[m]? with
        | some mm => .ok { s with stack := idxVal mm.is64 mm.pages :: s.stack }
        | none => .unsup "memory.size")
     | _ => .unsup "memory.size")
  else if n = "MemoryGrow" then
    (match o.args, s.stack with
     | .ref _ m :: _, d :: r =>
       (match st.mems[m]? with
        | some mm =>
          let want := mm.pages + d.payload
          let lim := match mm.max with | some x => min x (addrLimit mm.is64) | none => addrLimit mm.is64
          -- the host refuses to grow beyond 64 pages so that runs stay small; both sides see the same host
          if want ≤ lim ∧ want ≤ 64 then
            .ok { s with stack := idxVal mm.is64 mm.pages :: r, store := { st with mems := st.mems.set m { mm with pages := want } } }
          else .ok { s with stack := minusOne mm.is64 :: r }
        | none => .unsup "memory.grow")
     | _, _ => .unsup "memory.grow")
  else if n = "MemoryFill" then
    (match o.args, s.stack with
     | .ref _ m :: _, cnt :: val :: dst :: r =>
       (match st.mems[m]? with
        | some mm =>
          if dst.payload + cnt.payload > mm.size then .trap "out of bounds memory access" st else
          .ok { s with stack := r, store := { st with mems := st.mems.set m (mm.writeBytes dst.payload (List.replicate cnt.payload (val.payload % 256))) } }
        | none => .unsup "memory.fill")
     | _, _ => .unsup "memory.fill")
  else if n = "MemoryCopy" then
    (match o.args, s.stack with
     | [.ref _ dm, .ref _ sm], cnt :: src :: dst :: r =>
       (match st.mems[dm]?, st.mems[sm]? with
        | some d, some sr =>
          if dst.payload + cnt.payload > d.size ∨ src.payload + cnt.payload > sr.size then .trap "out of bounds memory access" st else
          let bytes := (List.range cnt.payload).map fun i => sr.read1 (src.payload + i)
          .ok { s with stack := r, store := { st with mems := st.mems.set dm (d.writeBytes dst.payload bytes) } }
        | _, _ => .unsup "memory.copy")
     | _, _ => .unsup "memory.copy")
  else if n = "MemoryInit" then
    (match o.args, s.stack with
     | [.ref _ d, .ref _ m], cnt :: src :: dst :: r =>
       (match st.mems[m]?, st.datas[d]? with
        | some mm, some bytes =>
          if dst.payload + cnt.payload > mm.size ∨ src.payload + cnt.payload > bytes.length then .trap "out of bounds memory access" st else
          .ok { s with stack := r, store := { st with mems := st.mems.set m (mm.writeBytes dst.payload ((bytes.drop src.payload).take cnt.payload)) } }
        | _, _ => .unsup "memory.init")
     | _, _ => .unsup "memory.init")
  else if n = "DataDrop" then
    (match o.args with
     | [.ref _ d] => .ok { s with store := { st with datas := st.datas.set d [] } }
     | _ => .unsup "data.drop")
  else if n = "ElemDrop" then
    (match o.args with
     | [.ref _ e] => .ok { s with store := { st with elems := st.elems.set e [] } }
     | _ => .unsup "elem.drop")
  else if n = "TableGet" then
    (match o.args, s.stack with
     | [.ref _ t], i :: r =>
       (match st.tabs[t]? with
        | some tb => (match tb.elems[i.payload]? with
            | some v => .ok { s with stack := v :: r }
            | none => .trap "out of bounds table access" st)
        | none => .unsup "table.get")
     | _, _ => .unsup "table.get")
  else if n = "TableSet" then
    (match o.args, s.stack with
     | [.ref _ t], v :: i :: r =>
       (match st.tabs[t]? with
        | some tb =>
          if i.payload < tb.elems.length then
            .ok { s with stack := r, store := { st with tabs := st.tabs.set t { tb with elems := tb.elems.set i.payload v } } }
          else .trap "out of bounds table access" st
        | none => .unsup "table.set")
     | _, _ => .unsup "table.set")
  else if n = "TableSize" then
    (match o.args with
     | [.ref _ t] => (match st.tabs[t]? with
        | some tb => .ok { s with stack := idxVal tb.is64 tb.elems.length :: s.stack }
        | none => .unsup "table.size")
     | _ => .unsup "table.size")
  else if n = "TableGrow" then
    (match o.args, s.stack with
     | [.ref _ t], d :: v :: r =>
       (match st.tabs[t]? with
        | some tb =>
          let want := tb.elems.length + d.payload
          let lim := match tb.max with | some x => x | none => 4294967295
          if want ≤ lim ∧ want ≤ 4096 then
            .ok { s with stack := idxVal tb.is64 tb.elems.length :: r,
                         store := { st with tabs := st.tabs.set t { tb with elems := tb.elems ++ List.replicate d.payload v } } }
          else .ok { s with stack := minusOne tb.is64 :: r }
        | none => .unsup "table.grow")
     | _, _ => .unsup "table.grow")
  else if n = "TableFill" then
    (match o.args, s.stack with
     | [.ref _ t], cnt :: v :: i :: r =>
       (match st.tabs[t]? with
        | some tb =>
          if i.payload + cnt.payload > tb.elems.length then .trap "out of bounds table access" st else
          let el := tb.elems.take i.payload ++ List.replicate cnt.payload v ++ tb.elems.drop (i.payload + cnt.payload)
          .ok { s with stack := r, store := { st with tabs := st.tabs.set t { tb with elems := el } } }
        | none => .unsup "table.fill")
     | _, _ => .unsup "table.fill")
  else if n = "TableCopy" then
    (match o.args, s.stack with
     | [.ref _ dt, .ref _ stb], cnt :: src :: dst :: r =>
       (match st.tabs[dt]?, st.tabs[stb]? with
        | some d, some sr =>
          if dst.payload + cnt.payload > d.elems.length ∨ src.payload + cnt.payload > sr.elems.length then .trap "out of bounds table access" st else
          let vs := (sr.elems.drop src.payload).take cnt.payload
          let el := d.elems.take dst.payload ++ vs ++ d.elems.drop (dst.payload + cnt.payload)
          .ok { s with stack := r, store := { st with tabs := st.tabs.set dt { d with elems := el } } }
        | _, _ => .unsup "table.copy")
     | _, _ => .unsup "table.copy")
  else if n = "TableInit" then
    (match o.args, s.stack with
     | [.ref _ e, .ref _ t], cnt :: src :: dst :: r =>
       (match st.tabs[t]?, st.elems[e]? with
        | some d, some items =>
          if dst.payload + cnt.payload > d.elems.length ∨ src.payload + cnt.payload > items.length then .trap "out of bounds table access" st else
          let vs := (items.drop src.payload).take cnt.payload
          let el := d.elems.take dst.payload ++ vs ++ d.elems.drop (dst.payload + cnt.payload)
          .ok { s with stack := r, store := { st with tabs := st.tabs.set t { d with elems := el } } }
        | _, _ => .unsup "table.init")
     | _, _ => .unsup "table.init")
  else
    match loadInfo n, storeInfo n with
    | some (w, ty, sx), _ =>
      (match o.args, s.stack with
       | [.num _, .num off, .ref _ m], a :: r =>
         (match st.mems[m]? with
          | some mm =>
            let ea := a.payload + off
            if ea + w > mm.size then .trap "out of bounds memory access" st else
            let raw := mm.read ea w
            let bits := if ty = "i32" then 32 else 64
            let v := if sx = 0 then raw else signExt sx bits raw
            .ok { s with stack := mkTy ty v :: r }
          | none => .unsup "load: no memory")
       | _, _ => .unsup ("load " ++ n))
    | none, some w =>
      (match o.args, s.stack with
       | [.num _, .num off, .ref _ m], v :: a :: r =>
         (match st.mems[m]? with
          | some mm =>
            let ea := a.payload + off
            if ea + w > mm.size then .trap "out of bounds memory access" st else
            .ok { s with stack := r, store := { st with mems := st.mems.set m (mm.write ea (v.payload % 256 ^ w) w) } }
          | none => .unsup "store: no memory")
       | _, _ => .unsup ("store " ++ n))
    | none, none =>
      match pureOp o s.stack with
      | some (.ok stk) => .ok { s with stack := stk }
      | some (.error e) => .trap e st
      | none => .unsup n

/-- operators that consult the index tables: calls, `ref.func`, locals -/
def execSpecial (C : Ctx) (call : CallFn) (o : Op) (s : St) : Out :=
  let n := o.name
  let st := s.store
  if n = "Call" then
    (match o.args with
     | [.ref _ f] =>
       (match (C.FT[f]?).bind fun u => (C.US[u]?).map fun sg => (u, sg) with
        | some (u, sg) =>
          let np := sg.1.length
          let args := (s.stack.take np).reverse
          (match call u args st with
           | .ok rs st' => .ok { s with stack := rs.reverse ++ s.stack.drop np, store := st' }
           | .trap m st' => .trap m st'
           | .oog => .oog
           | .unsup w => .unsup w)
        | none => .unsup "call: no such function")
     | _ => .unsup "call")
  else if n = "CallIndirect" then
    (match o.args, s.stack with
     | [.ref _ y, .ref _ t], i :: r =>
       (match st.tabs[t]?, C.T[y]? with
        | some tb, some sig =>
          (match tb.elems[i.payload]? with
           | none => .trap "undefined element" st
           | some (.fref none) => .trap "uninitialized element" st
           | some (.fref (some f)) =>
             (match C.US[f]? with
              | some fsg =>
                if fsg ≠ sig then .trap "indirect call type mismatch" st else
                let np := sig.1.length
                let args := (r.take np).reverse
                (match call f args st with
                 | .ok rs st' => .ok { s with stack := rs.reverse ++ r.drop np, store := st' }
                 | .trap m st' => .trap m st'
                 | .oog => .oog
                 | .unsup w => .unsup w)
              | none => .unsup "call_indirect: dangling")
           | some _ => .unsup "call_indirect: not a funcref")
        | _, _ => .unsup "call_indirect: no table/type")
     | _, _ => .unsup "call_indirect")
  else if n = "LocalGet" then
    (match o.args with
     | [.ref _ x] => (match C.LT[x]? with
        | some (u, ty) => .ok { s with stack := getLocal s.locals u ty :: s.stack }
        | none => .unsup "local.get")
     | _ => .unsup "local.get")
  else if n = "LocalSet" then
    (match o.args, s.stack with
     | [.ref _ x], v :: r => (match C.LT[x]? with
        | some (u, _) => .ok { s with stack := r, locals := setLocal s.locals u v }
        | none => .unsup "local.set")
     | _, _ => .unsup "local.set")
  else if n = "LocalTee" then
    (match o.args, s.stack with
     | [.ref _ x], v :: r => (match C.LT[x]? with
        | some (u, _) => .ok { s with stack := v :: r, locals := setLocal s.locals u v }
        | none => .unsup "local.tee")
     | _, _ => .unsup "local.tee")
  else if n = "RefFunc" then
    (match o.args with
     | [.ref _ f] => (match C.FT[f]? with
        | some u => .ok { s with stack := .fref (some u) :: s.stack }
        | none => .unsup "ref.func")
     | _ => .unsup "ref.func")
  else if n = "ReturnCall" then
    (match o.args with
     | [.ref _ f] =>
       (match (C.FT[f]?).bind fun u => (C.US[u]?).map fun sg => (u, sg) with
        | some (u, sg) =>
          let np := sg.1.length
          let args := (s.stack.take np).reverse
          (match call u args st with
           | .ok rs st' => .ret { s with stack := rs.reverse ++ s.stack.drop np, store := st' }
           | .trap m st' => .trap m st'
           | .oog => .oog
           | .unsup w => .unsup w)
        | none => .unsup "return_call: no such function")
     | _ => .unsup "return_call")
  else if n = "ReturnCallIndirect" then
    (match o.args, s.stack with
     | [.ref _ y, .ref _ t], i :: r =>
       (match st.tabs[t]?, C.T[y]? with
        | some tb, some sig =>
          (match tb.elems[i.payload]? with
           | none => .trap "undefined element" st
           | some (.fref none) => .trap "uninitialized element" st
           | some (.fref (some f)) =>
             (match C.US[f]? with
              | some fsg =>
                if fsg ≠ sig then .trap "indirect call type mismatch" st else
                let np := sig.1.length
                let args := (r.take np).reverse
                (match call f args st with
                 | .ok rs st' => .ret { s with stack := rs.reverse ++ r.drop np, store := st' }
                 | .trap m st' => .trap m st'
                 | .oog => .oog
                 | .unsup w => .unsup w)
              | none => .unsup "call_indirect: dangling")
           | some _ => .unsup "call_indirect: not a funcref")
        | _, _ => .unsup "call_indirect: no table/type")
     | _, _ => .unsup "call_indirect")
  else .unsup n

def isSpecial (n : String) : Bool :=
  n = "Call" || n = "CallIndirect" || n = "LocalGet" || n = "LocalSet" || n = "LocalTee" || n = "RefFunc" ||
  n = "ReturnCall" || n = "ReturnCallIndirect"

/-- one operator that is not a block; `call` is the meaning of a call (by uid) -/
def execOp (C : Ctx) (call : CallFn) (o : Op) (s : St) : Out :=
  if isSpecial o.name then execSpecial C call o s else execPlain o s

/-- what a block does with the outcome of its body -/
def finishBlock (nr h : Nat) : Out → Out
  | .br 0 s' => .ok { s' with stack := exitStack s'.stack nr h }
  | .br (d+1) s' => .br d s'
  | o => o

mutual
def execI (C : Ctx) (R : Rec) : SI → St → Out
  | .op o, s => execOp C R.call o s
  | .block bt b, s =>
    let ar := arity C.T bt
    finishBlock ar.2 (s.stack.length - ar.1) (execL C R b s)
  | .loop bt b, s =>
    let ar := arity C.T bt
    match execL C R b s with
    | .br 0 s' => R.reLoop C.LT bt b { s' with stack := exitStack s'.stack ar.1 (s.stack.length - ar.1) }
    | .br (d+1) s' => .br d s'
    | o => o
  | .ite bt t e, s =>
    let ar := arity C.T bt
    match s.stack with
    | .i32 c :: r =>
      let s1 := { s with stack := r }
      if c ≠ 0 then finishBlock ar.2 (r.length - ar.1) (execL C R t s1)
      else finishBlock ar.2 (r.length - ar.1) (execL C R e s1)
    | _ => .unsup "if"
def execL (C : Ctx) (R : Rec) : SL → St → Out
  | .nil, s => .ok s
  | .cons h t, s =>
    match execI C R h s with
    | .ok s' => execL C R t s'
    | o => o
end

/-- call of the function with uid `u`, with the next-lower `Rec` -/
def callFn (E : Env) (R : Rec) (u : Nat) (args : List V) (st0 : Store) : CallRes :=
  if st0.fuel = 0 then .oog else
  let st : Store := { st0 with fuel := st0.fuel - 1 }
  match E.ufuncs[u]? with
  | none => .unsup "call: no such function"
  | some fi =>
    match fi.imp with
    | some (mn, fn) =>
      let name := mn ++ "." ++ fn
      .ok (hostResults name args fi.sig.2)
        { st with trace := (name ++ "(" ++ join "," (args.map showV) ++ ")") :: st.trace }
    | none =>
      let s0 : St := ⟨[], ((fi.lt.take fi.sig.1.length).map (·.1)).zip args, st⟩
      let nr := fi.sig.2.length
      match execL (E.ctx fi.lt) R fi.body s0 with
      | .ok s => .ok (s.stack.take nr).reverse s.store
      | .br _ s => .ok (s.stack.take nr).reverse s.store
      | .ret s => .ok (s.stack.take nr).reverse s.store
      | .trap m st' => .trap m st'
      | .oog => .oog
      | .unsup w => .unsup w

def mkRec (E : Env) : Nat → Rec
  | 0 => ⟨fun _ _ _ => .oog, fun _ _ _ _ => .oog⟩
  | n+1 => ⟨callFn E (mkRec E n), fun lt bt b s =>
      if s.store.fuel = 0 then .oog
      else execI (E.ctx lt) (mkRec E n) (.loop bt b) { s with store := { s.store with fuel := s.store.fuel - 1 } }⟩

/-- invoke the function with uid `u` with `gas` units -/
def invoke (E : Env) (gas : Nat) : CallFn :=
  fun f args st => (mkRec E (gas + 1)).call f args { st with fuel := gas }

end Walrus.Sem
