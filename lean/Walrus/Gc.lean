import Walrus.Module

/-
M8: `passes::used` and `passes::gc` (src/passes/{used,gc}.rs) followed by emission.
Entities are named by their ids (= input indices, types by TypeId). The used set is the closure of
the roots under the successor relation *as coded* (which edges exist is exactly what the code
scans); the worklist order is irrelevant to the result, so the model computes the closure with a
plain fuel-bounded worklist.
-/
namespace Walrus

/-- an entity: space tag (f t g m y d e) and id -/
abbrev Ent := String × Nat

/-- what the GC needs to know about the module, id-based -/
structure GcInfo where
  m : ModuleM
  pfs : List ParsedFunc                 -- parsed local functions (ids, IR)
  tids : List Nat                       -- type index ↦ TypeId
  nif : Nat
  nit : Nat
  nim : Nat
  nig : Nat

def refsOfCExpr (c : CExprM) : List Ent :=
  c.flatMap fun op => op.args.filterMap fun a => match a with
    | .ref sp n => if sp = "g" || sp = "f" then some (sp, n) else none
    | _ => none

/-- entity operands of the instructions the traversal reaches, plus the sequence types it reports -/
def refsOfBody (seqs : List PSeq) : List Ent :=
  let ar := PSeqs.toArena seqs
  (bodyEvents ar (arenaFuel ar) 0).2.flatMap fun e => match e with
    | .instr (.leaf op) _ => op.args.filterMap fun a => match a with
        | .ref sp n => if sp = "x" || sp = "l" then none else some (sp, n)
        | _ => none
    | .start _ (.multi y) => [("y", y)]
    | _ => []

def activeElemsOf (m : ModuleM) (t : Nat) : List Nat :=
  m.elems.zipIdx.filterMap fun p => match p.1.mode with
    | .active tb _ => if tb.getD 0 = t then some p.2 else none
    | _ => none

def activeDatasOf (m : ModuleM) (mem : Nat) : List Nat :=
  m.datas.zipIdx.filterMap fun p => match p.1.mode with
    | .active mm _ => if mm = mem then some p.2 else none
    | _ => none

/-- successors of an entity, as `Used::new` scans them -/
def gcSucc (g : GcInfo) : Ent → List Ent
  | ("f", f) =>
    if f < g.nif then
      -- imported function: its type
      match (g.m.imports.filterMap fun i => match i.2.2 with | .func t => some t | _ => none)[f]? with
      | some t => (g.tids[t]?).toList.map (("y", ·))
      | none => []
    else
      match g.pfs[f - g.nif]? with
      | some pf => ("y", pf.ty) :: refsOfBody pf.seqs
      | none => []
  | ("t", t) => (activeElemsOf g.m t).map (("e", ·))
  | ("g", gl) =>
    if gl < g.nig then [] else
      match g.m.globals[gl - g.nig]? with
      | some (_, init) => refsOfCExpr init
      | none => []
  | ("m", mem) => (activeDatasOf g.m mem).map (("d", ·))
  | ("d", d) =>
    match g.m.datas[d]? with
    | some ⟨_, .active mem off, _⟩ => ("m", mem) :: (refsOfCExpr off).filter (·.1 = "g")
    | _ => []
  | ("e", e) =>
    match g.m.elems[e]? with
    | some el =>
      (match el.items with
       | .funcs fs => fs.map (("f", ·))
       | .exprs _ es => es.flatMap refsOfCExpr) ++
      (match el.mode with
       | .active t off => (refsOfCExpr off).filter (·.1 = "g") ++ [("t", t.getD 0)]
       | _ => [])
    | none => []
  | _ => []

def gcRoots (g : GcInfo) : List Ent :=
  (g.m.exports.map fun e => (e.2.1, e.2.2)) ++
  (g.m.start.toList.map (("f", ·))) ++
  (g.m.datas.zipIdx.filterMap fun p => match p.1.mode with | .active _ _ => some ("d", p.2) | _ => none) ++
  (g.m.elems.zipIdx.filterMap fun p => match p.1.mode with
    | .active t _ => if t.getD 0 < g.nit then some ("e", p.2) else none
    | .declared => some ("e", p.2)
    | .passive => none) ++
  g.m.roots

/-- worklist closure with its stack made visible: (todo, visited) after `fuel` iterations -/
def closureSt (succ : Ent → List Ent) : Nat → List Ent → List Ent → List Ent × List Ent
  | 0, todo, visited => (todo, visited)
  | _, [], visited => ([], visited)
  | fuel+1, x :: todo, visited =>
    let new := (succ x).filter fun y => !(visited.contains y) && !(todo.contains y) && y != x
    closureSt succ fuel (new.eraseDups ++ todo) (if visited.contains x then visited else visited ++ [x])

def closure (succ : Ent → List Ent) (fuel : Nat) (todo visited : List Ent) : List Ent :=
  (closureSt succ fuel todo visited).2

def universeSize (g : GcInfo) : Nat :=
  g.m.sigs.length + g.pfs.length * 2 + g.nif + g.nit + g.m.tables.length + g.nim + g.m.mems.length +
  g.nig + g.m.globals.length + g.m.elems.length + g.m.datas.length + 8

/-- `Used::new`, including the "keep one memory when data is kept" residue -/
def usedSet (g : GcInfo) : List Ent :=
  let roots := (gcRoots g).eraseDups
  let u := closure (gcSucc g) ((universeSize g) * (universeSize g) + 16) roots []
  let anyData := u.any (·.1 = "d")
  let anyMem := u.any (·.1 = "m")
  if anyData && !anyMem && (g.nim + g.m.mems.length > 0) then u ++ [("m", 0)] else u

/-- every entity a module can name: the index ranges of its seven spaces (type ids include the
    function-entry types handed out while parsing) -/
def entUniverse (g : GcInfo) : List Ent :=
  (List.range (g.nif + g.pfs.length)).map (("f", ·)) ++
  (List.range (g.nit + g.m.tables.length)).map (("t", ·)) ++
  (List.range (g.nim + g.m.mems.length)).map (("m", ·)) ++
  (List.range (g.nig + g.m.globals.length)).map (("g", ·)) ++
  (List.range g.m.elems.length).map (("e", ·)) ++
  (List.range g.m.datas.length).map (("d", ·)) ++
  (List.range ((distinctSigs g.m.sigs).length + g.pfs.length)).map (("y", ·))

/-- the module's references stay in range: roots and successor edges lead to entities that exist
    (what validation guarantees; decidable, evaluated by the driver on every case) -/
def gcWF (g : GcInfo) : Bool :=
  let U := entUniverse g
  (gcRoots g).all U.contains && U.all fun x => (gcSucc g x).all U.contains

/-- did the worklist run to completion within the fuel the model gives it? -/
def usedFinished (g : GcInfo) : Bool :=
  (closureSt (gcSucc g) ((universeSize g) * (universeSize g) + 16) (gcRoots g).eraseDups []).1.isEmpty

def mkGcInfo (m : ModuleM) : Option GcInfo :=
  let nif := importedCount m "f"
  let c : InCode := ⟨m.sigs, nif, m.code.zip m.funcs |>.map fun p => ⟨p.2, p.1.1, p.1.2⟩⟩
  (parseCode c).map fun pfs => ⟨m, pfs, dedupIds m.sigs, nif, importedCount m "t", importedCount m "m", importedCount m "g"⟩

/-- ids kept of one space, ascending, and the compaction map id ↦ new index -/
def keptOf (u : List Ent) (sp : String) (n : Nat) : List Nat := (List.range n).filter fun i => u.contains (sp, i)
def compact (kept : List Nat) : List (Nat × Nat) := kept.zipIdx.map fun p => (p.1, p.2)

end Walrus

namespace Walrus

/-- imported entities of one kind, in import order, with their position among the imports -/
def importPositions (m : ModuleM) (k : String) : List Nat :=
  m.imports.zipIdx.filterMap fun p => match p.1.2.2, k with
    | .func _, "f" => some p.2 | .table _, "t" => some p.2 | .mem _, "m" => some p.2 | .global _, "g" => some p.2
    | _, _ => none

def filterNames (l : List (Nat × String)) (mp : List (Nat × Nat)) : List (Nat × String) :=
  sortNames ((distinctIds (l.map (·.1))).filterMap fun i =>
    match lastName l i, assoc mp i with
    | some s, some j => some (j, s)
    | _, _ => none)

/-! the sections outside the code section, each as the emitter writes it after the pass (`none` = a
    lookup of an emitted index fails, i.e. the real code panics) -/

/-- imports: kept iff the imported entity is used; function imports get their new type index -/
def gcImportsOut (m : ModuleM) (kf kt km kg : List Nat) (tyIdx : Nat → Option Nat) :
    Option (List (String × String × ImportDescM)) :=
  let fpos := importPositions m "f"; let tpos := importPositions m "t"
  let mpos := importPositions m "m"; let gpos := importPositions m "g"
  (m.imports.zipIdx.filterMap fun p =>
    let i := p.1
    match i.2.2 with
    | .func t => if kf.contains (fpos.idxOf p.2) then some ((tyIdx t).map fun t' => (i.1, i.2.1, ImportDescM.func t')) else none
    | .table _ => if kt.contains (tpos.idxOf p.2) then some (some i) else none
    | .mem _ => if km.contains (mpos.idxOf p.2) then some (some i) else none
    | .global _ => if kg.contains (gpos.idxOf p.2) then some (some i) else none).mapM id

def gcGlobalsOut (m : ModuleM) (nig : Nat) (kg : List Nat) (maps : IdMaps) : Option (List (GlobalTyM × CExprM)) :=
  ((m.globals.zipIdx.filter fun p => kg.contains (nig + p.2)).map (·.1)).mapM fun gl =>
    (mapCExpr maps gl.2).map fun e => (gl.1, e)

def gcExportsOut (m : ModuleM) (maps : IdMaps) : Option (List (String × String × Nat)) :=
  m.exports.mapM fun e => (maps.get e.2.1 e.2.2).map fun i => (e.1, e.2.1, i)

def gcStartOut (m : ModuleM) (funcMap : List (Nat × Nat)) : Option (Option Nat) :=
  match m.start with
  | none => some none
  | some s => (assoc funcMap s).map some

def gcElemsOut (m : ModuleM) (ke : List Nat) (funcMap : List (Nat × Nat)) (maps : IdMaps) : Option (List ElemM) :=
  ((m.elems.zipIdx.filter fun p => ke.contains p.2).map (·.1)).mapM fun e =>
    -- the table operand goes through the table map before the encoding is chosen
    let e' : Option ElemM := match e.mode with
      | .active t off => (assoc maps.tables (t.getD 0)).map fun t' => { e with mode := .active (some t') off }
      | _ => some e
    e'.bind (rtElem funcMap maps)

def gcDatasOut (m : ModuleM) (kd : List Nat) (maps : IdMaps) : Option (List DataM) :=
  ((m.datas.zipIdx.filter fun p => kd.contains p.2).map (·.1)).mapM fun d =>
    let d' : Option DataM := match d.mode with
      | .active mem off => (assoc maps.mems mem).map fun mm => { d with mode := .active mm off }
      | .passive => some d
    d'.bind (rtData maps)

/-- parse, run the GC pass, emit -/
def gcRoundTrip (m : ModuleM) : Option ModuleM :=
  if m.code.length ≠ m.funcs.length then none else
  match mkGcInfo m with
  | none => none
  | some g =>
    let u := usedSet g
    let nf := g.nif + m.funcs.length
    let nt := g.nit + m.tables.length
    let nm := g.nim + m.mems.length
    let ng := g.nig + m.globals.length
    let kf := keptOf u "f" nf
    let kt := keptOf u "t" nt
    let km := keptOf u "m" nm
    let kg := keptOf u "g" ng
    let ke := keptOf u "e" m.elems.length
    let kd := keptOf u "d" m.datas.length
    let ky := keptOf u "y" (distinctSigs m.sigs).length
    let other : IdMaps := { tables := compact kt, mems := compact km, globals := compact kg,
                            elems := compact ke, datas := compact kd }
    let c : InCode := ⟨m.sigs, g.nif, m.code.zip m.funcs |>.map fun p => ⟨p.2, p.1.1, p.1.2⟩⟩
    match emitCodeWith c g.pfs ⟨kf, ky, other⟩ with
    | none => none
    | some oc =>
      let dsigs := distinctSigs m.sigs
      let idSigs : List (Nat × Sig) := (dsigs.zipIdx.map (fun p => (p.2, p.1))).filter (fun p => ky.contains p.1)
      let sortedTy := sortBy (fun a b => sigLe a.2 b.2) idSigs
      let tyMap := sortedTy.zipIdx.map (fun p => (p.1.1, p.2))
      let tyIdx := fun (i : Nat) => (g.tids[i]?).bind (assoc tyMap)
      let keptImpF := (List.range g.nif).filter kf.contains
      let funcMap := keptImpF.zipIdx.map (fun p => (p.1, p.2)) ++
        oc.funcs.zipIdx.map (fun p => (p.1.id, keptImpF.length + p.2))
      let maps : IdMaps := { other with funcs := funcMap, types := tyMap }
      let imports := gcImportsOut m kf kt km kg tyIdx
      let tables := (m.tables.zipIdx.filter fun p => kt.contains (g.nit + p.2)).map (·.1)
      let mems := (m.mems.zipIdx.filter fun p => km.contains (g.nim + p.2)).map (·.1)
      let globals := gcGlobalsOut m g.nig kg maps
      let exports := gcExportsOut m maps
      let start := gcStartOut m funcMap
      let elems := gcElemsOut m ke funcMap maps
      let datas := gcDatasOut m kd maps
      let keptDatas := (m.datas.zipIdx.filter fun p => kd.contains p.2).map (·.1)
      let anyPassive := keptDatas.any fun d => match d.mode with | .passive => true | _ => false
      let anyUse := (g.pfs.filter fun f => kf.contains f.id).any fun f =>
        let ar := PSeqs.toArena f.seqs
        usesData (bodyEvents ar (arenaFuel ar) 0).2
      let dataCount := if keptDatas.isEmpty then none else if anyPassive || anyUse then some keptDatas.length else none
      let names := m.names.map fun n =>
        let tnames := sortNames ((distinctIds (n.types.filterMap fun p => g.tids[p.1]?)).filterMap fun tid =>
          let given := n.types.filterMap fun p => if g.tids[p.1]? = some tid then some (tid, p.2) else none
          match lastName given tid, assoc tyMap tid with
          | some s, some j => some (j, s)
          | _, _ => none)
        let lnames := sortBy (fun a b => a.1 ≤ b.1) (oc.funcs.filterMap fun f =>
          match g.pfs[f.id - g.nif]? with
          | none => none
          | some pf =>
            let given := (n.locals.filter (·.1 = f.id)).flatMap (·.2)
            let named := (distinctIds (given.map (·.1))).filterMap fun li =>
              match pf.localTys[li]?, lastName given li with
              | some (lid, _), some s => if f.usedLocals.contains lid then (assoc f.localMap lid).map fun slot => (slot, s) else none
              | _, _ => none
            if named.isEmpty then none else (assoc funcMap f.id).map fun j => (j, sortNames named))
        ({ module := n.module, funcs := filterNames n.funcs funcMap, locals := lnames, types := tnames,
           tables := filterNames n.tables maps.tables, mems := filterNames n.mems maps.mems,
           globals := filterNames n.globals maps.globals, elems := filterNames n.elems maps.elems,
           datas := filterNames n.datas maps.datas } : NamesM)
      let namesOut := match names with
        | some n => if n.module.isNone && n.funcs.isEmpty && n.locals.isEmpty && n.types.isEmpty && n.tables.isEmpty &&
                      n.mems.isEmpty && n.globals.isEmpty && n.elems.isEmpty && n.datas.isEmpty then none else some n
        | none => none
      match imports, globals, exports, start, elems, datas with
      | some im, some gl, some ex, some st, some el, some da =>
        some { sigs := oc.sigs, imports := im, funcs := oc.funcs.map (·.tyIdx), tables := tables, mems := mems,
               globals := gl, exports := ex, start := st, elems := el, dataCount := dataCount, datas := da,
               code := oc.funcs.map (fun f => (f.locals, f.ops.map (·, 0))), names := namesOut }
      | _, _, _, _, _, _ => none

end Walrus
