import Walrus.Module

/-
The two index maps walrus exposes to extension code: `IndicesToIds` (parse time, handed to
`on_parse`) and `IdsToIndices` (emit time, handed to `CustomSection::data`). Ids are arena
indices. Derived from the same definitions `roundTripModule` uses.
-/
namespace Walrus

structure ParseMaps where
  types : List Nat
  funcs : List Nat
  tables : List Nat
  mems : List Nat
  globals : List Nat
  elems : List Nat
  datas : List Nat
  locals : List (Nat × List Nat)      -- FunctionId ↦ LocalIds by local index
  deriving Repr

def localsPerFunc (m : ModuleM) : List (Nat × List Nat) :=
  let nif := importedCount m "f"
  let rec go (fs : List (Nat × List (Nat × String))) (k next : Nat) (acc : List (Nat × List Nat)) : List (Nat × List Nat) :=
    match fs with
    | [] => acc.reverse
    | (ty, decl) :: r =>
      let np := match m.sigs[ty]? with | some s => s.1.length | none => 0
      let n := np + (expandLocals decl).length
      go r (k + 1) (next + n) ((nif + k, List.range' next n) :: acc)
  go (m.funcs.zip (m.code.map (·.1))) 0 0 []

def parseMaps (m : ModuleM) : ParseMaps :=
  { types := dedupIds m.sigs,
    funcs := List.range (importedCount m "f" + m.funcs.length),
    tables := List.range (importedCount m "t" + m.tables.length),
    mems := List.range (importedCount m "m" + m.mems.length),
    globals := List.range (importedCount m "g" + m.globals.length),
    elems := List.range m.elems.length,
    datas := List.range m.datas.length,
    locals := localsPerFunc m }

structure EmitMaps where
  types : List (Nat × Nat)
  funcs : List (Nat × Nat)
  tables : List (Nat × Nat)
  mems : List (Nat × Nat)
  globals : List (Nat × Nat)
  elems : List (Nat × Nat)
  datas : List (Nat × Nat)
  deriving Repr

def idMap (n : Nat) : List (Nat × Nat) := (List.range n).map fun i => (i, i)

/-- emit-time maps of a module that was parsed and not edited -/
def emitMaps (m : ModuleM) : Option EmitMaps :=
  let nif := importedCount m "f"
  let c : InCode := ⟨m.sigs, nif, m.code.zip m.funcs |>.map fun p => ⟨p.2, p.1.1, p.1.2⟩⟩
  (parseCode c).bind fun pfs => (emitCode c pfs).map fun oc =>
    let dsigs := distinctSigs m.sigs
    let idSigs : List (Nat × Sig) := dsigs.zipIdx.map (fun p => (p.2, p.1))
    let sortedTy := sortBy (fun a b => sigLe a.2 b.2) idSigs
    { types := sortBy (fun a b => a.1 ≤ b.1) (sortedTy.zipIdx.map (fun p => (p.1.1, p.2))),
      funcs := sortBy (fun a b => a.1 ≤ b.1) (idMap nif ++ oc.funcs.zipIdx.map (fun p => (p.1.id, nif + p.2))),
      tables := idMap (importedCount m "t" + m.tables.length),
      mems := idMap (importedCount m "m" + m.mems.length),
      globals := idMap (importedCount m "g" + m.globals.length),
      elems := idMap m.elems.length,
      datas := idMap m.datas.length }

end Walrus
