import Walrus.Run

/-
M14: the function-replacement edits (`ModuleFunctions::replace_imported_func`,
`replace_exported_func`, src/module/functions/mod.rs) as *specifications* on the interpreter's view
of a module.  Function identifiers are positions in `Env.funcs`; an identifier that keeps its
position keeps every reference to it (callers, element segments, exports, start).
-/
namespace Walrus.Sem

/-- `replace_imported_func k body`: the function named by index `k` keeps its identifier (uid), its
    signature and its parameters and becomes a local function with the given body (and the scratch
    locals `extra` the body declares); nothing else changes.  `none` when `k` is not an imported function (the edit returns an error). -/
def scratchLt (extra : List String) : List (Nat × String) := extra.zipIdx.map fun p => (1000000 + p.2, p.1)

/-- the local table of a replacement function: the parameters of the replaced function, then the
    scratch locals its body declares (fresh uids) -/
def replLt (fi : FuncInfo) (extra : List String) : List (Nat × String) :=
  fi.lt.take fi.sig.1.length ++ scratchLt extra

def Env.replaceImported (E : Env) (k : Nat) (body : SL) (extra : List String := []) : Option Env :=
  match (E.ftab[k]?).bind fun u => (E.ufuncs[u]?).map fun fi => (u, fi) with
  | some (u, fi) =>
    if fi.imp.isSome then some { E with ufuncs := E.ufuncs.set u ⟨fi.sig, none, replLt fi extra, body⟩ } else none
  | none => none

/-- the import entries with the `j`-th *function* import removed -/
def dropFuncImport (imports : List (String × String × ImportDescM)) (j : Nat) : List (String × String × ImportDescM) :=
  let rec go (l : List (String × String × ImportDescM)) (seen : Nat) : List (String × String × ImportDescM) :=
    match l with
    | [] => []
    | i :: r => match i.2.2 with
      | .func _ => if seen = j then r else i :: go r (seen + 1)
      | _ => i :: go r seen
  go imports 0

/-- position of the first export of function `f` (`get_exported_func`) -/
def firstExportOf (m : ModuleM) (f : Nat) : Option Nat :=
  let i := m.exports.findIdx fun e => e.2.1 = "f" && e.2.2 = f
  if i < m.exports.length then some i else none

/-- `replace_exported_func f body`: a new function with `f`'s signature is added at a fresh
    identifier and the first export of `f` is retargeted to it; `f` itself and every other
    reference to it are untouched.  `none` when `f` is not exported or not a local function. -/
def replaceExported (m : ModuleM) (E : Env) (f : Nat) (body : SL) (extra : List String := []) : Option (ModuleM × Env) :=
  match (E.ftab[f]?).bind fun u => E.ufuncs[u]?, firstExportOf m f with
  | some fi, some ex =>
    if fi.imp.isSome then none else
    some ({ m with exports := m.exports.set ex ((m.exports[ex]?.map (·.1)).getD "", "f", E.ftab.length) },
          { E with ftab := E.ftab ++ [E.ufuncs.length],
                   ufuncs := E.ufuncs ++ [⟨fi.sig, none, replLt fi extra, body⟩] })
  | _, _ => none

end Walrus.Sem
