/-
M1: model of `src/tombstone_arena.rs` (TombstoneArena) and `src/arena_set.rs` (ArenaSet).

Hand-written (tie H): the correspondence suite `arena` drives the real collections
(ModuleTypes = ArenaSet<Type>; ModuleMemories/Tables/Globals/Exports/... = TombstoneArena)
and this model with the same operation histories and compares every answer.

No imports: this file is part of the compiled driver.
-/

namespace Walrus

/-- `TombstoneArena<T>`: `inner` is an append-only vector, `dead` the tombstone set
    (a `HashSet` in the code; order irrelevant, insertion idempotent). -/
structure Arena (α : Type) where
  items : List α
  dead  : List Nat
  deriving Repr

namespace Arena
variable {α : Type}

def empty : Arena α := ⟨[], []⟩

/-- `next_id` -/
def nextId (a : Arena α) : Nat := a.items.length

/-- `alloc`: the id is the position in `inner`. -/
def alloc (a : Arena α) (v : α) : Arena α × Nat :=
  ({ a with items := a.items ++ [v] }, a.items.length)

def isDead (a : Arena α) (i : Nat) : Bool := a.dead.contains i

/-- `contains`: `inner.get(id).is_some() && !dead.contains(id)` -/
def contains (a : Arena α) (i : Nat) : Bool := decide (i < a.items.length) && !a.isDead i

/-- `get`: `None` if dead, else `inner.get(id)` -/
def get? (a : Arena α) (i : Nat) : Option α :=
  if a.isDead i then none else a.items[i]?

/-- `Index::index`: `assert!(!dead.contains(id)); &inner[id]` (out of range panics in id_arena).
    `none` = panic. -/
def index (a : Arena α) (i : Nat) : Option α :=
  if a.isDead i then none else a.items[i]?

/-- `delete`: `assert!(contains(id)); dead.insert(id); inner[id].on_delete()`.
    `none` = panic (state unchanged: the assertion precedes every mutation). -/
def delete (onDelete : α → α) (a : Arena α) (i : Nat) : Option (Arena α) :=
  if a.contains i then
    some { items := a.items.modify i onDelete,
           dead := if a.dead.contains i then a.dead else i :: a.dead }
  else none

/-- `len`: `inner.len() - dead.len()` exactly as coded. -/
def len (a : Arena α) : Nat := a.items.length - a.dead.length

def enumFrom : Nat → List α → List (Nat × α)
  | _, [] => []
  | n, x :: xs => (n, x) :: enumFrom (n+1) xs

/-- `iter`: all of `inner` in index order, filtered by `!dead.contains(id)`. -/
def iter (a : Arena α) : List (Nat × α) :=
  (enumFrom 0 a.items).filter (fun p => !a.isDead p.1)

end Arena

/-- `ArenaSet<T>`: arena + `already_in_arena : HashMap<T, Id<T>>` (association list here;
    keys are unique by construction, lookup order is irrelevant). -/
structure ArenaSet (α : Type) where
  arena : Arena α
  index : List (α × Nat)
  deriving Repr

namespace ArenaSet
variable {α : Type} [DecidableEq α]

def empty : ArenaSet α := ⟨Arena.empty, []⟩

def lookup (ix : List (α × Nat)) (v : α) : Option Nat :=
  match ix with
  | [] => none
  | (k, i) :: r => if k = v then some i else lookup r v

def eraseKey (ix : List (α × Nat)) (v : α) : List (α × Nat) :=
  ix.filter (fun p => !(decide (p.1 = v)))

/-- `insert`: existing id when the value is already present, otherwise allocate. -/
def insert (s : ArenaSet α) (v : α) : ArenaSet α × Nat :=
  match lookup s.index v with
  | some i => (s, i)
  | none =>
    let (a, i) := s.arena.alloc v
    ({ arena := a, index := (v, i) :: s.index }, i)

/-- `remove`: `already_in_arena.remove(&arena[id]); arena.delete(id)`.
    `arena[id]` panics on a dead / unknown id. -/
def remove (onDelete : α → α) (s : ArenaSet α) (i : Nat) : Option (ArenaSet α) :=
  match s.arena.index i with
  | none => none
  | some v =>
    match s.arena.delete onDelete i with
    | none => none
    | some a => some { arena := a, index := eraseKey s.index v }

def iter (s : ArenaSet α) : List (Nat × α) := s.arena.iter

end ArenaSet

/-! ## The abstract specification: a counter and the list of live items in creation order -/

structure ASpec (α : Type) where
  next : Nat
  live : List (Nat × α)
  deriving Repr

namespace ASpec
variable {α : Type}

def empty : ASpec α := ⟨0, []⟩

def find? (l : List (Nat × α)) (i : Nat) : Option α :=
  match l with
  | [] => none
  | (k, v) :: r => if k = i then some v else find? r i

def alloc (s : ASpec α) (v : α) : ASpec α × Nat :=
  ({ next := s.next + 1, live := s.live ++ [(s.next, v)] }, s.next)

def get? (s : ASpec α) (i : Nat) : Option α := find? s.live i

def delete (s : ASpec α) (i : Nat) : Option (ASpec α) :=
  match find? s.live i with
  | none => none
  | some _ => some { s with live := s.live.filter (fun p => !(p.1 == i)) }

def findVal [DecidableEq α] (l : List (Nat × α)) (v : α) : Option Nat :=
  match l with
  | [] => none
  | (k, w) :: r => if w = v then some k else findVal r v

def insert [DecidableEq α] (s : ASpec α) (v : α) : ASpec α × Nat :=
  match findVal s.live v with
  | some i => (s, i)
  | none => s.alloc v

end ASpec

/-! ## Operation histories (shared by the driver and the refinement theorems) -/

inductive AOp (α : Type) where
  | alloc (v : α)        -- plain arena `alloc` / set `insert`
  | delete (i : Nat)
  | get (i : Nat)        -- `get` (Option)
  | index (i : Nat)      -- `Index` (panics when absent)
  | contains (i : Nat)
  | iter
  | len
  | find (v : α)        -- `ModuleTypes::find`: first live item with this value, in creation order
  deriving Repr

inductive AOut (α : Type) where
  | id (i : Nat)
  | ok
  | panic
  | val (v : Option α)
  | bool (b : Bool)
  | items (l : List (Nat × α))
  | nat (n : Nat)
  | found (i : Option Nat)
  deriving Repr, DecidableEq

namespace Arena
variable {α : Type}

def step [DecidableEq α] (onDelete : α → α) (a : Arena α) : AOp α → Arena α × AOut α
  | .alloc v => let (a', i) := a.alloc v; (a', .id i)
  | .delete i => match a.delete onDelete i with
      | some a' => (a', .ok)
      | none => (a, .panic)
  | .get i => (a, .val (a.get? i))
  | .index i => (a, match a.index i with | some v => .val (some v) | none => .panic)
  | .contains i => (a, .bool (a.contains i))
  | .iter => (a, .items a.iter)
  | .len => (a, .nat a.len)
  | .find v => (a, .found (ASpec.findVal a.iter v))

def run [DecidableEq α] (onDelete : α → α) : Arena α → List (AOp α) → Arena α × List (AOut α)
  | a, [] => (a, [])
  | a, op :: ops =>
    let (a', o) := step onDelete a op
    let (a'', os) := run onDelete a' ops
    (a'', o :: os)

end Arena

namespace ArenaSet
variable {α : Type} [DecidableEq α]

def step (onDelete : α → α) (s : ArenaSet α) : AOp α → ArenaSet α × AOut α
  | .alloc v => let (s', i) := s.insert v; (s', .id i)
  | .delete i => match s.remove onDelete i with
      | some s' => (s', .ok)
      | none => (s, .panic)
  | .get i => (s, .val (s.arena.get? i))
  | .index i => (s, match s.arena.index i with | some v => .val (some v) | none => .panic)
  | .contains i => (s, .bool (s.arena.contains i))
  | .iter => (s, .items s.iter)
  | .len => (s, .nat s.arena.len)
  | .find v => (s, .found (ASpec.findVal s.iter v))

def run (onDelete : α → α) : ArenaSet α → List (AOp α) → ArenaSet α × List (AOut α)
  | s, [] => (s, [])
  | s, op :: ops =>
    let (s', o) := step onDelete s op
    let (s'', os) := run onDelete s' ops
    (s'', o :: os)

end ArenaSet

namespace ASpec
variable {α : Type}

def stepWith [DecidableEq α] (ins : ASpec α → α → ASpec α × Nat) (s : ASpec α) : AOp α → ASpec α × AOut α
  | .alloc v => let (s', i) := ins s v; (s', .id i)
  | .delete i => match s.delete i with
      | some s' => (s', .ok)
      | none => (s, .panic)
  | .get i => (s, .val (s.get? i))
  | .index i => (s, match s.get? i with | some v => .val (some v) | none => .panic)
  | .contains i => (s, .bool (s.get? i).isSome)
  | .iter => (s, .items s.live)
  | .len => (s, .nat s.live.length)
  | .find v => (s, .found (findVal s.live v))

def runWith [DecidableEq α] (ins : ASpec α → α → ASpec α × Nat) : ASpec α → List (AOp α) → ASpec α × List (AOut α)
  | s, [] => (s, [])
  | s, op :: ops =>
    let (s', o) := stepWith ins s op
    let (s'', os) := runWith ins s' ops
    (s'', o :: os)

/-- specification of a plain arena history -/
def run [DecidableEq α] : ASpec α → List (AOp α) → ASpec α × List (AOut α) := runWith alloc
/-- specification of a de-duplicating set history -/
def runSet [DecidableEq α] : ASpec α → List (AOp α) → ASpec α × List (AOut α) := runWith insert

end ASpec

end Walrus
