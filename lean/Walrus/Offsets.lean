import Walrus.Body

/-
M10 (offsets): the code-offset bookkeeping of `ModuleFunctions::emit`
(`src/module/functions/mod.rs`) and of the `Emit` visitor's location map, *parametric in the
encoder*: an operator is whatever byte string `enc` says, local declarations are an opaque byte
string per function. Byte layout of the code section is spelled out with real unsigned LEB128.
-/
namespace Walrus

/-- unsigned LEB128, least significant group first (fuel-indexed so that it reduces in the kernel;
    `n` units of fuel are always enough because every step divides by 128) -/
def lebBytesF : Nat → Nat → List UInt8
  | 0, n => [UInt8.ofNat n]
  | f+1, n => if n < 128 then [UInt8.ofNat n] else UInt8.ofNat (n % 128 + 128) :: lebBytesF f (n / 128)

def lebLenF : Nat → Nat → Nat
  | 0, _ => 1
  | f+1, n => if n < 128 then 1 else 1 + lebLenF f (n / 128)

def lebBytes (n : Nat) : List UInt8 := lebBytesF n n
def lebLen (n : Nat) : Nat := lebLenF n n

theorem lebBytesF_length (f n : Nat) : (lebBytesF f n).length = lebLenF f n := by
  induction f generalizing n with
  | zero => rfl
  | succ f ih =>
    simp only [lebBytesF, lebLenF]
    split
    · rfl
    · simp [ih]; omega

theorem lebBytes_length (n : Nat) : (lebBytes n).length = lebLen n := lebBytesF_length n n

/-- one emitted function: its id, the bytes of its local declarations, its operators (already
    encoded), and the raw location map of the `Emit` visitor (location, operator position) -/
structure EmittedFunc where
  id : Nat
  decls : List UInt8
  ops : List (List UInt8)
  marks : List (Nat × Nat)
  deriving Repr

def EmittedFunc.body (f : EmittedFunc) : List UInt8 := f.decls ++ f.ops.flatten
/-- `wasm_function.byte_len()` -/
def EmittedFunc.byteLen (f : EmittedFunc) : Nat := f.body.length
/-- the code-section entry: size prefix, then the body -/
def EmittedFunc.entry (f : EmittedFunc) : List UInt8 := lebBytes f.byteLen ++ f.body
/-- `encoder.byte_len()` when operator `k` is about to be written -/
def EmittedFunc.posOf (f : EmittedFunc) (k : Nat) : Nat := f.decls.length + (f.ops.take k).flatten.length

/-- the code section as `wasm_encoder` writes it: id, size, count, entries -/
def codeSectionBytes (fs : List EmittedFunc) : List UInt8 :=
  let content := lebBytes fs.length ++ (fs.map EmittedFunc.entry).flatten
  [10] ++ lebBytes content.length ++ content

structure CodeTransform where
  instructionMap : List (Nat × Nat)         -- (location, absolute offset), sorted by location
  codeSectionStart : Nat
  functionRanges : List (Nat × Nat × Nat)   -- (function id, start, end), sorted by id
  deriving Repr

/-- `BTreeMap::insert` -/
def btInsert (k v : Nat) : List (Nat × Nat) → List (Nat × Nat)
  | [] => [(k, v)]
  | (a, b) :: r => if k < a then (k, v) :: (a, b) :: r else if k = a then (k, v) :: r else (a, b) :: btInsert k v r

/-- `collect_non_default_code_offsets` -/
def collectOffsets (acc : List (Nat × Nat)) (codeOffset : Nat) (f : EmittedFunc) : List (Nat × Nat) :=
  f.marks.foldl (fun m p => if p.1 = defaultLoc then m else btInsert p.1 (f.posOf p.2 + codeOffset) m) acc

def insertRange (r : Nat × Nat × Nat) : List (Nat × Nat × Nat) → List (Nat × Nat × Nat)
  | [] => [r]
  | x :: xs => if r.1 < x.1 then r :: x :: xs else x :: insertRange r xs

/-- the loop after the code section has been written; `firstEntry` =
    `wasm_module.len() - code_section.byte_len()`; `startFix` = what is subtracted from it to obtain
    `code_section_start` -/
def offsetLoop : List EmittedFunc → Nat → List (Nat × Nat) → List (Nat × Nat × Nat) →
    List (Nat × Nat) × List (Nat × Nat × Nat)
  | [], _, m, rs => (m, rs)
  | f :: r, cur, m, rs =>
    let lebl := lebLen f.byteLen
    let codeStart := cur + lebl
    let cur' := cur + lebl + f.byteLen
    offsetLoop r cur' (collectOffsets m codeStart f) (rs ++ [(f.id, codeStart - lebl, cur')])

/-- `prefixLen` = number of bytes of the module before the code section's id byte -/
def codeTransform (prefixLen : Nat) (fs : List EmittedFunc) (startFix : Nat) : CodeTransform :=
  let total := prefixLen + (codeSectionBytes fs).length
  let firstEntry := total - (fs.map EmittedFunc.entry).flatten.length
  let (m, rs) := offsetLoop fs firstEntry [] []
  ⟨m, firstEntry - startFix, rs.foldr insertRange []⟩

end Walrus
