import Walrus.Code

/-
The parse-time environment and the emit-time maps of one function, as `parseCode` and
`emitCodeWith` build them (the same expressions, under names of their own), so that the driver can
evaluate conditions on them per case (`rentie`: the maps are the ones the emission used; the leaves
of the body agree with the renumbering).
-/
namespace Walrus

/-- the environment `parseCode` hands to `buildBody` for a function with these locals -/
def envOf (c : InCode) (pf : ParsedFunc) : PEnv :=
  { funcs := List.range (c.importedFuncs + c.funcs.length), types := dedupIds c.sigs,
    locals := pf.localTys.map (·.1), sigs := c.sigs }

/-- TypeId ↦ emitted type index -/
def tyMapOf (c : InCode) (k : Keep) : List (Nat × Nat) :=
  let dsigs := distinctSigs c.sigs
  let idSigs : List (Nat × Sig) := (dsigs.zipIdx.map (fun p => (p.2, p.1))).filter (fun p => k.types.contains p.1)
  let sortedTy : List (Nat × Sig) := sortBy (fun a b => sigLe a.2 b.2) idSigs
  sortedTy.zipIdx.map (fun p => (p.1.1, p.2))

/-- FunctionId ↦ emitted function index -/
def funcMapOf (c : InCode) (pfs : List ParsedFunc) (k : Keep) : List (Nat × Nat) :=
  let keptImports := (List.range c.importedFuncs).filter k.funcs.contains
  let sized := (pfs.filter (fun f => k.funcs.contains f.id)).map fun f => (f, funcSize (PSeqs.toArena f.seqs) 0)
  let sorted := sortBy (fun a b => a.2 > b.2 || (a.2 == b.2 && a.1.id ≤ b.1.id)) sized
  keptImports.zipIdx.map (fun p => (p.1, p.2)) ++ sorted.zipIdx.map (fun p => (p.1.1.id, keptImports.length + p.2))

/-- the maps `emitCodeWith` emits the body of a function with, given the function's local map -/
def mapsOf (c : InCode) (pfs : List ParsedFunc) (k : Keep) (lmap : List (Nat × Nat)) : IdMaps :=
  { k.other with funcs := funcMapOf c pfs k, types := tyMapOf c k, locals := lmap }

end Walrus
