import Walrus.Proofs.Bridge
import Walrus.BodiesOK

/-!
The renumbering the emission maps induce.  `Proofs/Bridge.lean` shows that what `emit ∘ parse`
writes for a body reads as `ren ρ (elide t)` for every `ρ` that agrees with the parse-time
environment and the emit-time maps on the surviving leaves (`agreeL`).  Here: for operators of the
shape the decoder produces (`opShapedB`), the renumbering read off those maps themselves
(`renOfMaps`) always agrees — so the hypothesis is not a per-case matter.
-/
namespace Walrus
open Sem (SI SL Ren structuralName isLocalOp)

/-- the renumbering of functions, types, locals and block types that parse followed by emit applies -/
def renOfMaps (e : PEnv) (m : IdMaps) : Ren where
  f := fun i => ((e.get "f" i).bind (m.get "f")).getD i
  y := fun i => ((e.get "y" i).bind (m.get "y")).getD i
  x := fun i => ((e.get "x" i).bind (m.get "x")).getD i
  bt := fun b => match (seqTyOfBt e b).bind (blockTy m) with
    | some (.bt b') => b'
    | _ => b

/-- the operand shape of an operator as the decoder produces it: labels on the branch operators, a
    function index on calls and `ref.func`, a type and a table on indirect calls, a local on the local
    operators, and otherwise only tables, globals, memories and segments (and memarg offsets below
    2^32, which `ir::MemArg` can hold — finding D5 is about the others) -/
inductive OpShape : Op → Prop
  | br (n : Nat) : OpShape ⟨"Br", [.ref "l" n]⟩
  | brIf (n : Nat) : OpShape ⟨"BrIf", [.ref "l" n]⟩
  | brTable (ts : List Nat) (d : Nat) : OpShape ⟨"BrTable", ts.map (Arg.ref "l") ++ [.ref "l" d]⟩
  | ret : OpShape ⟨"Return", []⟩
  | unreachable : OpShape ⟨"Unreachable", []⟩
  | call (name : String) (h : name = "Call" ∨ name = "RefFunc" ∨ name = "ReturnCall") (i : Nat) :
      OpShape ⟨name, [.ref "f" i]⟩
  | callIndirect (name : String) (h : name = "CallIndirect" ∨ name = "ReturnCallIndirect") (y t : Nat) :
      OpShape ⟨name, [.ref "y" y, .ref "t" t]⟩
  | local_ (name : String) (h : name = "LocalGet" ∨ name = "LocalSet" ∨ name = "LocalTee") (x : Nat) :
      OpShape ⟨name, [.ref "x" x]⟩
  | other (name : String) (args : List Arg)
      (hname : name ≠ "Br" ∧ name ≠ "BrIf" ∧ name ≠ "BrTable" ∧ name ≠ "Return" ∧ name ≠ "Unreachable" ∧ name ≠ "Nop" ∧
        name ≠ "Call" ∧ name ≠ "RefFunc" ∧ name ≠ "ReturnCall" ∧ name ≠ "CallIndirect" ∧ name ≠ "ReturnCallIndirect" ∧
        name ≠ "LocalGet" ∧ name ≠ "LocalSet" ∧ name ≠ "LocalTee")
      (hall : (args.all fun a => match a with | .ref sp _ => idSpace sp | _ => true) = true)
      (hw : wrapOffsets args = args) : OpShape ⟨name, args⟩

theorem penv_get_id (e : PEnv) (sp : String) (i : Nat) (h : idSpace sp = true) : e.get sp i = some i := by
  simp only [idSpace, Bool.or_eq_true, decide_eq_true_eq] at h
  have h1 : sp ≠ "f" := by rcases h with (((h | h) | h) | h) | h <;> (subst h; decide)
  have h2 : sp ≠ "y" := by rcases h with (((h | h) | h) | h) | h <;> (subst h; decide)
  have h3 : sp ≠ "x" := by rcases h with (((h | h) | h) | h) | h <;> (subst h; decide)
  simp [PEnv.get, h1, h2, h3]

/-- operands in identity spaces pass through both maps unchanged -/
theorem idArgs_pass (e : PEnv) (m : IdMaps) (hid : ∀ sp i, idSpace sp = true → m.get sp i = some i) :
    ∀ (args : List Arg), (args.all fun a => match a with | .ref sp _ => idSpace sp | _ => true) = true →
      pMapArgs e args = some args ∧ mapArgs m args = some args
  | [], _ => by simp [pMapArgs, mapArgs]
  | a :: r, h => by
    simp only [List.all_cons, Bool.and_eq_true] at h
    obtain ⟨ih1, ih2⟩ := idArgs_pass e m hid r h.2
    cases a with
    | ref sp i =>
      have hsp : idSpace sp = true := by simpa using h.1
      simp [pMapArgs, mapArgs, penv_get_id e sp i hsp, hid sp i hsp, ih1, ih2]
    | num n => simp [pMapArgs, mapArgs, ih1, ih2]
    | imm t => simp [pMapArgs, mapArgs, ih1, ih2]
    | bt b => simp [pMapArgs, mapArgs, ih1, ih2]

theorem labelsOf_labels (name : String) (ls : List Nat) : labelsOf ⟨name, ls.map (Arg.ref "l")⟩ = ls := by
  induction ls with
  | nil => rfl
  | cons a r ih =>
    simp only [labelsOf, List.map_cons, List.filterMap_cons] at ih ⊢
    rw [ih]

/-- **one surviving operator**: if it has the decoder's shape and the two maps answer for it, what
    `emit ∘ parse` writes for it is the operator renumbered by `renOfMaps` -/
theorem agree_op (e : PEnv) (m : IdMaps) (hid : ∀ sp i, idSpace sp = true → m.get sp i = some i) (o : Op)
    (hs : structuralName o.name = false) (hsh : OpShape o)
    (hsome : (outLeaf e m o 0).isSome = true) : agreeI e m (renOfMaps e m) (.op o) = true := by
  simp only [agreeI, hs, Bool.not_false, Bool.true_and, beq_iff_eq, outLeafOps]
  cases hsh with
  | br n => simp [outLeaf, labelsOf, Ren.op, isLocalOp]
  | brIf n => simp [outLeaf, labelsOf, Ren.op, isLocalOp]
  | brTable ts d =>
    have hlab : labelsOf ⟨"BrTable", ts.map (Arg.ref "l") ++ [.ref "l" d]⟩ = ts ++ [d] := by
      have := labelsOf_labels "BrTable" (ts ++ [d])
      simpa using this
    simp [outLeaf, hlab, Ren.op, isLocalOp]
  | ret => simp [outLeaf, mapArgs, Ren.op, isLocalOp]
  | unreachable => simp [outLeaf, mapArgs, Ren.op, isLocalOp]
  | call name h i =>
    have hout : outLeaf e m ⟨name, [.ref "f" i]⟩ 0 = (outArgs e m [.ref "f" i]).map fun a => [(0, ⟨name, a⟩)] := by
      rcases h with h | h | h <;> (subst h; simp [outLeaf])
    rw [hout] at hsome ⊢
    simp only [outArgs, wrapOffsets, pMapArgs, mapArgs] at hsome ⊢
    cases h1 : e.get "f" i with
    | none => simp [h1] at hsome
    | some id =>
      cases h2 : m.get "f" id with
      | none => simp [mapArgs, h1, h2] at hsome
      | some ix =>
        rcases h with h | h | h <;> (subst h; simp [mapArgs, h1, h2, Ren.op, renOfMaps])
  | callIndirect name h y t =>
    have hout : outLeaf e m ⟨name, [.ref "y" y, .ref "t" t]⟩ 0 =
        (outArgs e m [.ref "y" y, .ref "t" t]).map fun a => [(0, ⟨name, a⟩)] := by
      rcases h with h | h <;> (subst h; simp [outLeaf])
    rw [hout] at hsome ⊢
    have ht1 : e.get "t" t = some t := penv_get_id e "t" t (by decide)
    have ht2 : m.get "t" t = some t := hid "t" t (by decide)
    simp only [outArgs, wrapOffsets, pMapArgs, mapArgs, ht1] at hsome ⊢
    cases h1 : e.get "y" y with
    | none => simp [h1] at hsome
    | some id =>
      cases h2 : m.get "y" id with
      | none => simp [mapArgs, h1, h2] at hsome
      | some ix =>
        rcases h with h | h <;> (subst h; simp [mapArgs, h1, h2, ht2, Ren.op, renOfMaps])
  | local_ name h x =>
    have hout : outLeaf e m ⟨name, [.ref "x" x]⟩ 0 = (outArgs e m [.ref "x" x]).map fun a => [(0, ⟨name, a⟩)] := by
      rcases h with h | h | h <;> (subst h; simp [outLeaf])
    rw [hout] at hsome ⊢
    simp only [outArgs, wrapOffsets, pMapArgs, mapArgs] at hsome ⊢
    cases h1 : e.get "x" x with
    | none => simp [h1] at hsome
    | some id =>
      cases h2 : m.get "x" id with
      | none => simp [mapArgs, h1, h2] at hsome
      | some ix =>
        rcases h with h | h | h <;> (subst h; simp [mapArgs, h1, h2, Ren.op, isLocalOp, renOfMaps])
  | other name args hname hall hw =>
    obtain ⟨n1, n2, n3, n4, n5, n6, n7, n8, n9, n10, n11, n12, n13, n14⟩ := hname
    obtain ⟨hp, hm⟩ := idArgs_pass e m hid args hall
    simp [outLeaf, n1, n2, n3, n4, n5, n6, outArgs, hw, hp, hm, Ren.op, n7, n8, n9, n10, n11, isLocalOp, n12, n13, n14]

theorem blockTy_form (m : IdMaps) (ty : SeqTy) (a : Arg) (h : blockTy m ty = some a) : ∃ b, a = .bt b := by
  cases ty with
  | empty => simp [blockTy] at h; exact ⟨_, h.symm⟩
  | val t => simp [blockTy] at h; exact ⟨_, h.symm⟩
  | multi y =>
    simp only [blockTy, Option.map_eq_some_iff] at h
    obtain ⟨ix, _, rfl⟩ := h
    exact ⟨_, rfl⟩

/-- the block type written for a construct is the one `renOfMaps` gives -/
theorem outBtOf_ren (e : PEnv) (m : IdMaps) (bt : BT) (a : Arg) (h : outBtOf e m bt = some a) :
    outBtOf e m bt = some (.bt ((renOfMaps e m).bt bt)) := by
  unfold outBtOf at h ⊢
  cases hs : seqTyOfBt e bt with
  | none => simp [hs] at h
  | some ty =>
    simp only [hs, Option.bind_some] at h ⊢
    obtain ⟨b, rfl⟩ := blockTy_form m ty a h
    simp [renOfMaps, hs, h]

theorem outBt_agree (e : PEnv) (m : IdMaps) (o : Op) (a : Arg) (h : outBt e m o = some a) :
    (outBtOf e m (Sem.btOf o) == some (.bt ((renOfMaps e m).bt (Sem.btOf o)))) = true := by
  unfold outBt at h
  cases hbt : btOf o with
  | none => simp [hbt] at h
  | some bt =>
    have := btOf_sem o bt hbt
    subst this
    simp only [hbt, Option.bind_some] at h
    have h' : outBtOf e m (Sem.btOf o) = some a := by unfold outBtOf; exact h
    rw [outBtOf_ren e m _ a h']
    simp

-- the operators of a body have the decoder's shape (`nop`s aside, which leave no trace)
mutual
def PI.Shaped : PI → Prop
  | .op o _ => o.name = "Nop" ∨ OpShape o
  | .blk _ _ b _ => b.Shaped
  | .if1 _ _ t _ => t.Shaped
  | .if2 _ _ t _ e _ => t.Shaped ∧ e.Shaped
def PL.Shaped : PL → Prop
  | .nil => True
  | .cons h t => h.Shaped ∧ t.Shaped
end

mutual
theorem agreeSrc_I (e : PEnv) (m : IdMaps) (hid : ∀ sp i, idSpace sp = true → m.get sp i = some i) :
    (i : PI) → i.WF → i.live.Shaped → i.isOp = false → ∀ (ops : List (Nat × Op)) (u : Bool),
    outI e m false i = some (ops, u) → agreeI e m (renOfMaps e m) i.toSem.elide = true
  | .op o loc, _, _, hh, _, _, _ => by simp [PI.isOp] at hh
  | .blk o loc b el, hw, hsh, _, ops, u, ho => by
      obtain ⟨hn, hwb⟩ := hw
      simp only [outI, Bool.false_eq_true, if_false] at ho
      cases h1 : outBt e m o with
      | none => simp [h1] at ho
      | some a =>
        cases h2 : outL e m false b with
        | none => simp [h1, h2] at ho
        | some r =>
          obtain ⟨bo, bu⟩ := r
          have ih := agreeSrc_L e m hid b hwb hsh bo bu h2
          have hbt := outBt_agree e m o a h1
          simp only [PI.toSem]
          split <;> simp [SI.elide, agreeI, hbt, ih]
  | .if1 o loc t el, hw, hsh, _, ops, u, ho => by
      obtain ⟨hn, hwt⟩ := hw
      simp only [outI, Bool.false_eq_true, if_false] at ho
      cases h1 : outBt e m o with
      | none => simp [h1] at ho
      | some a =>
        cases h2 : outL e m false t with
        | none => simp [h1, h2] at ho
        | some r =>
          obtain ⟨bo, bu⟩ := r
          have ih := agreeSrc_L e m hid t hwt hsh bo bu h2
          have hbt := outBt_agree e m o a h1
          simp [PI.toSem, SI.elide, SL.elide, agreeI, agreeL, hbt, ih]
  | .if2 o loc t l2 el endLoc, hw, hsh, _, ops, u, ho => by
      obtain ⟨hn, hwt, hwe⟩ := hw
      simp only [outI, Bool.false_eq_true, if_false] at ho
      cases h1 : outBt e m o with
      | none => simp [h1] at ho
      | some a =>
        cases h2 : outL e m false t with
        | none => simp [h1, h2] at ho
        | some r =>
          obtain ⟨bo, bu⟩ := r
          cases h3 : outL e m false el with
          | none => simp [h1, h2, h3] at ho
          | some r3 =>
            obtain ⟨eo, eu⟩ := r3
            have ih1 := agreeSrc_L e m hid t hwt hsh.1 bo bu h2
            have ih2 := agreeSrc_L e m hid el hwe hsh.2 eo eu h3
            have hbt := outBt_agree e m o a h1
            simp [PI.toSem, SI.elide, agreeI, hbt, ih1, ih2]
theorem agreeSrc_L (e : PEnv) (m : IdMaps) (hid : ∀ sp i, idSpace sp = true → m.get sp i = some i) :
    (l : PL) → l.WF → l.live.Shaped → ∀ (ops : List (Nat × Op)) (u : Bool),
    outL e m false l = some (ops, u) → agreeL e m (renOfMaps e m) l.toSem.elide = true
  | .nil, _, _, _, _, _ => by simp [PL.toSem, SL.elide, agreeL]
  | .cons (.op o loc) t, hw, hsh, ops, u, ho => by
      obtain ⟨hwo, hwt⟩ := hw
      have hso : o.name = "Nop" ∨ OpShape o := by
        simp only [PL.live] at hsh
        split at hsh <;> exact hsh.1
      have hst : transfers o.name = false → t.live.Shaped := by
        intro htr
        simp only [PL.live, htr, Bool.false_eq_true, if_false] at hsh
        exact hsh.2
      simp only [PI.WF] at hwo
      have hsn : structuralName o.name = false := by rw [← isStructural_eq]; exact hwo
      simp only [outL, outI, Bool.false_eq_true, if_false] at ho
      by_cases hn : o.name = "Nop"
      · have hl : outLeaf e m o loc = some [] := by simp [outLeaf, hn]
        have ht : transfers o.name = false := by simp [transfers, hn]
        simp only [hl, ht, Option.map_some] at ho
        simp only [PL.toSem, PI.toSem, SL.elide, hn, if_true]
        cases h2 : outL e m false t with
        | none => simp [h2] at ho
        | some r2 =>
          obtain ⟨o2, u2⟩ := r2
          exact agreeSrc_L e m hid t hwt (hst ht) o2 u2 h2
      · have hshape : OpShape o := hso.resolve_left hn
        cases hl : outLeaf e m o loc with
        | none => simp [hl] at ho
        | some l1 =>
          have hsome : (outLeaf e m o 0).isSome = true := by
            have := outLeaf_loc e m o loc
            rw [hl] at this
            cases h0 : outLeaf e m o 0 with
            | none => simp [outLeafOps, h0] at this
            | some _ => rfl
          have hop := agree_op e m hid o hsn hshape hsome
          by_cases hs : Sem.endsSeq o = true
          · simp [PL.toSem, PI.toSem, SL.elide, hn, hs, agreeL, hop]
          · have hsf : Sem.endsSeq o = false := by simpa using hs
            have hs' : transfers o.name = false := by rw [transfers_endsSeq]; exact hsf
            simp only [hl, Option.map_some, hs'] at ho
            cases h2 : outL e m false t with
            | none => simp [h2] at ho
            | some r2 =>
              obtain ⟨o2, u2⟩ := r2
              have ih := agreeSrc_L e m hid t hwt (hst hs') o2 u2 h2
              simp [PL.toSem, PI.toSem, SL.elide, hn, hsf, agreeL, hop, ih]
  | .cons (.blk o loc b el) t, hw, hsh, ops, u, ho => by
      have hh : (PI.blk o loc b el).isOp = false := rfl
      simp only [outL] at ho
      cases h1 : outI e m false (.blk o loc b el) with
      | none => simp [h1] at ho
      | some r1 =>
        obtain ⟨o1, u1⟩ := r1
        have hu := outI_nonop_flag e m _ hh o1 u1 h1
        subst hu
        simp only [h1] at ho
        cases h2 : outL e m false t with
        | none => simp [h2] at ho
        | some r2 =>
          obtain ⟨o2, u2⟩ := r2
          have ih1 := agreeSrc_I e m hid _ hw.1 hsh.1 hh o1 false h1
          have ih2 := agreeSrc_L e m hid t hw.2 hsh.2 o2 u2 h2
          simp only [PL.toSem, toSem_elide_cons _ hh, agreeL, ih1, ih2, Bool.and_self]
  | .cons (.if1 o loc b el) t, hw, hsh, ops, u, ho => by
      have hh : (PI.if1 o loc b el).isOp = false := rfl
      simp only [outL] at ho
      cases h1 : outI e m false (.if1 o loc b el) with
      | none => simp [h1] at ho
      | some r1 =>
        obtain ⟨o1, u1⟩ := r1
        have hu := outI_nonop_flag e m _ hh o1 u1 h1
        subst hu
        simp only [h1] at ho
        cases h2 : outL e m false t with
        | none => simp [h2] at ho
        | some r2 =>
          obtain ⟨o2, u2⟩ := r2
          have ih1 := agreeSrc_I e m hid _ hw.1 hsh.1 hh o1 false h1
          have ih2 := agreeSrc_L e m hid t hw.2 hsh.2 o2 u2 h2
          simp only [PL.toSem, toSem_elide_cons _ hh, agreeL, ih1, ih2, Bool.and_self]
  | .cons (.if2 o loc b l2 el endLoc) t, hw, hsh, ops, u, ho => by
      have hh : (PI.if2 o loc b l2 el endLoc).isOp = false := rfl
      simp only [outL] at ho
      cases h1 : outI e m false (.if2 o loc b l2 el endLoc) with
      | none => simp [h1] at ho
      | some r1 =>
        obtain ⟨o1, u1⟩ := r1
        have hu := outI_nonop_flag e m _ hh o1 u1 h1
        subst hu
        simp only [h1] at ho
        cases h2 : outL e m false t with
        | none => simp [h2] at ho
        | some r2 =>
          obtain ⟨o2, u2⟩ := r2
          have ih1 := agreeSrc_I e m hid _ hw.1 hsh.1 hh o1 false h1
          have ih2 := agreeSrc_L e m hid t hw.2 hsh.2 o2 u2 h2
          simp only [PL.toSem, toSem_elide_cons _ hh, agreeL, ih1, ih2, Bool.and_self]
end

/-- **the hypothesis of `round_trip_reads_as_ren_elide` always holds for the renumbering the maps
    induce**: for every well-nested body of decoder-shaped operators that `emit ∘ parse` answers
    for, with maps that keep tables, globals, memories and segments where they are -/
theorem emission_maps_agree (e : PEnv) (m : IdMaps) (hid : ∀ sp i, idSpace sp = true → m.get sp i = some i)
    (body : PL) (hw : body.WF) (hsh : body.live.Shaped) (ops : List (Nat × Op)) (u : Bool)
    (ho : outL e m false body = some (ops, u)) :
    agreeL e m (renOfMaps e m) body.toSem.elide = true :=
  agreeSrc_L e m hid body hw hsh ops u ho

/-! ### the decidable form of the shape -/

theorem argIs_ref (sp : String) (a : Arg) (h : argIs sp a = true) : ∃ n, a = .ref sp n := by
  cases a with
  | ref s n => simp only [argIs, beq_iff_eq] at h; subst h; exact ⟨n, rfl⟩
  | num n => simp [argIs] at h
  | imm t => simp [argIs] at h
  | bt b => simp [argIs] at h

theorem all_labels (args : List Arg) (h : args.all (argIs "l") = true) : ∃ ls : List Nat, args = ls.map (Arg.ref "l") := by
  induction args with
  | nil => exact ⟨[], rfl⟩
  | cons a r ih =>
    simp only [List.all_cons, Bool.and_eq_true] at h
    obtain ⟨n, rfl⟩ := argIs_ref "l" a h.1
    obtain ⟨ls, rfl⟩ := ih h.2
    exact ⟨n :: ls, rfl⟩

theorem opShapedB_sound (o : Op) (h : opShapedB o = true) : o.name = "Nop" ∨ OpShape o := by
  obtain ⟨name, args⟩ := o
  unfold opShapedB at h
  simp only at h
  by_cases hn : name = "Nop"
  · exact Or.inl hn
  · right
    simp only [hn, if_false] at h
    by_cases hb : name = "Br" ∨ name = "BrIf"
    · have hb' : (decide (name = "Br") || decide (name = "BrIf")) = true := by rcases hb with h | h <;> simp [h]
      simp only [hb', if_true] at h
      match args, h with
      | [a], h =>
        obtain ⟨n, rfl⟩ := argIs_ref "l" a h
        rcases hb with rfl | rfl
        · exact .br n
        · exact .brIf n
    · have hb' : (decide (name = "Br") || decide (name = "BrIf")) = false := by
        simp only [not_or] at hb; simp [hb.1, hb.2]
      simp only [hb', Bool.false_eq_true, if_false] at h
      by_cases hbt : name = "BrTable"
      · subst hbt
        simp only [if_true, Bool.and_eq_true, Bool.not_eq_true', List.isEmpty_eq_false_iff] at h
        obtain ⟨ls, rfl⟩ := all_labels args h.2
        have hne : ls ≠ [] := by intro h0; subst h0; exact h.1 rfl
        obtain ⟨ts, d, rfl⟩ : ∃ ts d, ls = ts ++ [d] := ⟨ls.dropLast, ls.getLast hne, (List.dropLast_concat_getLast hne).symm⟩
        have := OpShape.brTable ts d
        simpa using this
      · simp only [hbt, if_false] at h
        by_cases hr : name = "Return" ∨ name = "Unreachable"
        · have hr' : (decide (name = "Return") || decide (name = "Unreachable")) = true := by rcases hr with h | h <;> simp [h]
          simp only [hr', if_true, List.isEmpty_iff] at h
          subst h
          rcases hr with rfl | rfl
          · exact .ret
          · exact .unreachable
        · have hr' : (decide (name = "Return") || decide (name = "Unreachable")) = false := by
            simp only [not_or] at hr; simp [hr.1, hr.2]
          simp only [hr', Bool.false_eq_true, if_false] at h
          by_cases hc : name = "Call" ∨ name = "RefFunc" ∨ name = "ReturnCall"
          · have hc' : (decide (name = "Call") || decide (name = "RefFunc") || decide (name = "ReturnCall")) = true := by
              rcases hc with h | h | h <;> simp [h]
            simp only [hc', if_true] at h
            match args, h with
            | [a], h =>
              obtain ⟨n, rfl⟩ := argIs_ref "f" a h
              exact .call name hc n
          · have hc' : (decide (name = "Call") || decide (name = "RefFunc") || decide (name = "ReturnCall")) = false := by
              simp only [not_or] at hc; simp [hc.1, hc.2.1, hc.2.2]
            simp only [hc', Bool.false_eq_true, if_false] at h
            by_cases hci : name = "CallIndirect" ∨ name = "ReturnCallIndirect"
            · have hci' : (decide (name = "CallIndirect") || decide (name = "ReturnCallIndirect")) = true := by
                rcases hci with h | h <;> simp [h]
              simp only [hci', if_true] at h
              match args, h with
              | [a, b], h =>
                simp only [Bool.and_eq_true] at h
                obtain ⟨y, rfl⟩ := argIs_ref "y" a h.1
                obtain ⟨t, rfl⟩ := argIs_ref "t" b h.2
                exact .callIndirect name hci y t
            · have hci' : (decide (name = "CallIndirect") || decide (name = "ReturnCallIndirect")) = false := by
                simp only [not_or] at hci; simp [hci.1, hci.2]
              simp only [hci', Bool.false_eq_true, if_false] at h
              by_cases hl : name = "LocalGet" ∨ name = "LocalSet" ∨ name = "LocalTee"
              · have hl' : (decide (name = "LocalGet") || decide (name = "LocalSet") || decide (name = "LocalTee")) = true := by
                  rcases hl with h | h | h <;> simp [h]
                simp only [hl', if_true] at h
                match args, h with
                | [a], h =>
                  obtain ⟨x, rfl⟩ := argIs_ref "x" a h
                  exact .local_ name hl x
              · have hl' : (decide (name = "LocalGet") || decide (name = "LocalSet") || decide (name = "LocalTee")) = false := by
                  simp only [not_or] at hl; simp [hl.1, hl.2.1, hl.2.2]
                simp only [hl', Bool.false_eq_true, if_false, Bool.and_eq_true, beq_iff_eq] at h
                simp only [not_or] at hb hr hc hci hl
                exact .other name args ⟨hb.1, hb.2, hbt, hr.1, hr.2, hn, hc.1, hc.2.1, hc.2.2, hci.1, hci.2, hl.1, hl.2.1, hl.2.2⟩ h.1 h.2

mutual
theorem shapedB_I : (i : PI) → i.shapedB = true → i.Shaped
  | .op o _, h => opShapedB_sound o (by simpa [PI.shapedB] using h)
  | .blk _ _ b _, h => shapedB_L b (by simpa [PI.shapedB] using h)
  | .if1 _ _ t _, h => shapedB_L t (by simpa [PI.shapedB] using h)
  | .if2 _ _ t _ e _, h => by
      simp only [PI.shapedB, Bool.and_eq_true] at h
      exact ⟨shapedB_L t h.1, shapedB_L e h.2⟩
theorem shapedB_L : (l : PL) → l.shapedB = true → l.Shaped
  | .nil, _ => trivial
  | .cons hd tl, h => by
      simp only [PL.shapedB, Bool.and_eq_true] at h
      exact ⟨shapedB_I hd h.1, shapedB_L tl h.2⟩
end

end Walrus
