import Walrus.Proofs.Module
import Walrus.Props.C19

/-! Type names follow signatures (C13). -/
namespace Walrus

theorem assoc_zipIdx_pos {α : Type} (key : α → Nat) : ∀ (l : List α) (start k j : Nat),
    assoc ((l.zipIdx start).map fun p => (key p.1, p.2)) k = some j →
    start ≤ j ∧ (l[j - start]?).map key = some k
  | [], _, _, _, h => by simp [assoc] at h
  | a :: r, start, k, j, h => by
    simp only [List.zipIdx_cons, List.map_cons, assoc] at h
    split at h
    · rename_i hk
      injection h with h; subst h
      simp [hk]
    · obtain ⟨h1, h2⟩ := assoc_zipIdx_pos key r (start + 1) k j h
      refine ⟨by omega, ?_⟩
      have : j - start = (j - (start + 1)) + 1 := by omega
      rw [this]
      simpa using h2

theorem filter_all_range (l : List (Nat × Sig)) (n : Nat) (h : ∀ p ∈ l, p.1 < n) :
    l.filter (fun p => (List.range n).contains p.1) = l := by
  apply List.filter_eq_self.2
  intro p hp
  simp [h p hp]

theorem emitCode_sigs (c : InCode) (pfs : List ParsedFunc) (oc : OutCode) (h : emitCode c pfs = some oc) :
    oc.sigs = (sortBy (fun a b => sigLe a.2 b.2) ((distinctSigs c.sigs).zipIdx.map fun p => (p.2, p.1))).map (·.2) := by
  unfold emitCode emitCodeWith keepAll at h
  simp only [Option.map_eq_some_iff] at h
  obtain ⟨fs, _, rfl⟩ := h
  simp only
  congr 2
  apply filter_all_range
  intro p hp
  simp only [List.mem_map] at hp
  obtain ⟨q, hq, rfl⟩ := hp
  have := List.mem_zipIdx hq
  simpa using this.2.1

/-- **type names follow signatures**: a name the output gives to type index `j` is a name the
    input gave to a type index `i` with the very same signature (de-duplication merges equal
    signatures; the last name given to any of the merged indices wins) -/
theorem type_names_follow_signatures (m o : ModuleM) (h : roundTripModule m = some o) (no : NamesM)
    (hno : o.names = some no) :
    ∃ n, m.names = some n ∧ ∀ p ∈ no.types, ∃ i sg, (i, p.2) ∈ n.types ∧ m.sigs[i]? = some sg ∧ o.sigs[p.1]? = some sg := by
  unfold roundTripModule at h
  simp only at h
  split at h
  · cases h
  · split at h
    · cases h
    · rename_i pfs hpfs
      split at h
      · cases h
      · rename_i oc hoc
        split at h
        · rename_i im gl ex st el da him hgl hex hst hel hda
          simp only [Option.some.injEq] at h
          subst h
          cases hn : m.names with
          | none => simp [hn] at hno
          | some n =>
            simp only [hn, Option.map_some] at hno
            split at hno
            · cases hno
            · simp only [Option.some.injEq] at hno
              subst hno
              refine ⟨n, rfl, ?_⟩
              intro p hp
              simp only [sortNames, mem_sortBy, List.mem_filterMap] at hp
              obtain ⟨tid, _, hp⟩ := hp
              split at hp
              · rename_i s j hs hj
                injection hp with hp; subst hp
                -- the name was given to an input index whose TypeId is `tid`
                have hmem := lastName_some_mem _ tid s hs
                simp only [List.mem_filterMap] at hmem
                obtain ⟨q, hq, hq2⟩ := hmem
                split at hq2
                · rename_i htid
                  injection hq2 with hq2
                  obtain ⟨i, s'⟩ := q
                  simp only [Prod.mk.injEq] at hq2
                  obtain ⟨_, rfl⟩ := hq2
                  -- the signature at `i`
                  have hi : i < m.sigs.length := by
                    simp only at htid
                    rcases Nat.lt_or_ge i m.sigs.length with h1 | h1
                    · exact h1
                    · simp [dedupIds, h1] at htid
                  obtain ⟨id, hid, hds⟩ := C19.type_index_denotes_its_signature m.sigs i m.sigs[i] (by simp [hi])
                  simp only at htid
                  rw [hid] at htid
                  injection htid with htid; subst htid
                  -- where `tid` is emitted
                  obtain ⟨_, hpos⟩ := assoc_zipIdx_pos (fun q : Nat × Sig => q.1) _ 0 id j hj
                  simp only [Nat.sub_zero, Option.map_eq_some_iff] at hpos
                  obtain ⟨e, he, he1⟩ := hpos
                  have hem : e ∈ sortBy (fun a b => sigLe a.2 b.2) ((distinctSigs m.sigs).zipIdx.map fun p => (p.2, p.1)) :=
                    List.mem_of_getElem? he
                  rw [mem_sortBy, List.mem_map] at hem
                  obtain ⟨r, hr, hre⟩ := hem
                  have hz := List.mem_zipIdx hr
                  obtain ⟨e1, e2⟩ := e
                  simp only [Prod.mk.injEq] at hre
                  obtain ⟨hr2, hr1⟩ := hre
                  simp only at he1
                  subst he1
                  have hsig : e2 = m.sigs[i] := by
                    have h3 := hz.2.2
                    simp only [Nat.sub_zero] at h3
                    rw [← hr1, h3]
                    have : (distinctSigs m.sigs)[r.2]? = some m.sigs[i] := by rw [hr2]; exact hds
                    rw [List.getElem?_eq_some_iff] at this
                    obtain ⟨_, h4⟩ := this
                    exact h4
                  refine ⟨i, m.sigs[i], hq, by simp [hi], ?_⟩
                  rw [emitCode_sigs _ pfs oc hoc, List.getElem?_map, he]
                  simp [hsig]
                · cases hq2
              · cases hp
        · cases h


/-- **local names follow their locals**: a name the output gives to slot `slot` of function `fj` is
    a name the input gave to local `li` of the function `f` that is emitted at `fj`, and `slot` is
    the image of that local under the *same* local map (`OutFunc.localMap`, the one `emit_locals`
    built and the body was emitted with) -/
theorem local_names_follow_their_locals (m o : ModuleM) (h : roundTripModule m = some o) (no : NamesM)
    (hno : o.names = some no) :
    ∃ n pfs oc, m.names = some n ∧
      parseCode ⟨m.sigs, importedCount m "f", m.code.zip m.funcs |>.map fun p => ⟨p.2, p.1.1, p.1.2⟩⟩ = some pfs ∧
      emitCode ⟨m.sigs, importedCount m "f", m.code.zip m.funcs |>.map fun p => ⟨p.2, p.1.1, p.1.2⟩⟩ pfs = some oc ∧
      ∀ q ∈ no.locals, ∀ r ∈ q.2, ∃ (f : OutFunc) (pf : ParsedFunc) (li lid : Nat) (ty : String),
        f ∈ oc.funcs ∧ pfs[f.id - importedCount m "f"]? = some pf ∧
        pf.localTys[li]? = some (lid, ty) ∧
        (li, r.2) ∈ (n.locals.filter (·.1 = f.id)).flatMap (·.2) ∧
        assoc f.localMap lid = some r.1 ∧
        assoc ((List.range (importedCount m "f")).map (fun i => (i, i)) ++
          oc.funcs.zipIdx.map (fun p => (p.1.id, importedCount m "f" + p.2))) f.id = some q.1 := by
  unfold roundTripModule at h
  simp only at h
  split at h
  · cases h
  · split at h
    · cases h
    · rename_i pfs hpfs
      split at h
      · cases h
      · rename_i oc hoc
        split at h
        · rename_i im gl ex st el da him hgl hex hst hel hda
          simp only [Option.some.injEq] at h
          subst h
          cases hn : m.names with
          | none => simp [hn] at hno
          | some n =>
            simp only [hn, Option.map_some] at hno
            split at hno
            · cases hno
            · simp only [Option.some.injEq] at hno
              subst hno
              refine ⟨n, pfs, oc, rfl, hpfs, hoc, ?_⟩
              intro q hq r hr
              simp only [mem_sortBy, List.mem_filterMap] at hq
              obtain ⟨f, hf, hq⟩ := hq
              cases hpf : pfs[f.id - importedCount m "f"]? with
              | none => simp [hpf] at hq
              | some pf =>
                simp only [hpf] at hq
                split at hq
                · cases hq
                · simp only [Option.map_eq_some_iff] at hq
                  obtain ⟨j, hj, rfl⟩ := hq
                  simp only [sortNames, mem_sortBy, List.mem_filterMap] at hr
                  obtain ⟨li, _, hr⟩ := hr
                  split at hr
                  · rename_i lid ty s hlt hs
                    split at hr
                    · simp only [Option.map_eq_some_iff] at hr
                      obtain ⟨slot, hslot, rfl⟩ := hr
                      exact ⟨f, pf, li, lid, ty, hf, hpf, hlt, lastName_some_mem _ li s hs, hslot, hj⟩
                    · cases hr
                  · cases hr
        · cases h

theorem lastName_append (a b : List (Nat × String)) (i : Nat) :
    lastName (a ++ b) i = (lastName b i).or (lastName a i) := by
  unfold lastName
  rw [List.reverse_append, List.find?_append]
  cases h : b.reverse.find? (·.1 = i) <;> simp

end Walrus
