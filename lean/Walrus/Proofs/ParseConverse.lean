import Walrus.Proofs.ParseTree

/-!
The converse of `prun_I`/`prun_L`: when the tree-level description of the parse (`expI`/`expL`)
fails on a well-formed source tree, so does `LocalFunction::parse` on its flattening, whatever
follows.  Hence for a well-nested body "the parse succeeded" *is* "`expL` answers", and the C03/C02
theorems need no hypothesis beyond the shape of the source.
-/
namespace Walrus

theorem prun_none_bind (e : PEnv) (st : PSt) (a b : List (Op × Nat)) (h : prun e st a = none) :
    prun e st (a ++ b) = none := by
  rw [prun_append, h]; rfl

/-- a non-structural operator on which `leafEffect` fails makes `append_instruction` fail -/
theorem pstep_leaf_none (e : PEnv) (pre : List PSeq) (cur : PSeq) (post : List PSeq) (unr : Bool) (kind : BlockKind)
    (ty : SeqTy) (rest : List PFrame) (ie : List IfSt) (o : Op) (loc : Nat)
    (hs : isStructural o.name = false)
    (h : leafEffect e (idsOf pre rest) unr o loc = none) :
    pstep e (mkSt pre cur post unr kind ty rest ie) o loc = none := by
  simp only [isStructural, Bool.or_eq_false_iff, decide_eq_false_iff_not] at hs
  obtain ⟨⟨⟨⟨h1, h2⟩, h3⟩, h4⟩, h5⟩ := hs
  unfold pstep
  simp only [h1, h2, h3, h4, h5, Bool.or_self, Bool.false_eq_true, if_false]
  unfold leafEffect at h
  by_cases hb : o.name = "Br"
  · simp only [hb, if_true] at h ⊢
    split at h
    · rename_i n hl
      simp only [hl, frameSeq_mkSt]
      cases hid : (idsOf pre rest)[n]? with
      | none => simp
      | some b => simp [hid] at h
    · rename_i hl
      cases hlab : labelsOf o with
      | nil => simp
      | cons a r =>
        cases r with
        | nil => exact absurd hlab (hl a)
        | cons b r' => simp
  · by_cases hbi : o.name = "BrIf"
    · simp only [hbi, if_true] at h ⊢
      simp only [show ¬ ("BrIf" = "Br") by decide, if_false] at h ⊢
      split at h
      · rename_i n hl
        simp only [hl, frameSeq_mkSt]
        cases hid : (idsOf pre rest)[n]? with
        | none => simp
        | some b => simp [hid] at h
      · rename_i hl
        cases hlab : labelsOf o with
        | nil => simp
        | cons a r =>
          cases r with
          | nil => exact absurd hlab (hl a)
          | cons b r' => simp
    · by_cases hbt : o.name = "BrTable"
      · simp only [hbt, if_true] at h ⊢
        simp only [show ¬ ("BrTable" = "Br") by decide, show ¬ ("BrTable" = "BrIf") by decide, if_false] at h ⊢
        split at h
        · rename_i d ts hl
          simp only [hl, frameSeq_mkSt, mapM_frameSeq]
          cases hd : (idsOf pre rest)[d]? with
          | none => simp
          | some dd =>
            cases ht : ts.reverse.mapM (fun n => (idsOf pre rest)[n]?) with
            | none => simp
            | some tts => simp [hd, ht] at h
        · rename_i hl
          simp [hl]
      · by_cases hr : o.name = "Return" ∨ o.name = "Unreachable"
        · have hr' : (o.name = "Return" || o.name = "Unreachable") = true := by simpa using hr
          simp [hb, hbi, hbt, hr'] at h
        · have hr' : (o.name = "Return" || o.name = "Unreachable") = false := by simpa using hr
          by_cases hn : o.name = "Nop"
          · simp [hb, hbi, hbt, hr', hn] at h
          · simp only [hb, hbi, hbt, hr', hn, if_false, Bool.false_eq_true] at h ⊢
            cases ha : pMapArgs e (wrapOffsets o.args) with
            | none => simp
            | some a => simp [ha] at h

theorem pstep_block_none (e : PEnv) (st : PSt) (o : Op) (loc : Nat)
    (hn : o.name = "Block" ∨ o.name = "Loop") (hty : (btOf o).bind (seqTyOfBt e) = none) :
    pstep e st o loc = none := by
  have hb : (o.name = "Block" || o.name = "Loop") = true := by simpa using hn
  unfold pstep
  simp [hb, hty]

theorem pstep_if_none (e : PEnv) (st : PSt) (o : Op) (loc : Nat)
    (hn : o.name = "If") (hty : (btOf o).bind (seqTyOfBt e) = none) :
    pstep e st o loc = none := by
  unfold pstep
  simp [hn, hty]

mutual
theorem prunNone_I (e : PEnv) : (i : PI) → i.WF → ∀ (pre : List PSeq) (cur : PSeq) (post : List PSeq) (unr : Bool)
    (kind : BlockKind) (ty : SeqTy) (rest : List PFrame) (ie : List IfSt),
    expI e (idsOf pre rest) (pre.length + 1 + post.length) unr i = none →
    ∀ tail, prun e (mkSt pre cur post unr kind ty rest ie) (i.flat ++ tail) = none
  | .op o loc, hw, pre, cur, post, unr, kind, ty, rest, ie, h, tail => by
      simp only [expI, Option.map_eq_none_iff] at h
      simp only [PI.flat, List.cons_append, List.nil_append, prun_cons]
      rw [pstep_leaf_none e pre cur post unr kind ty rest ie o loc hw h]
      rfl
  | .blk o loc b endLoc, hw, pre, cur, post, unr, kind, ty, rest, ie, h, tail => by
      obtain ⟨hn, hb⟩ := hw
      simp only [expI] at h
      simp only [PI.flat, List.cons_append, prun_cons]
      cases hty : (btOf o).bind (seqTyOfBt e) with
      | none => rw [pstep_block_none e _ o loc hn hty]; rfl
      | some bty =>
        simp only [hty] at h
        cases hx : expL e ((pre.length + 1 + post.length) :: idsOf pre rest) (pre.length + 1 + post.length + 1) false b with
        | some r => obtain ⟨bi, bc, bu⟩ := r; simp [hx] at h
        | none =>
          rw [pstep_block e pre cur post unr kind ty rest ie o loc bty hn hty]
          simp only [Option.bind_some, List.append_assoc]
          exact prunNone_L e b hb
            (pre ++ addInstrs cur (if unr then [] else
                [((if o.name = "Block" then BInstr.block (pre.length + 1 + post.length)
                   else BInstr.loop (pre.length + 1 + post.length)), loc)]) :: post)
            ⟨bty, [], defaultLoc⟩ [] false (if o.name = "Block" then .block else .loop) bty
            (⟨pre.length, unr, kind, ty⟩ :: rest) ie
            (by
              have hl : (pre ++ addInstrs cur (if unr then [] else
                [((if o.name = "Block" then BInstr.block (pre.length + 1 + post.length)
                   else BInstr.loop (pre.length + 1 + post.length)), loc)]) :: post).length = pre.length + 1 + post.length := by
                simp; omega
              simp only [idsOf, hl, List.map_cons, List.length_nil, Nat.add_zero] at hx ⊢
              exact hx) _
  | .if1 o loc t endLoc, hw, pre, cur, post, unr, kind, ty, rest, ie, h, tail => by
      obtain ⟨hn, ht⟩ := hw
      simp only [expI] at h
      simp only [PI.flat, List.cons_append, prun_cons]
      cases hty : (btOf o).bind (seqTyOfBt e) with
      | none => rw [pstep_if_none e _ o loc hn hty]; rfl
      | some bty =>
        simp only [hty] at h
        cases hx : expL e ((pre.length + 1 + post.length) :: idsOf pre rest) (pre.length + 1 + post.length + 1) false t with
        | some r => obtain ⟨ti, tc, tu⟩ := r; simp [hx] at h
        | none =>
          rw [pstep_if e pre cur post unr kind ty rest ie o loc bty hn hty]
          simp only [Option.bind_some, List.append_assoc]
          exact prunNone_L e t ht (pre ++ cur :: post) ⟨bty, [], defaultLoc⟩ [] false .if_ bty
            (⟨pre.length, unr, kind, ty⟩ :: rest) (⟨loc, pre.length + 1 + post.length, none⟩ :: ie)
            (by
              have hl : (pre ++ cur :: post).length = pre.length + 1 + post.length := by simp; omega
              simp only [idsOf, hl, List.map_cons, List.length_nil, Nat.add_zero] at hx ⊢
              exact hx) _
  | .if2 o loc t elseLoc el endLoc, hw, pre, cur, post, unr, kind, ty, rest, ie, h, tail => by
      obtain ⟨hn, ht, hel⟩ := hw
      simp only [expI] at h
      simp only [PI.flat, List.cons_append, prun_cons]
      cases hty : (btOf o).bind (seqTyOfBt e) with
      | none => rw [pstep_if_none e _ o loc hn hty]; rfl
      | some bty =>
        simp only [hty] at h
        rw [pstep_if e pre cur post unr kind ty rest ie o loc bty hn hty]
        simp only [Option.bind_some, List.append_assoc]
        cases hx : expL e ((pre.length + 1 + post.length) :: idsOf pre rest) (pre.length + 1 + post.length + 1) false t with
        | none =>
          exact prunNone_L e t ht (pre ++ cur :: post) ⟨bty, [], defaultLoc⟩ [] false .if_ bty
            (⟨pre.length, unr, kind, ty⟩ :: rest) (⟨loc, pre.length + 1 + post.length, none⟩ :: ie)
            (by
              have hl : (pre ++ cur :: post).length = pre.length + 1 + post.length := by simp; omega
              simp only [idsOf, hl, List.map_cons, List.length_nil, Nat.add_zero] at hx ⊢
              exact hx) _
        | some r =>
          obtain ⟨ti, tc, tu⟩ := r
          simp only [hx] at h
          cases hy : expL e ((pre.length + 1 + post.length + 1 + tc.length) :: idsOf pre rest)
              (pre.length + 1 + post.length + 1 + tc.length + 1) false el with
          | some r2 => obtain ⟨ei, ec, eu⟩ := r2; simp [hy] at h
          | none =>
            rw [prun_append]
            have ih := prun_L e t ht (pre ++ cur :: post) ⟨bty, [], defaultLoc⟩ [] false .if_ bty
              (⟨pre.length, unr, kind, ty⟩ :: rest) (⟨loc, pre.length + 1 + post.length, none⟩ :: ie) ti tc tu
              (by
                have hl : (pre ++ cur :: post).length = pre.length + 1 + post.length := by simp; omega
                simp only [idsOf, hl, List.map_cons, List.length_nil, Nat.add_zero] at hx ⊢
                exact hx)
            rw [ih]
            simp only [Option.bind_some, List.nil_append, List.cons_append, prun_cons]
            rw [pstep_else]
            simp only [Option.bind_some]
            have hl2 : (pre ++ cur :: post ++ { (addInstrs ⟨bty, [], defaultLoc⟩ ti) with fin := elseLoc } :: tc).length =
                pre.length + 1 + post.length + 1 + tc.length := by simp; omega
            have hassoc : el.flat ++ [(opEnd, endLoc)] ++ tail = el.flat ++ ([(opEnd, endLoc)] ++ tail) :=
              List.append_assoc _ _ _
            rw [hassoc]
            exact prunNone_L e el hel
              (pre ++ cur :: post ++ { (addInstrs ⟨bty, [], defaultLoc⟩ ti) with fin := elseLoc } :: tc)
              ⟨bty, [], defaultLoc⟩ [] false .else_ bty
              (⟨pre.length, unr, kind, ty⟩ :: rest)
              (⟨loc, pre.length + 1 + post.length, some ((pre ++ cur :: post).length + 1 + tc.length)⟩ :: ie)
              (by
                simp only [idsOf, hl2, List.map_cons, List.length_nil, Nat.add_zero] at hy ⊢
                exact hy) _
theorem prunNone_L (e : PEnv) : (l : PL) → l.WF → ∀ (pre : List PSeq) (cur : PSeq) (post : List PSeq) (unr : Bool)
    (kind : BlockKind) (ty : SeqTy) (rest : List PFrame) (ie : List IfSt),
    expL e (idsOf pre rest) (pre.length + 1 + post.length) unr l = none →
    ∀ tail, prun e (mkSt pre cur post unr kind ty rest ie) (l.flat ++ tail) = none
  | .nil, _, pre, cur, post, unr, kind, ty, rest, ie, h, tail => by simp [expL] at h
  | .cons hd tl, hw, pre, cur, post, unr, kind, ty, rest, ie, h, tail => by
      obtain ⟨hwh, hwt⟩ := hw
      simp only [expL] at h
      simp only [PL.flat, List.append_assoc]
      cases hx : expI e (idsOf pre rest) (pre.length + 1 + post.length) unr hd with
      | none => exact prunNone_I e hd hwh pre cur post unr kind ty rest ie hx _
      | some r =>
        obtain ⟨i1, c1, u1⟩ := r
        simp only [hx] at h
        cases hy : expL e (idsOf pre rest) (pre.length + 1 + post.length + c1.length) u1 tl with
        | some r2 => obtain ⟨i2, c2, u2⟩ := r2; simp [hy] at h
        | none =>
          rw [prun_append, prun_I e hd hwh pre cur post unr kind ty rest ie i1 c1 u1 hx]
          simp only [Option.bind_some]
          exact prunNone_L e tl hwt pre (addInstrs cur i1) (post ++ c1) u1 kind ty rest ie
            (by simpa [Nat.add_assoc] using hy) _
end

/-- **for a well-formed source tree, the parse succeeds only if its tree-level description
    answers**: the converse of `buildBody_eq` -/
theorem expL_of_buildBody (e : PEnv) (entryTy : Nat) (body : PL) (hw : body.WF) (endLoc : Nat) (seqs : List PSeq)
    (h : buildBody e entryTy (body.flat ++ [(opEnd, endLoc)]) = some seqs) :
    (expL e [0] 1 false body).isSome = true := by
  cases hx : expL e [0] 1 false body with
  | some r => rfl
  | none =>
    exfalso
    unfold buildBody pushControl at h
    simp only [List.length_nil, List.nil_append] at h
    have h0 : (⟨[⟨.multi entryTy, [], defaultLoc⟩], [⟨0, false, .entry, .multi entryTy⟩], []⟩ : PSt) =
        mkSt [] ⟨.multi entryTy, [], defaultLoc⟩ [] false .entry (.multi entryTy) [] [] := rfl
    rw [h0] at h
    have := prunNone_L e body hw [] ⟨.multi entryTy, [], defaultLoc⟩ [] false .entry (.multi entryTy) [] []
      (by simpa [idsOf] using hx) [(opEnd, endLoc)]
    rw [this] at h
    simp at h

end Walrus
