import Walrus.Code

/-!
`emit_locals` (C15, C19, C01): the local map handed out at emission is total on the locals a body
uses, injective, puts parameters at their positions, and sends every other local to a slot whose
declared type is the local's type — for every function, every set of used locals.
-/
namespace Walrus

/-- the used non-parameter locals in the order they are declared: by type rank, ascending inside -/
def emitOrder (args : List Nat) (tyOf : Nat → String) (used : List Nat) : List Nat :=
  let nonArgs := used.filter (fun l => !args.contains l)
  ([0, 1, 2, 3, 4, 5, 6, 7].filterMap fun r =>
    let g := nonArgs.filter (fun l => tyRank (tyOf l) = r)
    match g with
    | [] => none
    | l :: _ => some (tyOf l, g)).flatMap (·.2)

theorem tyRank_le (t : String) : tyRank t ≤ 7 := by
  unfold tyRank
  repeat' split
  all_goals omega

/-- the seven value types walrus knows are told apart by their rank -/
def knownTy (t : String) : Prop := tyRank t < 7

theorem tyRank_inj (a b : String) (ha : knownTy a) (h : tyRank a = tyRank b) : a = b := by
  unfold knownTy at ha
  unfold tyRank at ha h
  repeat' split at h
  all_goals first | omega | simp_all

theorem assoc_append (a b : List (Nat × Nat)) (k : Nat) :
    assoc (a ++ b) k = (assoc a k).or (assoc b k) := by
  induction a with
  | nil => simp [assoc]
  | cons x r ih =>
    obtain ⟨x1, x2⟩ := x
    simp only [List.cons_append, assoc]
    split <;> simp [ih]

theorem assoc_shift : ∀ (l : List Nat) (start k x j : Nat),
    assoc ((l.zipIdx start).map fun p => (p.1, p.2 + k)) x = some j → start + k ≤ j ∧ l[j - k - start]? = some x
  | [], _, _, _, _, h => by simp [assoc] at h
  | a :: r, start, k, x, j, h => by
    simp only [List.zipIdx_cons, List.map_cons, assoc] at h
    split at h
    · rename_i hax
      injection h with h
      subst hax
      refine ⟨by omega, ?_⟩
      have : j - k - start = 0 := by omega
      simp [this]
    · obtain ⟨h1, h2⟩ := assoc_shift r (start + 1) k x j h
      refine ⟨by omega, ?_⟩
      have : j - k - start = (j - k - (start + 1)) + 1 := by omega
      rw [this]
      simpa using h2

theorem assoc_shift_some : ∀ (l : List Nat) (start k x : Nat), x ∈ l →
    ∃ j, assoc ((l.zipIdx start).map fun p => (p.1, p.2 + k)) x = some j
  | [], _, _, _, h => by cases h
  | a :: r, start, k, x, h => by
    simp only [List.zipIdx_cons, List.map_cons, assoc]
    split
    · exact ⟨_, rfl⟩
    · rename_i hax
      have : x ∈ r := by
        rcases List.mem_cons.1 h with h | h
        · exact absurd h.symm hax
        · exact h
      exact assoc_shift_some r (start + 1) k x this

theorem assoc_shift_none : ∀ (l : List Nat) (start k x : Nat), x ∉ l →
    assoc ((l.zipIdx start).map fun p => (p.1, p.2 + k)) x = none
  | [], _, _, _, _ => by simp [assoc]
  | a :: r, start, k, x, h => by
    simp only [List.zipIdx_cons, List.map_cons, assoc]
    have hax : a ≠ x := fun e => h (by simp [e])
    simp only [hax, if_false]
    exact assoc_shift_none r (start + 1) k x (fun hm => h (List.mem_cons_of_mem _ hm))

/-- one declared group: the non-parameter locals of rank `r`, if any, with the type of the first -/
def grp (tyOf : Nat → String) (nonArgs : List Nat) (r : Nat) : Option (String × List Nat) :=
  let g := nonArgs.filter (fun l => tyRank (tyOf l) = r)
  match g with
  | [] => none
  | l :: _ => some (tyOf l, g)

theorem grp_eq (tyOf : Nat → String) (nonArgs : List Nat) (r : Nat) :
    grp tyOf nonArgs r = match nonArgs.filter (fun l => tyRank (tyOf l) = r) with
      | [] => none
      | l :: t => some (tyOf l, l :: t) := by
  unfold grp
  simp only
  split <;> simp_all

theorem grp_some (tyOf : Nat → String) (nonArgs : List Nat) (r : Nat) (g : String × List Nat)
    (h : grp tyOf nonArgs r = some g) :
    g.2 = nonArgs.filter (fun l => tyRank (tyOf l) = r) ∧ g.2 ≠ [] ∧ ∃ l ∈ g.2, g.1 = tyOf l := by
  rw [grp_eq] at h
  cases hf : nonArgs.filter (fun l => tyRank (tyOf l) = r) with
  | nil => simp [hf] at h
  | cons l t =>
    simp only [hf, Option.some.injEq] at h
    subst h
    exact ⟨rfl, by simp, l, by simp, rfl⟩

theorem grp_none (tyOf : Nat → String) (nonArgs : List Nat) (r : Nat) (h : grp tyOf nonArgs r = none) :
    nonArgs.filter (fun l => tyRank (tyOf l) = r) = [] := by
  rw [grp_eq] at h
  cases hf : nonArgs.filter (fun l => tyRank (tyOf l) = r) with
  | nil => rfl
  | cons l t => simp [hf] at h

theorem groups_mem (tyOf : Nat → String) (nonArgs : List Nat) (x : Nat) : ∀ (rs : List Nat),
    x ∈ (rs.filterMap (grp tyOf nonArgs)).flatMap (·.2) ↔ x ∈ nonArgs ∧ tyRank (tyOf x) ∈ rs
  | [] => by simp
  | r :: rs => by
    have ih := groups_mem tyOf nonArgs x rs
    simp only [List.filterMap_cons]
    cases hg : grp tyOf nonArgs r with
    | none =>
      have := grp_none tyOf nonArgs r hg
      simp only [ih, List.mem_cons]
      constructor
      · rintro ⟨h1, h2⟩; exact ⟨h1, Or.inr h2⟩
      · rintro ⟨h1, h2 | h2⟩
        · exfalso
          have hm : x ∈ nonArgs.filter (fun l => tyRank (tyOf l) = r) := by simp [h1, h2]
          rw [this] at hm; cases hm
        · exact ⟨h1, h2⟩
    | some g =>
      obtain ⟨h1, _, _⟩ := grp_some tyOf nonArgs r g hg
      simp only [List.flatMap_cons, List.mem_append, ih, h1, List.mem_filter, decide_eq_true_eq, List.mem_cons]
      constructor
      · rintro (⟨a, b⟩ | ⟨a, b⟩)
        · exact ⟨a, Or.inl b⟩
        · exact ⟨a, Or.inr b⟩
      · rintro ⟨a, b | b⟩
        · exact Or.inl ⟨a, b⟩
        · exact Or.inr ⟨a, b⟩

theorem groups_nodup (tyOf : Nat → String) (nonArgs : List Nat) (hn : nonArgs.Nodup) : ∀ (rs : List Nat), rs.Nodup →
    ((rs.filterMap (grp tyOf nonArgs)).flatMap (·.2)).Nodup
  | [], _ => by simp
  | r :: rs, hr => by
    have hr' := List.nodup_cons.1 hr
    have ih := groups_nodup tyOf nonArgs hn rs hr'.2
    simp only [List.filterMap_cons]
    cases hg : grp tyOf nonArgs r with
    | none => simpa using ih
    | some g =>
      obtain ⟨h1, _, _⟩ := grp_some tyOf nonArgs r g hg
      simp only [List.flatMap_cons]
      rw [List.nodup_append]
      refine ⟨by rw [h1]; exact hn.filter _, ih, ?_⟩
      intro a ha b hb hab
      subst hab
      rw [h1] at ha
      have h2 := (groups_mem tyOf nonArgs a rs).1 hb
      simp only [List.mem_filter, decide_eq_true_eq] at ha
      rw [ha.2] at h2
      exact hr'.1 h2.2

theorem groups_types (tyOf : Nat → String) (nonArgs : List Nat) (hk : ∀ l ∈ nonArgs, knownTy (tyOf l)) : ∀ (rs : List Nat),
    (rs.filterMap (grp tyOf nonArgs)).flatMap (fun g => List.replicate g.2.length g.1) =
      ((rs.filterMap (grp tyOf nonArgs)).flatMap (·.2)).map tyOf
  | [] => by simp
  | r :: rs => by
    have ih := groups_types tyOf nonArgs hk rs
    simp only [List.filterMap_cons]
    cases hg : grp tyOf nonArgs r with
    | none => simpa using ih
    | some g =>
      obtain ⟨h1, _, l, hl, hgl⟩ := grp_some tyOf nonArgs r g hg
      simp only [List.flatMap_cons, List.map_append, ih]
      congr 1
      symm
      rw [List.eq_replicate_iff]
      refine ⟨by simp, ?_⟩
      intro t ht
      simp only [List.mem_map] at ht
      obtain ⟨x, hx, rfl⟩ := ht
      rw [h1] at hx hl
      simp only [List.mem_filter, decide_eq_true_eq] at hx hl
      rw [hgl]
      exact tyRank_inj _ _ (hk x hx.1) (by rw [hx.2, hl.2])

theorem emitOrder_eq (args : List Nat) (tyOf : Nat → String) (used : List Nat) :
    emitOrder args tyOf used =
      ([0, 1, 2, 3, 4, 5, 6, 7].filterMap (grp tyOf (used.filter (fun l => !args.contains l)))).flatMap (·.2) := rfl

/-- the shape of what `emit_locals` returns -/
theorem emitLocals_eq (args : List Nat) (tyOf : Nat → String) (used : List Nat) :
    emitLocals args tyOf used =
      ((([0, 1, 2, 3, 4, 5, 6, 7].filterMap (grp tyOf (used.filter (fun l => !args.contains l)))).map
          (fun g => (g.2.length, g.1))),
       args.zipIdx.map (fun p => (p.1, p.2)) ++
         (emitOrder args tyOf used).zipIdx.map (fun p => (p.1, p.2 + args.length))) := rfl

theorem emitOrder_mem (args : List Nat) (tyOf : Nat → String) (used : List Nat) (x : Nat) :
    x ∈ emitOrder args tyOf used ↔ x ∈ used ∧ x ∉ args := by
  rw [emitOrder_eq, groups_mem]
  have := tyRank_le (tyOf x)
  simp only [List.mem_filter, Bool.not_eq_eq_eq_not, Bool.not_true, List.contains_eq_mem, decide_eq_false_iff_not,
    List.mem_cons, List.not_mem_nil, or_false]
  constructor
  · rintro ⟨h, _⟩; exact h
  · intro h; exact ⟨h, by omega⟩

theorem emitOrder_nodup (args : List Nat) (tyOf : Nat → String) (used : List Nat) (hu : used.Nodup) :
    (emitOrder args tyOf used).Nodup := by
  rw [emitOrder_eq]
  exact groups_nodup tyOf _ (hu.filter _) _ (by decide)

/-- **the declared locals are the types of the used non-parameter locals, in emission order** -/
theorem emitLocals_decls (args : List Nat) (tyOf : Nat → String) (used : List Nat)
    (hk : ∀ l ∈ used, knownTy (tyOf l)) :
    expandLocals (emitLocals args tyOf used).1 = (emitOrder args tyOf used).map tyOf := by
  rw [emitLocals_eq, emitOrder_eq]
  simp only [expandLocals, List.flatMap_map]
  exact groups_types tyOf _ (fun l hl => hk l (List.mem_filter.1 hl).1) _

/-- **every local the body uses, and every parameter, has an index** -/
theorem local_map_total (args : List Nat) (tyOf : Nat → String) (used : List Nat) (l : Nat)
    (h : l ∈ args ∨ l ∈ used) : ∃ i, assoc (emitLocals args tyOf used).2 l = some i := by
  rw [emitLocals_eq]
  simp only [assoc_append]
  by_cases ha : l ∈ args
  · have := assoc_shift_some args 0 0 l ha
    obtain ⟨j, hj⟩ := this
    simp only [Nat.add_zero] at hj
    exact ⟨j, by rw [hj, Option.some_or]⟩
  · have hu : l ∈ used := h.resolve_left ha
    have h1 := assoc_shift_none args 0 0 l ha
    simp only [Nat.add_zero] at h1
    obtain ⟨j, hj⟩ := assoc_shift_some (emitOrder args tyOf used) 0 args.length l ((emitOrder_mem args tyOf used l).2 ⟨hu, ha⟩)
    exact ⟨j, by rw [h1, Option.none_or, hj]⟩

/-- **where an index comes from**: a parameter sits at its position; any other local sits after the
    parameters at its position in the emission order, in a slot declared with its own type -/
theorem local_index_spec (args : List Nat) (tyOf : Nat → String) (used : List Nat)
    (hk : ∀ l ∈ used, knownTy (tyOf l)) (l i : Nat)
    (h : assoc (emitLocals args tyOf used).2 l = some i) :
    (l ∈ args ∧ args[i]? = some l) ∨
    (l ∉ args ∧ l ∈ used ∧ args.length ≤ i ∧ (emitOrder args tyOf used)[i - args.length]? = some l ∧
      (expandLocals (emitLocals args tyOf used).1)[i - args.length]? = some (tyOf l)) := by
  rw [emitLocals_decls args tyOf used hk]
  rw [emitLocals_eq] at h
  simp only [assoc_append] at h
  by_cases ha : l ∈ args
  · left
    obtain ⟨j, hj⟩ := assoc_shift_some args 0 0 l ha
    simp only [Nat.add_zero] at hj
    rw [hj] at h
    simp only [Option.some_or, Option.some.injEq] at h
    subst h
    have := assoc_shift args 0 0 l j (by simpa using hj)
    exact ⟨ha, by simpa using this.2⟩
  · right
    have h1 := assoc_shift_none args 0 0 l ha
    simp only [Nat.add_zero] at h1
    rw [h1] at h
    simp only [Option.none_or] at h
    obtain ⟨h2, h3⟩ := assoc_shift (emitOrder args tyOf used) 0 args.length l i h
    have h3' : (emitOrder args tyOf used)[i - args.length]? = some l := by simpa using h3
    have hm := (emitOrder_mem args tyOf used l).1 (List.mem_of_getElem? h3')
    exact ⟨ha, hm.1, by omega, h3', by simp [h3']⟩

/-- **no two locals share an index** -/
theorem local_map_injective (args : List Nat) (tyOf : Nat → String) (used : List Nat)
    (a b i : Nat)
    (ha : assoc (emitLocals args tyOf used).2 a = some i) (hb : assoc (emitLocals args tyOf used).2 b = some i) :
    a = b := by
  rw [emitLocals_eq] at ha hb
  simp only [assoc_append] at ha hb
  -- which half each index comes from is decided by the index
  have key : ∀ x, ((assoc (args.zipIdx.map fun p => (p.1, p.2)) x).or
      (assoc ((emitOrder args tyOf used).zipIdx.map fun p => (p.1, p.2 + args.length)) x)) = some i →
      (i < args.length ∧ args[i]? = some x) ∨ (args.length ≤ i ∧ (emitOrder args tyOf used)[i - args.length]? = some x) := by
    intro x hx
    cases h1 : assoc (args.zipIdx.map fun p => (p.1, p.2)) x with
    | some j =>
      rw [h1] at hx
      simp only [Option.some_or, Option.some.injEq] at hx
      subst hx
      have := assoc_shift args 0 0 x j (by simpa using h1)
      have h2 : args[j]? = some x := by simpa using this.2
      exact Or.inl ⟨(List.getElem?_eq_some_iff.1 h2).1, h2⟩
    | none =>
      rw [h1] at hx
      simp only [Option.none_or] at hx
      have := assoc_shift (emitOrder args tyOf used) 0 args.length x i hx
      exact Or.inr ⟨by omega, by simpa using this.2⟩
  rcases key a ha with ⟨h1, h2⟩ | ⟨h1, h2⟩ <;> rcases key b hb with ⟨h3, h4⟩ | ⟨h3, h4⟩
  · rw [h2] at h4; exact Option.some.inj h4
  · omega
  · omega
  · rw [h2] at h4; exact Option.some.inj h4

end Walrus
