import Walrus.Body
import Walrus.Proofs.Traverse

/-! The `Emit` visitor folded over the in-order walk = structural flattening of the tree, with the
    location of every emitted operator (C15, C03, C11). -/
namespace Walrus

mutual
/-- structural, recursive flattening of the tree view: every emitted operator together with the
    location recorded for it (the instruction's own location; for `end`/`else` the end location of
    the sequence they close) -/
def flattenI (m : IdMaps) (ctx : List Nat) : TI LSeqTy LInstr → Option (List (Nat × Op))
  | .leaf p => (emitPlain m ctx p.1).map fun op => [(p.2, op)]
  | .one p s ty b =>
    match blockTy m ty.1, flattenL m (s :: ctx) b with
    | some bt, some body =>
      (match p.1 with
       | .block _ => some ([(p.2, ⟨"Block", [bt]⟩)] ++ body ++ [(ty.2, ⟨"End", []⟩)])
       | .loop _ => some ([(p.2, ⟨"Loop", [bt]⟩)] ++ body ++ [(ty.2, ⟨"End", []⟩)])
       | _ => none)
    | _, _ => none
  | .two p c cty tc a aty ta =>
    match blockTy m cty.1, flattenL m (c :: ctx) tc, flattenL m (a :: ctx) ta with
    | some bt, some x, some y =>
      (match p.1 with
       | .ifElse _ _ => some ([(p.2, ⟨"If", [bt]⟩)] ++ x ++ [(cty.2, ⟨"Else", []⟩)] ++ y ++ [(aty.2, ⟨"End", []⟩)])
       | _ => none)
    | _, _, _ => none
def flattenL (m : IdMaps) (ctx : List Nat) : TL LSeqTy LInstr → Option (List (Nat × Op))
  | .nil => some []
  | .cons h t =>
    match flattenI m ctx h, flattenL m ctx t with
    | some a, some b => some (a ++ b)
    | _, _ => none
end

/-- the (location, position) pairs of a run of located operators starting at position `base` -/
def marksOf (base : Nat) : List (Nat × Op) → List (Nat × Nat)
  | [] => []
  | (l, _) :: r => (l, base) :: marksOf (base + 1) r

theorem marksOf_append (b : Nat) (x y : List (Nat × Op)) :
    marksOf b (x ++ y) = marksOf b x ++ marksOf (b + x.length) y := by
  induction x generalizing b with
  | nil => simp [marksOf]
  | cons h t ih =>
    obtain ⟨l, o⟩ := h
    simp only [List.cons_append, marksOf, ih, List.length_cons]
    have : b + 1 + t.length = b + (t.length + 1) := by omega
    rw [this]

/-- state after emitting the located operators `ops` -/
def EmitSt.extend (st : EmitSt) (ops : List (Nat × Op)) : EmitSt :=
  { st with out := st.out ++ ops.map (·.2), marks := st.marks ++ marksOf st.out.length ops }

theorem extend_extend (st : EmitSt) (a b : List (Nat × Op)) :
    (st.extend a).extend b = st.extend (a ++ b) := by
  simp [EmitSt.extend, marksOf_append, List.append_assoc]

theorem extend_nil (st : EmitSt) : st.extend [] = st := by
  simp [EmitSt.extend, marksOf]

theorem emitFold_append (m : IdMaps) (st : EmitSt) (a b : List EEv) :
    emitFold m st (a ++ b) = (emitFold m st a).bind (emitFold m · b) := by
  induction a generalizing st with
  | nil => simp [emitFold]
  | cons e r ih =>
    simp only [List.cons_append, emitFold]
    cases emitStep m st e <;> simp [ih]

theorem emitStep_plain (m : IdMaps) (st : EmitSt) (i : BInstr) (loc : Nat) (op : Op)
    (h : emitPlain m st.blocks i = some op) :
    emitStep m st (.instr i loc) = some (st.extend [(loc, op)]) := by
  cases i with
  | block s => simp [emitPlain] at h
  | loop s => simp [emitPlain] at h
  | ifElse c a => simp [emitPlain] at h
  | br s => simp [emitStep, h, EmitSt.extend, marksOf]
  | brIf s => simp [emitStep, h, EmitSt.extend, marksOf]
  | brTable ts d => simp [emitStep, h, EmitSt.extend, marksOf]
  | leaf o => simp [emitStep, h, EmitSt.extend, marksOf]

mutual
theorem emit_I (m : IdMaps) : (i : TI LSeqTy LInstr) → ∀ (st : EmitSt) ops, flattenI m st.blocks i = some ops →
    emitFold m st (evInstr i.toInstr.payload ++ walkKids evStart evInstr evEnd i) = some (st.extend ops)
  | .leaf p, st, ops, h => by
      simp only [flattenI, Option.map_eq_some_iff] at h
      obtain ⟨op, hop, rfl⟩ := h
      simp [walkKids, evInstr, TI.toInstr, emitFold, emitStep_plain m st p.1 p.2 op hop]
  | .one p s ty b, st, ops, h => by
      obtain ⟨ctx, kinds, out, marks⟩ := st
      simp only [flattenI] at h
      cases hbt : blockTy m ty.1 with
      | none => simp [hbt] at h
      | some bt =>
        cases hb : flattenL m (s :: ctx) b with
        | none => simp [hbt, hb] at h
        | some body =>
          simp only [hbt, hb] at h
          obtain ⟨pi, ploc⟩ := p
          cases pi with
          | block s' =>
            simp only [Option.some.injEq] at h; subst h
            have ih := emit_L m b ⟨s :: ctx, .block :: kinds, out ++ [⟨"Block", [bt]⟩], marks ++ [(ploc, out.length)]⟩ body hb
            simp only [walkKids, evInstr, evStart, evEnd, TI.toInstr, List.singleton_append, List.cons_append,
              List.nil_append, emitFold, emitStep, Option.bind_some, hbt, Option.map_some]
            rw [emitFold_append, ih]
            simp [emitFold, emitStep, EmitSt.extend, marksOf, marksOf_append, List.append_assoc, Nat.add_assoc, Nat.add_comm 1]
          | loop s' =>
            simp only [Option.some.injEq] at h; subst h
            have ih := emit_L m b ⟨s :: ctx, .loop :: kinds, out ++ [⟨"Loop", [bt]⟩], marks ++ [(ploc, out.length)]⟩ body hb
            simp only [walkKids, evInstr, evStart, evEnd, TI.toInstr, List.singleton_append, List.cons_append,
              List.nil_append, emitFold, emitStep, Option.bind_some, hbt, Option.map_some]
            rw [emitFold_append, ih]
            simp [emitFold, emitStep, EmitSt.extend, marksOf, marksOf_append, List.append_assoc, Nat.add_assoc, Nat.add_comm 1]
          | ifElse _ _ => simp at h
          | br _ => simp at h
          | brIf _ => simp at h
          | brTable _ _ => simp at h
          | leaf _ => simp at h
  | .two p c cty tc a aty ta, st, ops, h => by
      obtain ⟨ctx, kinds, out, marks⟩ := st
      simp only [flattenI] at h
      cases hbt : blockTy m cty.1 with
      | none => simp [hbt] at h
      | some bt =>
        cases hx : flattenL m (c :: ctx) tc with
        | none => simp [hbt, hx] at h
        | some x =>
          cases hy : flattenL m (a :: ctx) ta with
          | none => simp [hbt, hx, hy] at h
          | some y =>
            simp only [hbt, hx, hy] at h
            obtain ⟨pi, ploc⟩ := p
            cases pi with
            | ifElse c' a' =>
              simp only [Option.some.injEq] at h; subst h
              have ih1 := emit_L m tc ⟨c :: ctx, .if_ :: kinds, out ++ [⟨"If", [bt]⟩], marks ++ [(ploc, out.length)]⟩ x hx
              simp only [walkKids, evInstr, evStart, evEnd, TI.toInstr, List.singleton_append, List.cons_append,
                List.nil_append, emitFold, emitStep, Option.bind_some, hbt, Option.map_some, List.append_assoc]
              rw [emitFold_append, ih1]
              simp only [Option.bind_some, List.cons_append, List.nil_append, emitFold, emitStep, EmitSt.extend]
              have ih2 := emit_L m ta
                (EmitSt.mk (a :: ctx) (.else_ :: kinds)
                  (out ++ [Op.mk "If" [bt]] ++ x.map (·.2) ++ [Op.mk "Else" []])
                  (marks ++ [(ploc, out.length)] ++ marksOf (out ++ [Op.mk "If" [bt]]).length x ++
                    [(cty.2, (out ++ [Op.mk "If" [bt]] ++ x.map (·.2)).length)])) y hy
              rw [emitFold_append, ih2]
              simp [emitFold, emitStep, EmitSt.extend, marksOf, marksOf_append, List.append_assoc, Nat.add_assoc, Nat.add_comm 1]
              omega
            | block _ => simp at h
            | loop _ => simp at h
            | br _ => simp at h
            | brIf _ => simp at h
            | brTable _ _ => simp at h
            | leaf _ => simp at h
theorem emit_L (m : IdMaps) : (t : TL LSeqTy LInstr) → ∀ (st : EmitSt) ops, flattenL m st.blocks t = some ops →
    emitFold m st (walkL evStart evInstr evEnd t) = some (st.extend ops)
  | .nil, st, ops, h => by
      simp only [flattenL, Option.some.injEq] at h; subst h
      simp [walkL, emitFold, extend_nil]
  | .cons hd tl, st, ops, h => by
      simp only [flattenL] at h
      cases ha : flattenI m st.blocks hd with
      | none => simp [ha] at h
      | some a =>
        cases hb : flattenL m st.blocks tl with
        | none => simp [ha, hb] at h
        | some b =>
          simp only [ha, hb, Option.some.injEq] at h; subst h
          have i1 := emit_I m hd st a ha
          have i2 := emit_L m tl (st.extend a) b (by simpa [EmitSt.extend] using hb)
          simp only [walkL]
          rw [emitFold_append, i1]
          simp [i2, extend_extend]
end

/-- emission with an explicit fuel for the traversal: operators and the raw location map -/
def emitBodyFuel (m : IdMaps) (ar : BArena) (fuel entry : Nat) : Option (List Op × List (Nat × Nat)) :=
  let r := bodyEvents ar fuel entry
  if !r.1.isEmpty then none else
  (emitFold m ⟨[], [.entry], [], []⟩ r.2).map fun st => (st.out, st.marks)

theorem emitBodyMarks_eq_fuel (m : IdMaps) (ar : BArena) (entry : Nat) :
    emitBodyMarks m ar entry = emitBodyFuel m ar (arenaFuel ar) entry := rfl

/-- **the emitted body is the in-order flattening of the tree**, and the location map pairs every
    emitted operator, in order, with its position -/
theorem emitBody_eq_flatten (m : IdMaps) (ar : BArena) (entry : Nat) (ty : LSeqTy) (t : TL LSeqTy LInstr)
    (he : ar.get? entry = some (ty, t.toList)) (hv : ViewL ar t) (ops : List (Nat × Op))
    (hf : flattenL m [entry] t = some ops) :
    ∃ n, ∀ fuel, n ≤ fuel → emitBodyFuel m ar fuel entry =
      some ((ops ++ [(ty.2, Op.mk "End" [])]).map (·.2), marksOf 0 (ops ++ [(ty.2, Op.mk "End" [])])) := by
  obtain ⟨n, hn⟩ := dfsInOrder_eq_walk evStart evInstr evEnd ar entry ty t he hv
  refine ⟨n, fun fuel hfuel => ?_⟩
  have := hn fuel hfuel
  unfold emitBodyFuel bodyEvents
  rw [this]
  simp only [List.isEmpty_nil, Bool.not_true, Bool.false_eq_true, if_false, walkSeq, evStart, evEnd]
  rw [List.append_assoc, emitFold_append]
  simp only [emitFold, emitStep, Option.bind_some]
  rw [emitFold_append, emit_L m t ⟨[entry], [.entry], [], []⟩ ops hf]
  simp [emitFold, emitStep, EmitSt.extend, marksOf_append, marksOf]

end Walrus
