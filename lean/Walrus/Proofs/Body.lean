import Walrus.Body
import Walrus.Proofs.Traverse

/-! The `Emit` visitor folded over the in-order walk = structural flattening of the tree (C15, C03). -/
namespace Walrus

/-- what one non-structured instruction emits, given the enclosing sequences (innermost first) -/
def leafOps (m : IdMaps) (ctx : List Nat) : BInstr → Option (List Op)
  | .br s => (branchTarget ctx s).map fun d => [⟨"Br", [.ref "l" d]⟩]
  | .brIf s => (branchTarget ctx s).map fun d => [⟨"BrIf", [.ref "l" d]⟩]
  | .brTable ts d =>
    match branchTarget ctx d, ts.mapM (branchTarget ctx) with
    | some dd, some tts => some [⟨"BrTable", tts.map (Arg.ref "l") ++ [.ref "l" dd]⟩]
    | _, _ => none
  | .leaf op => (mapArgs m op.args).map fun a => [⟨op.name, a⟩]
  | _ => none

mutual
/-- structural, recursive flattening of the tree view: the declarative meaning of "the in-order
    flattening of the built tree" -/
def flattenI (m : IdMaps) (ctx : List Nat) : TI SeqTy BInstr → Option (List Op)
  | .leaf p => leafOps m ctx p
  | .one p s ty b =>
    match blockTy m ty, flattenL m (s :: ctx) b with
    | some bt, some body =>
      (match p with
       | .block _ => some ([⟨"Block", [bt]⟩] ++ body ++ [⟨"End", []⟩])
       | .loop _ => some ([⟨"Loop", [bt]⟩] ++ body ++ [⟨"End", []⟩])
       | _ => none)
    | _, _ => none
  | .two p c cty tc a _aty ta =>
    match blockTy m cty, flattenL m (c :: ctx) tc, flattenL m (a :: ctx) ta with
    | some bt, some x, some y =>
      (match p with
       | .ifElse _ _ => some ([⟨"If", [bt]⟩] ++ x ++ [⟨"Else", []⟩] ++ y ++ [⟨"End", []⟩])
       | _ => none)
    | _, _, _ => none
def flattenL (m : IdMaps) (ctx : List Nat) : TL SeqTy BInstr → Option (List Op)
  | .nil => some []
  | .cons h t =>
    match flattenI m ctx h, flattenL m ctx t with
    | some a, some b => some (a ++ b)
    | _, _ => none
end

theorem emitFold_append (m : IdMaps) (st : EmitSt) (a b : List EEv) :
    emitFold m st (a ++ b) = (emitFold m st a).bind (emitFold m · b) := by
  induction a generalizing st with
  | nil => simp [emitFold]
  | cons e r ih =>
    simp only [List.cons_append, emitFold]
    cases emitStep m st e <;> simp [ih]

theorem emitStep_leaf (m : IdMaps) (ctx : List Nat) (kinds : List BlockKind) (out : List Op) (p : BInstr)
    (ops : List Op) (h : leafOps m ctx p = some ops) :
    emitStep m ⟨ctx, kinds, out⟩ (.instr p) = some ⟨ctx, kinds, out ++ ops⟩ := by
  cases p with
  | br s =>
    simp only [leafOps, Option.map_eq_some_iff] at h
    obtain ⟨d, hd, rfl⟩ := h
    simp [emitStep, hd]
  | brIf s =>
    simp only [leafOps, Option.map_eq_some_iff] at h
    obtain ⟨d, hd, rfl⟩ := h
    simp [emitStep, hd]
  | brTable ts d =>
    simp only [leafOps] at h
    cases hd : branchTarget ctx d with
    | none => simp [hd] at h
    | some dd =>
      cases ht : ts.mapM (branchTarget ctx) with
      | none => simp [hd, ht] at h
      | some tts =>
        simp only [hd, ht, Option.some.injEq] at h
        subst h
        simp [emitStep, hd, ht]
  | leaf op =>
    simp only [leafOps, Option.map_eq_some_iff] at h
    obtain ⟨a, ha, rfl⟩ := h
    simp [emitStep, ha]
  | block s => simp [leafOps] at h
  | loop s => simp [leafOps] at h
  | ifElse c a => simp [leafOps] at h

mutual
theorem emit_I (m : IdMaps) : (i : TI SeqTy BInstr) → ∀ ctx kinds out ops, flattenI m ctx i = some ops →
    emitFold m ⟨ctx, kinds, out⟩ (evInstr i.toInstr.payload ++ walkKids evStart evInstr evEnd i)
      = some ⟨ctx, kinds, out ++ ops⟩
  | .leaf p, ctx, kinds, out, ops, h => by
      simp only [flattenI] at h
      simp [walkKids, evInstr, TI.toInstr, emitFold, emitStep_leaf m ctx kinds out p ops h]
  | .one p s ty b, ctx, kinds, out, ops, h => by
      simp only [flattenI] at h
      cases hbt : blockTy m ty with
      | none => simp [hbt] at h
      | some bt =>
        cases hb : flattenL m (s :: ctx) b with
        | none => simp [hbt, hb] at h
        | some body =>
          simp only [hbt, hb] at h
          cases p with
          | block s' =>
            simp only [Option.some.injEq] at h; subst h
            have ih := emit_L m b (s :: ctx) (.block :: kinds) (out ++ [⟨"Block", [bt]⟩]) body hb
            simp only [walkKids, evInstr, evStart, evEnd, TI.toInstr, List.singleton_append, List.cons_append,
              List.nil_append, emitFold, emitStep, Option.bind_some, hbt, Option.map_some]
            rw [emitFold_append, ih]
            simp [emitFold, emitStep, List.append_assoc]
          | loop s' =>
            simp only [Option.some.injEq] at h; subst h
            have ih := emit_L m b (s :: ctx) (.loop :: kinds) (out ++ [⟨"Loop", [bt]⟩]) body hb
            simp only [walkKids, evInstr, evStart, evEnd, TI.toInstr, List.singleton_append, List.cons_append,
              List.nil_append, emitFold, emitStep, Option.bind_some, hbt, Option.map_some]
            rw [emitFold_append, ih]
            simp [emitFold, emitStep, List.append_assoc]
          | ifElse _ _ => simp at h
          | br _ => simp at h
          | brIf _ => simp at h
          | brTable _ _ => simp at h
          | leaf _ => simp at h
  | .two p c cty tc a aty ta, ctx, kinds, out, ops, h => by
      simp only [flattenI] at h
      cases hbt : blockTy m cty with
      | none => simp [hbt] at h
      | some bt =>
        cases hx : flattenL m (c :: ctx) tc with
        | none => simp [hbt, hx] at h
        | some x =>
          cases hy : flattenL m (a :: ctx) ta with
          | none => simp [hbt, hx, hy] at h
          | some y =>
            simp only [hbt, hx, hy] at h
            cases p with
            | ifElse c' a' =>
              simp only [Option.some.injEq] at h; subst h
              have ih1 := emit_L m tc (c :: ctx) (.if_ :: kinds) (out ++ [⟨"If", [bt]⟩]) x hx
              have ih2 := emit_L m ta (a :: ctx) (.else_ :: kinds) (out ++ [⟨"If", [bt]⟩] ++ x ++ [⟨"Else", []⟩]) y hy
              simp only [walkKids, evInstr, evStart, evEnd, TI.toInstr, List.singleton_append, List.cons_append,
                List.nil_append, emitFold, emitStep, Option.bind_some, hbt, Option.map_some, List.append_assoc]
              rw [emitFold_append, ih1]
              simp only [Option.bind_some, List.cons_append, List.nil_append, emitFold, emitStep]
              rw [emitFold_append, ih2]
              simp [emitFold, emitStep, List.append_assoc]
            | block _ => simp at h
            | loop _ => simp at h
            | br _ => simp at h
            | brIf _ => simp at h
            | brTable _ _ => simp at h
            | leaf _ => simp at h
theorem emit_L (m : IdMaps) : (t : TL SeqTy BInstr) → ∀ ctx kinds out ops, flattenL m ctx t = some ops →
    emitFold m ⟨ctx, kinds, out⟩ (walkL evStart evInstr evEnd t) = some ⟨ctx, kinds, out ++ ops⟩
  | .nil, ctx, kinds, out, ops, h => by
      simp only [flattenL, Option.some.injEq] at h; subst h
      simp [walkL, emitFold]
  | .cons hd tl, ctx, kinds, out, ops, h => by
      simp only [flattenL] at h
      cases ha : flattenI m ctx hd with
      | none => simp [ha] at h
      | some a =>
        cases hb : flattenL m ctx tl with
        | none => simp [ha, hb] at h
        | some b =>
          simp only [ha, hb, Option.some.injEq] at h; subst h
          have i1 := emit_I m hd ctx kinds out a ha
          have i2 := emit_L m tl ctx kinds (out ++ a) b hb
          simp only [walkL]
          rw [← List.append_assoc, emitFold_append, i1]
          simp [i2, List.append_assoc]
end

/-- emission with an explicit fuel for the traversal -/
def emitBodyFuel (m : IdMaps) (ar : BArena) (fuel entry : Nat) : Option (List Op) :=
  let r := bodyEvents ar fuel entry
  if !r.1.isEmpty then none else
  (emitFold m ⟨[], [.entry], []⟩ r.2).map (·.out)

theorem emitBody_eq_fuel (m : IdMaps) (ar : BArena) (entry : Nat) :
    emitBody m ar entry = emitBodyFuel m ar (arenaFuel ar) entry := rfl

/-- **the emitted body is the in-order flattening of the tree** -/
theorem emitBody_eq_flatten (m : IdMaps) (ar : BArena) (entry : Nat) (ty : SeqTy) (t : TL SeqTy BInstr)
    (he : ar.get? entry = some (ty, t.toList)) (hv : ViewL ar t) (ops : List Op)
    (hf : flattenL m [entry] t = some ops) :
    ∃ n, ∀ fuel, n ≤ fuel → emitBodyFuel m ar fuel entry = some (ops ++ [⟨"End", []⟩]) := by
  obtain ⟨n, hn⟩ := dfsInOrder_eq_walk evStart evInstr evEnd ar entry ty t he hv
  refine ⟨n, fun fuel hfuel => ?_⟩
  have := hn fuel hfuel
  unfold emitBodyFuel bodyEvents
  rw [this]
  simp only [List.isEmpty_nil, Bool.not_true, Bool.false_eq_true, if_false, walkSeq, evStart, evEnd]
  rw [List.append_assoc, emitFold_append]
  simp only [emitFold, emitStep, Option.bind_some]
  rw [emitFold_append, emit_L m t [entry] [.entry] [] ops hf]
  simp [emitFold, emitStep]

end Walrus
