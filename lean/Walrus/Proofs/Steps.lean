import Walrus.Proofs.Traverse

/-!
The in-order traversal with an explicit iteration count: `dfs_in_order` over a tree view takes one
loop iteration per instruction and one per sequence (`costL t + 1` for the sequence holding `t`),
so the fuel the model hands to the traversal is a bound, not a guess, whenever it is at least that.
-/
namespace Walrus

section
variable {σ ι ε : Type}

mutual
/-- loop iterations spent in the sequences nested under one instruction -/
def costI : TI σ ι → Nat
  | .leaf _ => 0
  | .one _ _ _ b => costL b + 1
  | .two _ _ _ tc _ _ ta => (costL tc + 1) + (costL ta + 1)
/-- loop iterations spent on an instruction list, the closing iteration of its sequence aside -/
def costL : TL σ ι → Nat
  | .nil => 0
  | .cons h t => 1 + costI h + costL t
end

variable (evS : Nat → σ → List ε) (evI : ι → List ε) (evE : Nat → σ → List ε)

mutual
theorem simN_I (ar : TArena σ ι) : (i : TI σ ι) → ViewI ar i → ∀ rest out,
    inOrderRun evS evI evE ar (costI i) (pushKids i rest, out) = (rest, out ++ walkKids evS evI evE i)
  | .leaf _, _, rest, out => by simp [inOrderRun, pushKids, walkKids, costI]
  | .one p s sp b, hv, rest, out => by
      cases hv with
      | one _ _ _ _ hc hb =>
        have hn := simN_L ar b hb s sp 0 rest out (suffix_zero hc)
        simp [pushKids, walkKids, costI, hn, pre']
  | .two p c cp tc a ap ta, hv, rest, out => by
      cases hv with
      | two _ _ _ _ _ _ _ hc ha hvc hva =>
        have h1 := simN_L ar tc hvc c cp 0 ((a, 0) :: rest) out (suffix_zero hc)
        have h2 := simN_L ar ta hva a ap 0 rest
          (pre' evS c cp 0 out ++ walkL evS evI evE tc ++ evE c cp) (suffix_zero ha)
        simp only [pushKids, costI, inOrderRun_add, h1, h2]
        simp [walkKids, pre']
theorem simN_L (ar : TArena σ ι) : (t : TL σ ι) → ViewL ar t → ∀ s sp k rest out, Suffix ar s k sp t →
    inOrderRun evS evI evE ar (costL t + 1) ((s, k) :: rest, out) =
      (rest, pre' evS s sp k out ++ walkL evS evI evE t ++ evE s sp)
  | .nil, _, s, sp, k, rest, out, hs => by simp [inOrderRun, step_nil evS evI evE hs, walkL, costL]
  | .cons h t, hv, s, sp, k, rest, out, hs => by
      cases hv with
      | cons _ _ hh ht =>
        have h1 := simN_I ar h hh ((s, k+1) :: rest) (pre' evS s sp k out ++ evI h.toInstr.payload)
        have h2 := simN_L ar t ht s sp (k+1) rest
          (pre' evS s sp k out ++ evI h.toInstr.payload ++ walkKids evS evI evE h) (suffix_next hs)
        have hc : costL (.cons h t) + 1 = 1 + (costI h + (costL t + 1)) := by simp [costL]; omega
        have h0 : ∀ st, inOrderRun evS evI evE ar 1 st = inOrderStep evS evI evE ar st := fun _ => rfl
        rw [hc, inOrderRun_add, h0, step_cons evS evI evE hs, inOrderRun_add, h1, h2]
        simp [pre', walkL]
end

/-- **in-order traversal = recursive walk, in `costL t + 1` iterations** -/
theorem dfsInOrder_eq_walk_steps (ar : TArena σ ι) (entry : Nat) (sp : σ) (t : TL σ ι)
    (he : ar.get? entry = some (sp, t.toList)) (hv : ViewL ar t) (fuel : Nat) (hf : costL t + 1 ≤ fuel) :
    dfsInOrder evS evI evE ar fuel entry = ([], walkSeq evS evI evE entry sp t) := by
  have hn := simN_L evS evI evE ar t hv entry sp 0 [] [] (suffix_zero he)
  obtain ⟨d, rfl⟩ := Nat.exists_eq_add_of_le hf
  unfold dfsInOrder
  rw [inOrderRun_add, hn, inOrderRun_done]
  simp [pre', walkSeq]

end
end Walrus
