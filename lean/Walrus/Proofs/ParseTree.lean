import Walrus.Parse

/-!
Parse side of the structural refinement (C03, C01): the explicit control stack of
`LocalFunction::parse` (`pstep`/`prun`, Walrus/Parse.lean), run on the flat operator stream of any
well-nested body, produces exactly the arena that a *deterministic, recursive* description
(`expI`/`expL`) computes from the source tree: which instructions are appended to the current
sequence, which sequences are created (in allocation order, with their final content and end
location), and whether the frame ends unreachable.  Elision of `nop`s and of everything after an
unconditional transfer, the ids burnt by constructs in dead code, and label → sequence-id
resolution are all in `expI`/`expL`.
-/
namespace Walrus

-- source trees with locations
mutual
inductive PI where
  | op (o : Op) (loc : Nat)
  | blk (o : Op) (loc : Nat) (b : PL) (endLoc : Nat)                 -- `block` or `loop`, by `o.name`
  | if1 (o : Op) (loc : Nat) (t : PL) (endLoc : Nat)                  -- `if … end`
  | if2 (o : Op) (loc : Nat) (t : PL) (elseLoc : Nat) (e : PL) (endLoc : Nat)
inductive PL where
  | nil
  | cons (h : PI) (t : PL)
end

def opEnd : Op := ⟨"End", []⟩
def opElse : Op := ⟨"Else", []⟩

mutual
def PI.flat : PI → List (Op × Nat)
  | .op o loc => [(o, loc)]
  | .blk o loc b endLoc => (o, loc) :: (b.flat ++ [(opEnd, endLoc)])
  | .if1 o loc t endLoc => (o, loc) :: (t.flat ++ [(opEnd, endLoc)])
  | .if2 o loc t elseLoc e endLoc => (o, loc) :: (t.flat ++ (opElse, elseLoc) :: (e.flat ++ [(opEnd, endLoc)]))
def PL.flat : PL → List (Op × Nat)
  | .nil => []
  | .cons h t => h.flat ++ t.flat
end

def isStructural (n : String) : Bool :=
  n = "Block" || n = "Loop" || n = "If" || n = "Else" || n = "End"

-- operator names are what the constructors say
mutual
def PI.WF : PI → Prop
  | .op o _ => isStructural o.name = false
  | .blk o _ b _ => (o.name = "Block" ∨ o.name = "Loop") ∧ b.WF
  | .if1 o _ t _ => o.name = "If" ∧ t.WF
  | .if2 o _ t _ e _ => o.name = "If" ∧ t.WF ∧ e.WF
def PL.WF : PL → Prop
  | .nil => True
  | .cons h t => h.WF ∧ t.WF
end

/-- what the decoder guarantees about one operator and the model does not check: `return` and
    `unreachable` carry no immediates, only the three branch operators carry labels, and an operand
    names one of the nine index spaces -/
def entSpaces : List String := ["f", "t", "g", "m", "y", "x", "d", "e", "l"]

def opClean (o : Op) : Prop :=
  ((o.name = "Return" ∨ o.name = "Unreachable") → o.args = []) ∧
  (∀ n, Arg.ref "l" n ∈ o.args → o.name = "Br" ∨ o.name = "BrIf" ∨ o.name = "BrTable") ∧
  (∀ sp n, Arg.ref sp n ∈ o.args → sp ∈ entSpaces)

mutual
def PI.Clean : PI → Prop
  | .op o _ => opClean o
  | .blk _ _ b _ => b.Clean
  | .if1 _ _ t _ => t.Clean
  | .if2 _ _ t _ e _ => t.Clean ∧ e.Clean
def PL.Clean : PL → Prop
  | .nil => True
  | .cons h t => h.Clean ∧ t.Clean
end

/-- what a non-structural operator does to the current frame: the instruction it appends (if the
    frame is reachable) and the new unreachable flag; `ids` = sequence ids of the enclosing frames,
    innermost first -/
def leafEffect (e : PEnv) (ids : List Nat) (unr : Bool) (o : Op) (loc : Nat) : Option (List (BInstr × Nat) × Bool) :=
  let emit := fun (i : BInstr) => if unr then [] else [(i, loc)]
  if o.name = "Br" then
    match labelsOf o with
    | [n] => (ids[n]?).map fun b => (emit (.br b), true)
    | _ => none
  else if o.name = "BrIf" then
    match labelsOf o with
    | [n] => (ids[n]?).map fun b => (emit (.brIf b), unr)
    | _ => none
  else if o.name = "BrTable" then
    match (labelsOf o).reverse with
    | d :: ts =>
      match ids[d]?, ts.reverse.mapM (fun n => ids[n]?) with
      | some dd, some tts => some (emit (.brTable tts dd), true)
      | _, _ => none
    | [] => none
  else if o.name = "Return" || o.name = "Unreachable" then some (emit (.leaf o), true)
  else if o.name = "Nop" then some ([], unr)
  else (pMapArgs e (wrapOffsets o.args)).map fun a => (emit (.leaf ⟨o.name, a⟩), unr)

mutual
def expI (e : PEnv) (ids : List Nat) (next : Nat) (unr : Bool) : PI → Option (List (BInstr × Nat) × List PSeq × Bool)
  | .op o loc => (leafEffect e ids unr o loc).map fun r => (r.1, [], r.2)
  | .blk o loc b endLoc =>
    match (btOf o).bind (seqTyOfBt e) with
    | none => none
    | some ty =>
      match expL e (next :: ids) (next + 1) false b with
      | none => none
      | some (bi, bc, _) =>
        some (if unr then [] else [((if o.name = "Block" then BInstr.block next else BInstr.loop next), loc)],
              ⟨ty, bi, endLoc⟩ :: bc, unr)
  | .if1 o loc t endLoc =>
    match (btOf o).bind (seqTyOfBt e) with
    | none => none
    | some ty =>
      match expL e (next :: ids) (next + 1) false t with
      | none => none
      | some (ti, tc, _) =>
        let alt := next + 1 + tc.length
        some (if unr then [] else [(BInstr.ifElse next alt, loc)],
              ⟨ty, ti, endLoc⟩ :: (tc ++ [⟨ty, [], defaultLoc⟩]), unr)
  | .if2 o loc t elseLoc el endLoc =>
    match (btOf o).bind (seqTyOfBt e) with
    | none => none
    | some ty =>
      match expL e (next :: ids) (next + 1) false t with
      | none => none
      | some (ti, tc, _) =>
        let alt := next + 1 + tc.length
        match expL e (alt :: ids) (alt + 1) false el with
        | none => none
        | some (ei, ec, _) =>
          some (if unr then [] else [(BInstr.ifElse next alt, loc)],
                ⟨ty, ti, elseLoc⟩ :: (tc ++ ⟨ty, ei, endLoc⟩ :: ec), unr)
def expL (e : PEnv) (ids : List Nat) (next : Nat) (unr : Bool) : PL → Option (List (BInstr × Nat) × List PSeq × Bool)
  | .nil => some ([], [], unr)
  | .cons h t =>
    match expI e ids next unr h with
    | none => none
    | some (i1, c1, u1) =>
      match expL e ids (next + c1.length) u1 t with
      | none => none
      | some (i2, c2, u2) => some (i1 ++ i2, c1 ++ c2, u2)
end

theorem prun_append (e : PEnv) (a b : List (Op × Nat)) (st : PSt) :
    prun e st (a ++ b) = (prun e st a).bind (prun e · b) := by
  induction a generalizing st with
  | nil => simp [prun]
  | cons o os ih =>
    obtain ⟨op, loc⟩ := o
    simp only [List.cons_append, prun]
    cases pstep e st op loc <;> simp [ih]


/-! ## the arena, split around the current sequence -/

theorem modify_split {α : Type} (pre post : List α) (x : α) (f : α → α) :
    (pre ++ x :: post).modify pre.length f = pre ++ f x :: post := by
  induction pre with
  | nil => simp
  | cons a r ih => simp [List.modify_cons, ih]

theorem appendTo_split (pre post : List PSeq) (cur : PSeq) (i : BInstr) (loc : Nat) :
    appendTo (pre ++ cur :: post) pre.length i loc =
      pre ++ { cur with instrs := cur.instrs ++ [(i, loc)] } :: post := by
  simp [appendTo, modify_split]

theorem setEnd_split (pre post : List PSeq) (cur : PSeq) (loc : Nat) :
    setEnd (pre ++ cur :: post) pre.length loc = pre ++ { cur with fin := loc } :: post := by
  simp [setEnd, modify_split]

/-- the state the theorems talk about: the arena split around the current sequence `cur` (whose id
    is `pre.length`), the current frame on top of `rest` -/
def mkSt (pre : List PSeq) (cur : PSeq) (post : List PSeq) (unr : Bool) (kind : BlockKind) (ty : SeqTy)
    (rest : List PFrame) (ie : List IfSt) : PSt :=
  ⟨pre ++ cur :: post, ⟨pre.length, unr, kind, ty⟩ :: rest, ie⟩

def idsOf (pre : List PSeq) (rest : List PFrame) : List Nat := pre.length :: rest.map (·.seq)

def addInstrs (cur : PSeq) (is : List (BInstr × Nat)) : PSeq := { cur with instrs := cur.instrs ++ is }

theorem addInstrs_nil (cur : PSeq) : addInstrs cur [] = cur := by simp [addInstrs]

theorem addInstrs_add (cur : PSeq) (a b : List (BInstr × Nat)) :
    addInstrs (addInstrs cur a) b = addInstrs cur (a ++ b) := by simp [addInstrs]

theorem frameSeq_mkSt (pre : List PSeq) (cur : PSeq) (post : List PSeq) (unr : Bool) (kind : BlockKind) (ty : SeqTy)
    (rest : List PFrame) (ie : List IfSt) (n : Nat) :
    frameSeq (mkSt pre cur post unr kind ty rest ie) n = (idsOf pre rest)[n]? := by
  unfold frameSeq mkSt idsOf
  cases n with
  | zero => simp
  | succ k => simp [List.getElem?_map]

theorem allocIn0_mkSt (pre : List PSeq) (cur : PSeq) (post : List PSeq) (unr : Bool) (kind : BlockKind) (ty : SeqTy)
    (rest : List PFrame) (ie : List IfSt) (i : BInstr) (loc : Nat) :
    allocIn (mkSt pre cur post unr kind ty rest ie) 0 i loc =
      some (mkSt pre (addInstrs cur (if unr then [] else [(i, loc)])) post unr kind ty rest ie) := by
  unfold allocIn mkSt
  cases unr with
  | true => simp [addInstrs]
  | false => simp [appendTo_split, addInstrs]

theorem markUnr_mkSt (pre : List PSeq) (cur : PSeq) (post : List PSeq) (unr : Bool) (kind : BlockKind) (ty : SeqTy)
    (rest : List PFrame) (ie : List IfSt) :
    markUnr (mkSt pre cur post unr kind ty rest ie) = some (mkSt pre cur post true kind ty rest ie) := by
  simp [markUnr, mkSt]

theorem mapM_frameSeq (pre : List PSeq) (cur : PSeq) (post : List PSeq) (unr : Bool) (kind : BlockKind) (ty : SeqTy)
    (rest : List PFrame) (ie : List IfSt) (l : List Nat) :
    l.mapM (frameSeq (mkSt pre cur post unr kind ty rest ie)) = l.mapM (fun n => (idsOf pre rest)[n]?) := by
  have : frameSeq (mkSt pre cur post unr kind ty rest ie) = fun n => (idsOf pre rest)[n]? := by
    funext n; exact frameSeq_mkSt pre cur post unr kind ty rest ie n
  rw [this]

/-- a non-structural operator does to the state what `leafEffect` says -/
theorem pstep_leaf (e : PEnv) (pre : List PSeq) (cur : PSeq) (post : List PSeq) (unr : Bool) (kind : BlockKind)
    (ty : SeqTy) (rest : List PFrame) (ie : List IfSt) (o : Op) (loc : Nat)
    (hs : isStructural o.name = false) (is : List (BInstr × Nat)) (unr' : Bool)
    (h : leafEffect e (idsOf pre rest) unr o loc = some (is, unr')) :
    pstep e (mkSt pre cur post unr kind ty rest ie) o loc =
      some (mkSt pre (addInstrs cur is) post unr' kind ty rest ie) := by
  simp only [isStructural, Bool.or_eq_false_iff, decide_eq_false_iff_not] at hs
  obtain ⟨⟨⟨⟨h1, h2⟩, h3⟩, h4⟩, h5⟩ := hs
  unfold pstep
  simp only [h1, h2, h3, h4, h5, Bool.or_self, Bool.false_eq_true, if_false]
  unfold leafEffect at h
  by_cases hb : o.name = "Br"
  · simp only [hb, if_true] at h ⊢
    split at h
    · rename_i n hl
      simp only [hl, frameSeq_mkSt]
      cases hid : (idsOf pre rest)[n]? with
      | none => simp [hid] at h
      | some b =>
        simp only [hid, Option.map_some, Option.some.injEq, Prod.mk.injEq] at h
        obtain ⟨rfl, rfl⟩ := h
        simp [allocIn0_mkSt, markUnr_mkSt]
    · simp at h
  · by_cases hbi : o.name = "BrIf"
    · simp only [hbi, if_true] at h ⊢
      simp only [show ¬ ("BrIf" = "Br") by decide, if_false] at h ⊢
      split at h
      · rename_i n hl
        simp only [hl, frameSeq_mkSt]
        cases hid : (idsOf pre rest)[n]? with
        | none => simp [hid] at h
        | some b =>
          simp only [hid, Option.map_some, Option.some.injEq, Prod.mk.injEq] at h
          obtain ⟨rfl, rfl⟩ := h
          simp [allocIn0_mkSt]
      · simp at h
    · by_cases hbt : o.name = "BrTable"
      · simp only [hbt, if_true] at h ⊢
        simp only [show ¬ ("BrTable" = "Br") by decide, show ¬ ("BrTable" = "BrIf") by decide, if_false] at h ⊢
        split at h
        · rename_i d ts hl
          simp only [hl, frameSeq_mkSt, mapM_frameSeq]
          cases hd : (idsOf pre rest)[d]? with
          | none => simp [hd] at h
          | some dd =>
            cases ht : ts.reverse.mapM (fun n => (idsOf pre rest)[n]?) with
            | none => simp [hd, ht] at h
            | some tts =>
              simp only [hd, ht, Option.some.injEq, Prod.mk.injEq] at h
              obtain ⟨rfl, rfl⟩ := h
              simp [allocIn0_mkSt, markUnr_mkSt]
        · simp at h
      · by_cases hr : o.name = "Return" ∨ o.name = "Unreachable"
        · have hr' : (o.name = "Return" || o.name = "Unreachable") = true := by simpa using hr
          simp only [hb, hbi, hbt, hr', if_false, if_true, Option.some.injEq, Prod.mk.injEq] at h ⊢
          obtain ⟨rfl, rfl⟩ := h
          simp [allocIn0_mkSt, markUnr_mkSt]
        · have hr' : (o.name = "Return" || o.name = "Unreachable") = false := by simpa using hr
          by_cases hn : o.name = "Nop"
          · simp only [hb, hbi, hbt, hr', hn, if_false, if_true, Option.some.injEq, Prod.mk.injEq, Bool.false_eq_true] at h ⊢
            obtain ⟨rfl, rfl⟩ := h
            simp [addInstrs_nil]
          · simp only [hb, hbi, hbt, hr', hn, if_false, Bool.false_eq_true] at h ⊢
            cases ha : pMapArgs e (wrapOffsets o.args) with
            | none => simp [ha] at h
            | some a =>
              simp only [ha, Option.map_some, Option.some.injEq, Prod.mk.injEq] at h
              obtain ⟨rfl, rfl⟩ := h
              simp [allocIn0_mkSt]


/-! ## the structural operators, one lemma each -/

theorem mkSt_length (pre : List PSeq) (cur : PSeq) (post : List PSeq) (unr : Bool) (kind : BlockKind) (ty : SeqTy)
    (rest : List PFrame) (ie : List IfSt) :
    (mkSt pre cur post unr kind ty rest ie).seqs.length = pre.length + 1 + post.length := by
  simp [mkSt]; omega

/-- `block` / `loop`: a fresh sequence, a fresh frame, the instruction appended to the parent -/
theorem pstep_block (e : PEnv) (pre : List PSeq) (cur : PSeq) (post : List PSeq) (unr : Bool) (kind : BlockKind)
    (ty0 : SeqTy) (rest : List PFrame) (ie : List IfSt) (o : Op) (loc : Nat) (ty : SeqTy)
    (hn : o.name = "Block" ∨ o.name = "Loop") (hty : (btOf o).bind (seqTyOfBt e) = some ty) :
    pstep e (mkSt pre cur post unr kind ty0 rest ie) o loc =
      some (mkSt (pre ++ addInstrs cur (if unr then [] else
                [((if o.name = "Block" then BInstr.block (pre.length + 1 + post.length)
                   else BInstr.loop (pre.length + 1 + post.length)), loc)]) :: post)
              ⟨ty, [], defaultLoc⟩ [] false (if o.name = "Block" then .block else .loop) ty
              (⟨pre.length, unr, kind, ty0⟩ :: rest) ie) := by
  have hb : (o.name = "Block" || o.name = "Loop") = true := by simpa using hn
  unfold pstep
  simp only [hb, if_true, hty]
  unfold pushControl allocIn
  simp only [mkSt]
  have hlen : (pre ++ cur :: post).length = pre.length + 1 + post.length := by simp; omega
  cases unr with
  | true => simp [hlen, addInstrs_nil]
  | false =>
    simp only [hlen, List.getElem?_cons_succ, List.getElem?_cons_zero, Bool.false_eq_true, if_false]
    have := appendTo_split pre (post ++ [⟨ty, [], defaultLoc⟩]) cur
      (if o.name = "Block" then BInstr.block (pre.length + 1 + post.length) else BInstr.loop (pre.length + 1 + post.length)) loc
    simp [this, addInstrs]
    omega


theorem split_assoc (pre0 : List PSeq) (cur0 : PSeq) (post0 : List PSeq) (x : PSeq) (post : List PSeq) :
    (pre0 ++ cur0 :: post0) ++ x :: post = pre0 ++ cur0 :: (post0 ++ x :: post) := by simp

/-- `end` of a `block` / `loop`: the frame is popped and the sequence gets its end location -/
theorem pstep_end_block (e : PEnv) (pre0 : List PSeq) (cur0 : PSeq) (post0 : List PSeq) (cur : PSeq) (post : List PSeq)
    (u unr : Bool) (k kind : BlockKind) (ty ty0 : SeqTy) (rest : List PFrame) (ie : List IfSt) (endLoc : Nat)
    (hk : k = .block ∨ k = .loop) :
    pstep e (mkSt (pre0 ++ cur0 :: post0) cur post u k ty (⟨pre0.length, unr, kind, ty0⟩ :: rest) ie) opEnd endLoc =
      some (mkSt pre0 cur0 (post0 ++ { cur with fin := endLoc } :: post) unr kind ty0 rest ie) := by
  unfold pstep
  simp only [opEnd, show ¬ ("End" = "Block") by decide, show ¬ ("End" = "Loop") by decide,
    show ¬ ("End" = "If") by decide, show ¬ ("End" = "Else") by decide, Bool.or_self, Bool.false_eq_true, if_false, if_true]
  simp only [mkSt, setEnd_split]
  have hk' : (k = .if_ || k = .else_) = false := by
    rcases hk with rfl | rfl <;> simp
  simp [hk', split_assoc]

/-- `if`: a fresh sequence and frame, and an entry on the if/else stack -/
theorem pstep_if (e : PEnv) (pre : List PSeq) (cur : PSeq) (post : List PSeq) (unr : Bool) (kind : BlockKind)
    (ty0 : SeqTy) (rest : List PFrame) (ie : List IfSt) (o : Op) (loc : Nat) (ty : SeqTy)
    (hn : o.name = "If") (hty : (btOf o).bind (seqTyOfBt e) = some ty) :
    pstep e (mkSt pre cur post unr kind ty0 rest ie) o loc =
      some (mkSt (pre ++ cur :: post) ⟨ty, [], defaultLoc⟩ [] false .if_ ty
              (⟨pre.length, unr, kind, ty0⟩ :: rest) (⟨loc, pre.length + 1 + post.length, none⟩ :: ie)) := by
  unfold pstep
  simp only [hn, show ¬ ("If" = "Block") by decide, show ¬ ("If" = "Loop") by decide, Bool.or_self,
    Bool.false_eq_true, if_false, if_true, hty]
  unfold pushControl
  simp [mkSt]
  omega

/-- `else`: the consequent gets its end location, the alternative is allocated and recorded -/
theorem pstep_else (e : PEnv) (pre : List PSeq) (cur : PSeq) (post : List PSeq) (u : Bool) (ty : SeqTy)
    (rest : List PFrame) (ie : List IfSt) (start cons : Nat) (elseLoc : Nat) :
    pstep e (mkSt pre cur post u .if_ ty rest (⟨start, cons, none⟩ :: ie)) opElse elseLoc =
      some (mkSt (pre ++ { cur with fin := elseLoc } :: post) ⟨ty, [], defaultLoc⟩ [] false .else_ ty rest
              (⟨start, cons, some (pre.length + 1 + post.length)⟩ :: ie)) := by
  unfold pstep
  simp only [opElse, show ¬ ("Else" = "Block") by decide, show ¬ ("Else" = "Loop") by decide,
    show ¬ ("Else" = "If") by decide, Bool.or_self, Bool.false_eq_true, if_false, if_true]
  simp only [mkSt, setEnd_split]
  unfold pushControl
  simp
  omega

/-- `end` of an `if` without `else`: an empty alternative is synthesised, the `IfElse` instruction is
    appended to the parent -/
theorem pstep_end_if1 (e : PEnv) (pre0 : List PSeq) (cur0 : PSeq) (post0 : List PSeq) (cur : PSeq) (post : List PSeq)
    (u unr : Bool) (kind : BlockKind) (ty ty0 : SeqTy) (rest : List PFrame) (ie : List IfSt) (start cons endLoc : Nat) :
    pstep e (mkSt (pre0 ++ cur0 :: post0) cur post u .if_ ty (⟨pre0.length, unr, kind, ty0⟩ :: rest)
        (⟨start, cons, none⟩ :: ie)) opEnd endLoc =
      some (mkSt pre0
        (addInstrs cur0 (if unr then [] else [(BInstr.ifElse cons (pre0.length + 1 + post0.length + 1 + post.length), start)]))
        (post0 ++ { cur with fin := endLoc } :: (post ++ [⟨ty, [], defaultLoc⟩])) unr kind ty0 rest ie) := by
  unfold pstep
  simp only [opEnd, show ¬ ("End" = "Block") by decide, show ¬ ("End" = "Loop") by decide,
    show ¬ ("End" = "If") by decide, show ¬ ("End" = "Else") by decide, Bool.or_self, Bool.false_eq_true, if_false, if_true]
  simp only [mkSt, setEnd_split]
  unfold pushControl allocIn
  have hlen : (pre0 ++ cur0 :: post0 ++ { cur with fin := endLoc } :: post).length =
      pre0.length + 1 + post0.length + 1 + post.length := by simp; omega
  cases unr with
  | true => simp [hlen, addInstrs_nil, split_assoc]
  | false =>
    have := appendTo_split pre0 (post0 ++ { cur with fin := endLoc } :: (post ++ [⟨ty, [], defaultLoc⟩])) cur0
      (BInstr.ifElse cons (pre0.length + 1 + post0.length + 1 + post.length)) start
    simp [hlen, addInstrs, split_assoc]
    have e1 : pre0.length + (post0.length + (post.length + 1) + 1) = pre0.length + 1 + post0.length + 1 + post.length := by omega
    rw [e1]
    exact this

/-- `end` of an `if … else`: the alternative gets its end location, the `IfElse` instruction is
    appended to the parent -/
theorem pstep_end_if2 (e : PEnv) (pre0 : List PSeq) (cur0 : PSeq) (post0 : List PSeq) (cur : PSeq) (post : List PSeq)
    (u unr : Bool) (kind : BlockKind) (ty ty0 : SeqTy) (rest : List PFrame) (ie : List IfSt) (start cons alt endLoc : Nat) :
    pstep e (mkSt (pre0 ++ cur0 :: post0) cur post u .else_ ty (⟨pre0.length, unr, kind, ty0⟩ :: rest)
        (⟨start, cons, some alt⟩ :: ie)) opEnd endLoc =
      some (mkSt pre0 (addInstrs cur0 (if unr then [] else [(BInstr.ifElse cons alt, start)]))
        (post0 ++ { cur with fin := endLoc } :: post) unr kind ty0 rest ie) := by
  unfold pstep
  simp only [opEnd, show ¬ ("End" = "Block") by decide, show ¬ ("End" = "Loop") by decide,
    show ¬ ("End" = "If") by decide, show ¬ ("End" = "Else") by decide, Bool.or_self, Bool.false_eq_true, if_false, if_true]
  simp only [mkSt, setEnd_split]
  unfold allocIn
  cases unr with
  | true => simp [addInstrs_nil, split_assoc]
  | false =>
    have := appendTo_split pre0 (post0 ++ { cur with fin := endLoc } :: post) cur0 (BInstr.ifElse cons alt) start
    simp [this, addInstrs, split_assoc]


/-! ## the control stack computes `expI` / `expL` -/

theorem prun_one (e : PEnv) (st : PSt) (o : Op) (loc : Nat) : prun e st [(o, loc)] = pstep e st o loc := by
  simp [prun]

theorem prun_cons (e : PEnv) (st : PSt) (o : Op) (loc : Nat) (r : List (Op × Nat)) :
    prun e st ((o, loc) :: r) = (pstep e st o loc).bind (prun e · r) := rfl

mutual
theorem prun_I (e : PEnv) : (i : PI) → i.WF → ∀ (pre : List PSeq) (cur : PSeq) (post : List PSeq) (unr : Bool)
    (kind : BlockKind) (ty : SeqTy) (rest : List PFrame) (ie : List IfSt)
    (is : List (BInstr × Nat)) (cs : List PSeq) (unr' : Bool),
    expI e (idsOf pre rest) (pre.length + 1 + post.length) unr i = some (is, cs, unr') →
    prun e (mkSt pre cur post unr kind ty rest ie) i.flat =
      some (mkSt pre (addInstrs cur is) (post ++ cs) unr' kind ty rest ie)
  | .op o loc, hw, pre, cur, post, unr, kind, ty, rest, ie, is, cs, unr', h => by
      simp only [expI] at h
      cases hl : leafEffect e (idsOf pre rest) unr o loc with
      | none => simp [hl] at h
      | some r =>
        obtain ⟨ri, ru⟩ := r
        simp only [hl, Option.map_some, Option.some.injEq, Prod.mk.injEq] at h
        obtain ⟨rfl, rfl, rfl⟩ := h
        simp only [PI.flat, prun_one]
        rw [pstep_leaf e pre cur post unr kind ty rest ie o loc hw ri ru hl]
        simp
  | .blk o loc b endLoc, hw, pre, cur, post, unr, kind, ty, rest, ie, is, cs, unr', h => by
      obtain ⟨hn, hb⟩ := hw
      simp only [expI] at h
      cases hty : (btOf o).bind (seqTyOfBt e) with
      | none => simp [hty] at h
      | some bty =>
        simp only [hty] at h
        cases hx : expL e ((pre.length + 1 + post.length) :: idsOf pre rest) (pre.length + 1 + post.length + 1) false b with
        | none => simp [hx] at h
        | some r =>
          obtain ⟨bi, bc, bu⟩ := r
          simp only [hx, Option.some.injEq, Prod.mk.injEq] at h
          obtain ⟨rfl, rfl, rfl⟩ := h
          simp only [PI.flat, prun_cons]
          rw [pstep_block e pre cur post unr kind ty rest ie o loc bty hn hty]
          simp only [Option.bind_some, prun_append]
          have ih := prun_L e b hb
            (pre ++ addInstrs cur (if unr then [] else
                [((if o.name = "Block" then BInstr.block (pre.length + 1 + post.length)
                   else BInstr.loop (pre.length + 1 + post.length)), loc)]) :: post)
            ⟨bty, [], defaultLoc⟩ [] false (if o.name = "Block" then .block else .loop) bty
            (⟨pre.length, unr, kind, ty⟩ :: rest) ie bi bc bu
            (by
              have hl : (pre ++ addInstrs cur (if unr then [] else
                [((if o.name = "Block" then BInstr.block (pre.length + 1 + post.length)
                   else BInstr.loop (pre.length + 1 + post.length)), loc)]) :: post).length = pre.length + 1 + post.length := by
                simp; omega
              simp only [idsOf, hl, List.map_cons, List.length_nil, Nat.add_zero] at hx ⊢
              exact hx)
          rw [ih]
          simp only [Option.bind_some, prun_one, List.nil_append]
          rw [pstep_end_block]
          · simp [addInstrs]
          · rcases hn with h1 | h1
            · simp [h1]
            · have : o.name ≠ "Block" := by rw [h1]; decide
              simp [this]
  | .if1 o loc t endLoc, hw, pre, cur, post, unr, kind, ty, rest, ie, is, cs, unr', h => by
      obtain ⟨hn, ht⟩ := hw
      simp only [expI] at h
      cases hty : (btOf o).bind (seqTyOfBt e) with
      | none => simp [hty] at h
      | some bty =>
        simp only [hty] at h
        cases hx : expL e ((pre.length + 1 + post.length) :: idsOf pre rest) (pre.length + 1 + post.length + 1) false t with
        | none => simp [hx] at h
        | some r =>
          obtain ⟨ti, tc, tu⟩ := r
          simp only [hx, Option.some.injEq, Prod.mk.injEq] at h
          obtain ⟨rfl, rfl, rfl⟩ := h
          simp only [PI.flat, prun_cons]
          rw [pstep_if e pre cur post unr kind ty rest ie o loc bty hn hty]
          simp only [Option.bind_some, prun_append]
          have ih := prun_L e t ht (pre ++ cur :: post) ⟨bty, [], defaultLoc⟩ [] false .if_ bty
            (⟨pre.length, unr, kind, ty⟩ :: rest) (⟨loc, pre.length + 1 + post.length, none⟩ :: ie) ti tc tu
            (by
              have hl : (pre ++ cur :: post).length = pre.length + 1 + post.length := by simp; omega
              simp only [idsOf, hl, List.map_cons, List.length_nil, Nat.add_zero] at hx ⊢
              exact hx)
          rw [ih]
          simp only [Option.bind_some, prun_one, List.nil_append]
          rw [pstep_end_if1]
          simp [addInstrs]
  | .if2 o loc t elseLoc el endLoc, hw, pre, cur, post, unr, kind, ty, rest, ie, is, cs, unr', h => by
      obtain ⟨hn, ht, hel⟩ := hw
      simp only [expI] at h
      cases hty : (btOf o).bind (seqTyOfBt e) with
      | none => simp [hty] at h
      | some bty =>
        simp only [hty] at h
        cases hx : expL e ((pre.length + 1 + post.length) :: idsOf pre rest) (pre.length + 1 + post.length + 1) false t with
        | none => simp [hx] at h
        | some r =>
          obtain ⟨ti, tc, tu⟩ := r
          simp only [hx] at h
          cases hy : expL e ((pre.length + 1 + post.length + 1 + tc.length) :: idsOf pre rest)
              (pre.length + 1 + post.length + 1 + tc.length + 1) false el with
          | none => simp [hy] at h
          | some r2 =>
            obtain ⟨ei, ec, eu⟩ := r2
            simp only [hy, Option.some.injEq, Prod.mk.injEq] at h
            obtain ⟨rfl, rfl, rfl⟩ := h
            simp only [PI.flat, prun_cons]
            rw [pstep_if e pre cur post unr kind ty rest ie o loc bty hn hty]
            simp only [Option.bind_some, prun_append, prun_cons]
            have ih := prun_L e t ht (pre ++ cur :: post) ⟨bty, [], defaultLoc⟩ [] false .if_ bty
              (⟨pre.length, unr, kind, ty⟩ :: rest) (⟨loc, pre.length + 1 + post.length, none⟩ :: ie) ti tc tu
              (by
                have hl : (pre ++ cur :: post).length = pre.length + 1 + post.length := by simp; omega
                simp only [idsOf, hl, List.map_cons, List.length_nil, Nat.add_zero] at hx ⊢
                exact hx)
            rw [ih]
            simp only [Option.bind_some, List.nil_append]
            rw [pstep_else]
            simp only [Option.bind_some]
            have hl2 : (pre ++ cur :: post ++ { (addInstrs ⟨bty, [], defaultLoc⟩ ti) with fin := elseLoc } :: tc).length =
                pre.length + 1 + post.length + 1 + tc.length := by simp; omega
            have ih2 := prun_L e el hel
              (pre ++ cur :: post ++ { (addInstrs ⟨bty, [], defaultLoc⟩ ti) with fin := elseLoc } :: tc)
              ⟨bty, [], defaultLoc⟩ [] false .else_ bty
              (⟨pre.length, unr, kind, ty⟩ :: rest)
              (⟨loc, pre.length + 1 + post.length, some ((pre ++ cur :: post).length + 1 + tc.length)⟩ :: ie) ei ec eu
              (by
                simp only [idsOf, hl2, List.map_cons, List.length_nil, Nat.add_zero] at hy ⊢
                exact hy)
            rw [ih2]
            simp only [Option.bind_some, prun_one, List.nil_append]
            have hsplit : pre ++ cur :: post ++ { (addInstrs ⟨bty, [], defaultLoc⟩ ti) with fin := elseLoc } :: tc =
                pre ++ cur :: (post ++ { (addInstrs ⟨bty, [], defaultLoc⟩ ti) with fin := elseLoc } :: tc) := by simp
            rw [hsplit, pstep_end_if2]
            have hl : (pre ++ cur :: post).length = pre.length + 1 + post.length := by simp; omega
            simp [addInstrs, hl, prun]
theorem prun_L (e : PEnv) : (l : PL) → l.WF → ∀ (pre : List PSeq) (cur : PSeq) (post : List PSeq) (unr : Bool)
    (kind : BlockKind) (ty : SeqTy) (rest : List PFrame) (ie : List IfSt)
    (is : List (BInstr × Nat)) (cs : List PSeq) (unr' : Bool),
    expL e (idsOf pre rest) (pre.length + 1 + post.length) unr l = some (is, cs, unr') →
    prun e (mkSt pre cur post unr kind ty rest ie) l.flat =
      some (mkSt pre (addInstrs cur is) (post ++ cs) unr' kind ty rest ie)
  | .nil, _, pre, cur, post, unr, kind, ty, rest, ie, is, cs, unr', h => by
      simp only [expL, Option.some.injEq, Prod.mk.injEq] at h
      obtain ⟨rfl, rfl, rfl⟩ := h
      simp [PL.flat, prun, addInstrs_nil]
  | .cons hd tl, hw, pre, cur, post, unr, kind, ty, rest, ie, is, cs, unr', h => by
      obtain ⟨hwh, hwt⟩ := hw
      simp only [expL] at h
      cases hx : expI e (idsOf pre rest) (pre.length + 1 + post.length) unr hd with
      | none => simp [hx] at h
      | some r =>
        obtain ⟨i1, c1, u1⟩ := r
        simp only [hx] at h
        cases hy : expL e (idsOf pre rest) (pre.length + 1 + post.length + c1.length) u1 tl with
        | none => simp [hy] at h
        | some r2 =>
          obtain ⟨i2, c2, u2⟩ := r2
          simp only [hy, Option.some.injEq, Prod.mk.injEq] at h
          obtain ⟨rfl, rfl, rfl⟩ := h
          simp only [PL.flat, prun_append]
          rw [prun_I e hd hwh pre cur post unr kind ty rest ie i1 c1 u1 hx]
          simp only [Option.bind_some]
          have := prun_L e tl hwt pre (addInstrs cur i1) (post ++ c1) u1 kind ty rest ie i2 c2 u2
            (by simpa [Nat.add_assoc] using hy)
          rw [this]
          simp [addInstrs_add]
end


/-- **`LocalFunction::parse` on a whole body**: the arena is the entry sequence holding what `expL`
    says, followed by the sequences `expL` creates, in allocation order -/
theorem buildBody_eq (e : PEnv) (entryTy : Nat) (body : PL) (hw : body.WF) (endLoc : Nat)
    (is : List (BInstr × Nat)) (cs : List PSeq) (u : Bool)
    (h : expL e [0] 1 false body = some (is, cs, u)) :
    buildBody e entryTy (body.flat ++ [(opEnd, endLoc)]) = some (⟨.multi entryTy, is, endLoc⟩ :: cs) := by
  unfold buildBody pushControl
  simp only [List.length_nil, List.nil_append]
  have h0 : (⟨[⟨.multi entryTy, [], defaultLoc⟩], [⟨0, false, .entry, .multi entryTy⟩], []⟩ : PSt) =
      mkSt [] ⟨.multi entryTy, [], defaultLoc⟩ [] false .entry (.multi entryTy) [] [] := rfl
  rw [h0, prun_append]
  have := prun_L e body hw [] ⟨.multi entryTy, [], defaultLoc⟩ [] false .entry (.multi entryTy) [] [] is cs u
    (by simpa [idsOf] using h)
  rw [this]
  simp only [Option.bind_some, prun_one]
  unfold pstep
  simp only [opEnd, show ¬ ("End" = "Block") by decide, show ¬ ("End" = "Loop") by decide,
    show ¬ ("End" = "If") by decide, show ¬ ("End" = "Else") by decide, Bool.or_self, Bool.false_eq_true, if_false, if_true]
  simp [mkSt, setEnd, addInstrs]

end Walrus
