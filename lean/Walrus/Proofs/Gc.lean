import Walrus.Gc

/-! The worklist closure computes exactly the set reachable from the roots (C07, C06, C02). -/
namespace Walrus

/-- reachability: the least set containing the roots and closed under the successor relation -/
inductive Reach (succ : Ent → List Ent) (roots : List Ent) : Ent → Prop
  | root (x) : x ∈ roots → Reach succ roots x
  | step (x y) : Reach succ roots x → y ∈ succ x → Reach succ roots y

theorem closure_eq_st (succ : Ent → List Ent) (fuel : Nat) (todo visited : List Ent) :
    closure succ fuel todo visited = (closureSt succ fuel todo visited).2 := rfl

/-- invariant of the worklist -/
structure WInv (succ : Ent → List Ent) (roots todo visited : List Ent) : Prop where
  /-- nothing is ever forgotten -/
  roots_in : ∀ r ∈ roots, r ∈ visited ∨ r ∈ todo
  /-- everything already processed has all its successors processed or pending -/
  closed : ∀ x ∈ visited, ∀ y ∈ succ x, y ∈ visited ∨ y ∈ todo
  /-- nothing unreachable is ever added -/
  sound : ∀ x, (x ∈ visited ∨ x ∈ todo) → Reach succ roots x

theorem mem_eraseDups {x : Ent} {l : List Ent} : x ∈ l.eraseDups ↔ x ∈ l := List.mem_eraseDups

theorem winv_step (succ : Ent → List Ent) (roots : List Ent) (x : Ent) (todo visited : List Ent)
    (h : WInv succ roots (x :: todo) visited) :
    WInv succ roots
      (((succ x).filter fun y => !(visited.contains y) && !(todo.contains y) && y != x).eraseDups ++ todo)
      (if visited.contains x then visited else visited ++ [x]) := by
  have hvis : ∀ z, z ∈ (if visited.contains x then visited else visited ++ [x]) ↔ (z ∈ visited ∨ z = x) := by
    intro z
    split
    · rename_i hc
      have : x ∈ visited := by simpa using hc
      constructor
      · intro hz; exact Or.inl hz
      · rintro (hz | rfl); exact hz; exact this
    · simp
  have hnew : ∀ y, y ∈ succ x → (y ∈ visited ∨ y = x) ∨
      y ∈ (((succ x).filter fun y => !(visited.contains y) && !(todo.contains y) && y != x).eraseDups ++ todo) := by
    intro y hy
    by_cases h1 : y ∈ visited
    · exact Or.inl (Or.inl h1)
    · by_cases h2 : y = x
      · exact Or.inl (Or.inr h2)
      · by_cases h3 : y ∈ todo
        · exact Or.inr (List.mem_append_right _ h3)
        · refine Or.inr (List.mem_append_left _ (mem_eraseDups.2 (List.mem_filter.2 ⟨hy, ?_⟩)))
          simp [h1, h2, h3]
  constructor
  · intro r hr
    rcases h.roots_in r hr with hv | ht
    · exact Or.inl ((hvis r).2 (Or.inl hv))
    · rcases List.mem_cons.1 ht with rfl | ht
      · exact Or.inl ((hvis _).2 (Or.inr rfl))
      · exact Or.inr (List.mem_append_right _ ht)
  · intro z hz y hy
    rcases (hvis z).1 hz with hz | rfl
    · rcases h.closed z hz y hy with hv | ht
      · exact Or.inl ((hvis y).2 (Or.inl hv))
      · rcases List.mem_cons.1 ht with rfl | ht
        · exact Or.inl ((hvis _).2 (Or.inr rfl))
        · exact Or.inr (List.mem_append_right _ ht)
    · rcases hnew y hy with hv | hn
      · exact Or.inl ((hvis y).2 hv)
      · exact Or.inr hn
  · intro z hz
    rcases hz with hz | hz
    · rcases (hvis z).1 hz with hz | rfl
      · exact h.sound z (Or.inl hz)
      · exact h.sound _ (Or.inr List.mem_cons_self)
    · rcases List.mem_append.1 hz with hz | hz
      · have := (List.mem_filter.1 (mem_eraseDups.1 hz)).1
        exact Reach.step x z (h.sound x (Or.inr List.mem_cons_self)) this
      · exact h.sound z (Or.inr (List.mem_cons_of_mem _ hz))

theorem winv_run (succ : Ent → List Ent) (roots : List Ent) (fuel : Nat) (todo visited : List Ent)
    (h : WInv succ roots todo visited) :
    WInv succ roots (closureSt succ fuel todo visited).1 (closureSt succ fuel todo visited).2 := by
  induction fuel generalizing todo visited with
  | zero => cases todo <;> exact h
  | succ n ih =>
    cases todo with
    | nil => exact h
    | cons x t =>
      simp only [closureSt]
      exact ih _ _ (winv_step succ roots x t visited h)

theorem winv_init (succ : Ent → List Ent) (roots : List Ent) : WInv succ roots roots [] := by
  constructor
  · intro r hr; exact Or.inr hr
  · intro x hx; cases hx
  · intro x hx
    rcases hx with hx | hx
    · cases hx
    · exact Reach.root x hx

/-- **the worklist computes reachability**: when it stops with an empty stack, the visited set is
    exactly the set reachable from the roots (sound and complete) -/
theorem closure_is_reach (succ : Ent → List Ent) (roots : List Ent) (fuel : Nat)
    (hdone : (closureSt succ fuel roots []).1 = []) :
    ∀ x, x ∈ closure succ fuel roots [] ↔ Reach succ roots x := by
  have inv := winv_run succ roots fuel roots [] (winv_init succ roots)
  rw [hdone] at inv
  intro x
  rw [closure_eq_st]
  constructor
  · intro hx; exact inv.sound x (Or.inl hx)
  · intro hr
    induction hr with
    | root y hy =>
      rcases inv.roots_in y hy with h | h
      · exact h
      · cases h
    | step y z _ hz ih =>
      rcases inv.closed y ih z hz with h | h
      · exact h
      · cases h

end Walrus

namespace Walrus

/-- the finished worklist is closed under the successor relation -/
theorem closure_closed (succ : Ent → List Ent) (roots : List Ent) (fuel : Nat)
    (hdone : (closureSt succ fuel roots []).1 = []) (x y : Ent)
    (hx : x ∈ closure succ fuel roots []) (hy : y ∈ succ x) : y ∈ closure succ fuel roots [] :=
  (closure_is_reach succ roots fuel hdone y).2
    (Reach.step x y ((closure_is_reach succ roots fuel hdone x).1 hx) hy)

theorem closure_roots (succ : Ent → List Ent) (roots : List Ent) (fuel : Nat)
    (hdone : (closureSt succ fuel roots []).1 = []) (x : Ent) (hx : x ∈ roots) :
    x ∈ closure succ fuel roots [] :=
  (closure_is_reach succ roots fuel hdone x).2 (Reach.root x hx)

theorem usedFinished_done (g : GcInfo) (h : usedFinished g = true) :
    (closureSt (gcSucc g) (universeSize g * universeSize g + 16) (gcRoots g).eraseDups []).1 = [] := by
  simpa [usedFinished] using h

theorem mem_usedSet_of_closure (g : GcInfo) (x : Ent)
    (h : x ∈ closure (gcSucc g) (universeSize g * universeSize g + 16) (gcRoots g).eraseDups []) :
    x ∈ usedSet g := by
  unfold usedSet; simp only; split
  · exact List.mem_append_left _ h
  · exact h

/-- the used set contains every root -/
theorem usedSet_roots (g : GcInfo) (hd : usedFinished g = true) (x : Ent) (hx : x ∈ gcRoots g) :
    x ∈ usedSet g :=
  mem_usedSet_of_closure g x (closure_roots _ _ _ (usedFinished_done g hd) x (mem_eraseDups.2 hx))

/-- the used set is closed under the successor relation the code scans, up to the residue memory's
    own successors (the residue is added after the worklist has run) -/
theorem usedSet_closed (g : GcInfo) (hd : usedFinished g = true) (x y : Ent)
    (hx : x ∈ closure (gcSucc g) (universeSize g * universeSize g + 16) (gcRoots g).eraseDups [])
    (hy : y ∈ gcSucc g x) : y ∈ usedSet g :=
  mem_usedSet_of_closure g y (closure_closed _ _ _ (usedFinished_done g hd) x y hx hy)

/-- lookups in a compaction map succeed exactly on what was kept -/
theorem assoc_zipIdx_some (l : List Nat) (k i : Nat) (h : i ∈ l) :
    (assoc ((l.zipIdx k).map fun p => (p.1, p.2)) i).isSome = true := by
  induction l generalizing k with
  | nil => cases h
  | cons a r ih =>
    simp only [List.zipIdx_cons, List.map_cons, assoc]
    split
    · rfl
    · rename_i hne
      rcases List.mem_cons.1 h with rfl | h
      · exact absurd rfl hne
      · exact ih (k + 1) h

theorem assoc_compact_some (kept : List Nat) (i : Nat) (h : i ∈ kept) :
    (assoc (compact kept) i).isSome = true := assoc_zipIdx_some kept 0 i h

theorem assoc_zipIdx_none (l : List Nat) (k i : Nat) (h : i ∉ l) :
    assoc ((l.zipIdx k).map fun p => (p.1, p.2)) i = none := by
  induction l generalizing k with
  | nil => rfl
  | cons a r ih =>
    simp only [List.zipIdx_cons, List.map_cons, assoc]
    split
    · rename_i he; subst he; exact absurd List.mem_cons_self h
    · exact ih (k + 1) (fun hh => h (List.mem_cons_of_mem _ hh))

theorem mem_keptOf (u : List Ent) (sp : String) (n i : Nat) :
    i ∈ keptOf u sp n ↔ i < n ∧ (sp, i) ∈ u := by
  simp [keptOf]

end Walrus
