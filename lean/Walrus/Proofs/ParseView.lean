import Walrus.Proofs.ParseTree

/-!
Every parsed body has a tree view (`ViewL`, the hypothesis of the traversal and emission theorems):
the tree is computed from the source by `treeL`, its top-level instruction list is what `expL`
appends to the current sequence, and every nested sequence it names is in the arena where `expL`
puts it.
-/
namespace Walrus

def leafTL : List (BInstr × Nat) → TL LSeqTy LInstr
  | [] => .nil
  | i :: r => .cons (.leaf i) (leafTL r)

def TL.app {σ ι : Type} : TL σ ι → TL σ ι → TL σ ι
  | .nil, b => b
  | .cons h t, b => .cons h (TL.app t b)

theorem TL.app_toList {σ ι : Type} : (a b : TL σ ι) → (TL.app a b).toList = a.toList ++ b.toList
  | .nil, b => by simp [TL.app, TL.toList]
  | .cons h t, b => by simp [TL.app, TL.toList, TL.app_toList t b]

theorem ViewL_app {σ ι : Type} (ar : TArena σ ι) : (a b : TL σ ι) → ViewL ar a → ViewL ar b → ViewL ar (TL.app a b)
  | .nil, _, _, hb => hb
  | .cons h t, b, ha, hb => by
    cases ha with
    | cons _ _ hh ht => exact ViewL.cons h _ hh (ViewL_app ar t b ht hb)

mutual
def treeI (e : PEnv) (ids : List Nat) (next : Nat) (unr : Bool) : PI → Option (TL LSeqTy LInstr)
  | .op o loc => (leafEffect e ids unr o loc).map fun r => leafTL r.1
  | .blk o loc b endLoc =>
    match (btOf o).bind (seqTyOfBt e), treeL e (next :: ids) (next + 1) false b with
    | some ty, some bt =>
      some (if unr then .nil else
        .cons (.one ((if o.name = "Block" then BInstr.block next else BInstr.loop next), loc) next (ty, endLoc) bt) .nil)
    | _, _ => none
  | .if1 o loc t endLoc =>
    match (btOf o).bind (seqTyOfBt e), expL e (next :: ids) (next + 1) false t, treeL e (next :: ids) (next + 1) false t with
    | some ty, some (_, tc, _), some tt =>
      let alt := next + 1 + tc.length
      some (if unr then .nil else
        .cons (.two (BInstr.ifElse next alt, loc) next (ty, endLoc) tt alt (ty, defaultLoc) .nil) .nil)
    | _, _, _ => none
  | .if2 o loc t elseLoc el endLoc =>
    match (btOf o).bind (seqTyOfBt e), expL e (next :: ids) (next + 1) false t, treeL e (next :: ids) (next + 1) false t with
    | some ty, some (_, tc, _), some tt =>
      let alt := next + 1 + tc.length
      match treeL e (alt :: ids) (alt + 1) false el with
      | some te =>
        some (if unr then .nil else
          .cons (.two (BInstr.ifElse next alt, loc) next (ty, elseLoc) tt alt (ty, endLoc) te) .nil)
      | none => none
    | _, _, _ => none
def treeL (e : PEnv) (ids : List Nat) (next : Nat) (unr : Bool) : PL → Option (TL LSeqTy LInstr)
  | .nil => some .nil
  | .cons h t =>
    match expI e ids next unr h, treeI e ids next unr h with
    | some (_, c1, u1), some t1 =>
      (treeL e ids (next + c1.length) u1 t).map fun t2 => TL.app t1 t2
    | _, _ => none
end

theorem toArena_get_aux (seqs : List PSeq) (k s : Nat) :
    TArena.get? ((seqs.zipIdx k).map fun p => (p.2, (p.1.ty, p.1.fin), p.1.instrs.map bT)) (k + s) =
      (seqs[s]?).map fun q => ((q.ty, q.fin), q.instrs.map bT) := by
  induction seqs generalizing k s with
  | nil => simp [TArena.get?]
  | cons a r ih =>
    simp only [List.zipIdx_cons, List.map_cons, TArena.get?]
    cases s with
    | zero => simp
    | succ s' =>
      have : ¬ k = k + (s' + 1) := by omega
      simp only [this, if_false]
      have := ih (k + 1) s'
      rw [show k + 1 + s' = k + (s' + 1) by omega] at this
      simpa using this

theorem toArena_get (seqs : List PSeq) (s : Nat) :
    (PSeqs.toArena seqs).get? s = (seqs[s]?).map fun q => ((q.ty, q.fin), q.instrs.map bT) := by
  have := toArena_get_aux seqs 0 s
  simpa [PSeqs.toArena] using this

theorem leafTL_toList (l : List (BInstr × Nat)) (hk : ∀ i ∈ l, i.1.kids = []) :
    (leafTL l).toList = l.map bT := by
  induction l with
  | nil => rfl
  | cons a r ih =>
    simp only [leafTL, TL.toList, TI.toInstr, List.map_cons, bT]
    rw [ih (fun i hi => hk i (List.mem_cons_of_mem _ hi)), hk a List.mem_cons_self]

theorem ViewL_leafTL (ar : TArena LSeqTy LInstr) (l : List (BInstr × Nat)) : ViewL ar (leafTL l) := by
  induction l with
  | nil => exact ViewL.nil
  | cons a r ih => exact ViewL.cons _ _ (ViewI.leaf a) ih


theorem leafEffect_kids (e : PEnv) (ids : List Nat) (unr : Bool) (o : Op) (loc : Nat)
    (is : List (BInstr × Nat)) (u : Bool) (h : leafEffect e ids unr o loc = some (is, u)) :
    ∀ i ∈ is, i.1.kids = [] := by
  have key : ∀ (b : BInstr), b.kids = [] → ∀ i ∈ (if unr then [] else [(b, loc)]), i.1.kids = [] := by
    intro b hb i hi
    split at hi
    · cases hi
    · simp only [List.mem_singleton] at hi; subst hi; exact hb
  unfold leafEffect at h
  by_cases hb : o.name = "Br"
  · simp only [hb, if_true] at h
    split at h
    · rename_i n hl
      cases hid : ids[n]? with
      | none => simp [hid] at h
      | some b =>
        simp only [hid, Option.map_some, Option.some.injEq, Prod.mk.injEq] at h
        obtain ⟨rfl, _⟩ := h
        exact key _ rfl
    · simp at h
  · by_cases hbi : o.name = "BrIf"
    · simp only [hbi, if_true, show ¬ ("BrIf" = "Br") by decide, if_false] at h
      split at h
      · rename_i n hl
        cases hid : ids[n]? with
        | none => simp [hid] at h
        | some b =>
          simp only [hid, Option.map_some, Option.some.injEq, Prod.mk.injEq] at h
          obtain ⟨rfl, _⟩ := h
          exact key _ rfl
      · simp at h
    · by_cases hbt : o.name = "BrTable"
      · simp only [hbt, if_true, show ¬ ("BrTable" = "Br") by decide, show ¬ ("BrTable" = "BrIf") by decide, if_false] at h
        split at h
        · rename_i d ts hl
          cases hd : ids[d]? with
          | none => simp [hd] at h
          | some dd =>
            cases ht : ts.reverse.mapM (fun n => ids[n]?) with
            | none => simp [hd, ht] at h
            | some tts =>
              simp only [hd, ht, Option.some.injEq, Prod.mk.injEq] at h
              obtain ⟨rfl, _⟩ := h
              exact key _ rfl
        · simp at h
      · by_cases hr : o.name = "Return" ∨ o.name = "Unreachable"
        · have hr' : (o.name = "Return" || o.name = "Unreachable") = true := by simpa using hr
          simp only [hb, hbi, hbt, hr', if_false, if_true, Option.some.injEq, Prod.mk.injEq] at h
          obtain ⟨rfl, _⟩ := h
          exact key _ rfl
        · have hr' : (o.name = "Return" || o.name = "Unreachable") = false := by simpa using hr
          by_cases hn : o.name = "Nop"
          · simp only [hb, hbi, hbt, hr', hn, if_false, if_true, Option.some.injEq, Prod.mk.injEq, Bool.false_eq_true] at h
            obtain ⟨rfl, _⟩ := h
            intro i hi; cases hi
          · simp only [hb, hbi, hbt, hr', hn, if_false, Bool.false_eq_true] at h
            cases ha : pMapArgs e (wrapOffsets o.args) with
            | none => simp [ha] at h
            | some a =>
              simp only [ha, Option.map_some, Option.some.injEq, Prod.mk.injEq] at h
              obtain ⟨rfl, _⟩ := h
              exact key _ rfl

theorem getElem_mid (front : List PSeq) (x : PSeq) (r back : List PSeq) :
    (front ++ (x :: r) ++ back)[front.length]? = some x := by
  simp

mutual
theorem view_I (e : PEnv) : (i : PI) → ∀ (ids : List Nat) (next : Nat) (unr : Bool)
    (is : List (BInstr × Nat)) (cs : List PSeq) (u : Bool),
    expI e ids next unr i = some (is, cs, u) →
    ∃ t, treeI e ids next unr i = some t ∧ t.toList = is.map bT ∧
      ∀ (front back : List PSeq), front.length = next → ViewL (PSeqs.toArena (front ++ cs ++ back)) t
  | .op o loc, ids, next, unr, is, cs, u, h => by
      simp only [expI] at h
      cases hl : leafEffect e ids unr o loc with
      | none => simp [hl] at h
      | some r =>
        obtain ⟨ri, ru⟩ := r
        simp only [hl, Option.map_some, Option.some.injEq, Prod.mk.injEq] at h
        obtain ⟨rfl, rfl, rfl⟩ := h
        refine ⟨leafTL ri, by simp [treeI, hl], leafTL_toList ri (leafEffect_kids e ids unr o loc ri ru hl), ?_⟩
        intro front back _
        exact ViewL_leafTL _ ri
  | .blk o loc b endLoc, ids, next, unr, is, cs, u, h => by
      simp only [expI] at h
      cases hty : (btOf o).bind (seqTyOfBt e) with
      | none => simp [hty] at h
      | some ty =>
        simp only [hty] at h
        cases hx : expL e (next :: ids) (next + 1) false b with
        | none => simp [hx] at h
        | some r =>
          obtain ⟨bi, bc, bu⟩ := r
          simp only [hx, Option.some.injEq, Prod.mk.injEq] at h
          obtain ⟨rfl, rfl, rfl⟩ := h
          obtain ⟨bt, hbt, hbl, hbv⟩ := view_L e b (next :: ids) (next + 1) false bi bc bu hx
          cases hu : unr with
          | true =>
            exact ⟨.nil, by simp [treeI, hty, hbt], by simp [TL.toList], fun _ _ _ => ViewL.nil⟩
          | false =>
            refine ⟨_, by simp [treeI, hty, hbt]; rfl, ?_, ?_⟩
            · simp only [TL.toList, TI.toInstr, Bool.false_eq_true, if_false, List.map_cons, List.map_nil, bT]
              split <;> simp [BInstr.kids]
            · intro front back hf
              refine ViewL.cons _ _ (ViewI.one _ _ _ _ ?_ ?_) ViewL.nil
              · rw [toArena_get, ← hf, getElem_mid]
                simp [hbl]
              · have := hbv (front ++ [⟨ty, bi, endLoc⟩]) back (by simp [hf])
                simpa using this
  | .if1 o loc t endLoc, ids, next, unr, is, cs, u, h => by
      simp only [expI] at h
      cases hty : (btOf o).bind (seqTyOfBt e) with
      | none => simp [hty] at h
      | some ty =>
        simp only [hty] at h
        cases hx : expL e (next :: ids) (next + 1) false t with
        | none => simp [hx] at h
        | some r =>
          obtain ⟨ti, tc, tu⟩ := r
          simp only [hx, Option.some.injEq, Prod.mk.injEq] at h
          obtain ⟨rfl, rfl, rfl⟩ := h
          obtain ⟨tt, htt, htl, htv⟩ := view_L e t (next :: ids) (next + 1) false ti tc tu hx
          cases hu : unr with
          | true =>
            exact ⟨.nil, by simp [treeI, hty, hx, htt], by simp [TL.toList], fun _ _ _ => ViewL.nil⟩
          | false =>
            refine ⟨_, by simp [treeI, hty, hx, htt]; rfl, ?_, ?_⟩
            · simp [TL.toList, TI.toInstr, bT, BInstr.kids]
            · intro front back hf
              refine ViewL.cons _ _ (ViewI.two _ _ _ _ _ _ _ ?_ ?_ ?_ ViewL.nil) ViewL.nil
              · rw [toArena_get, ← hf, getElem_mid]
                simp [htl]
              · rw [toArena_get]
                have : (front ++ (⟨ty, ti, endLoc⟩ :: (tc ++ [⟨ty, [], defaultLoc⟩])) ++ back)[next + 1 + tc.length]? =
                    some ⟨ty, [], defaultLoc⟩ := by
                  have e1 : front ++ (⟨ty, ti, endLoc⟩ :: (tc ++ [⟨ty, [], defaultLoc⟩])) ++ back =
                      (front ++ ⟨ty, ti, endLoc⟩ :: tc) ++ (⟨ty, [], defaultLoc⟩ :: []) ++ back := by simp
                  rw [e1]
                  have e2 : next + 1 + tc.length = (front ++ ⟨ty, ti, endLoc⟩ :: tc).length := by simp [hf]; omega
                  rw [e2, getElem_mid]
                rw [this]; simp [TL.toList]
              · have := htv (front ++ [⟨ty, ti, endLoc⟩]) ([⟨ty, [], defaultLoc⟩] ++ back) (by simp [hf])
                simpa using this
  | .if2 o loc t elseLoc el endLoc, ids, next, unr, is, cs, u, h => by
      simp only [expI] at h
      cases hty : (btOf o).bind (seqTyOfBt e) with
      | none => simp [hty] at h
      | some ty =>
        simp only [hty] at h
        cases hx : expL e (next :: ids) (next + 1) false t with
        | none => simp [hx] at h
        | some r =>
          obtain ⟨ti, tc, tu⟩ := r
          simp only [hx] at h
          cases hy : expL e ((next + 1 + tc.length) :: ids) (next + 1 + tc.length + 1) false el with
          | none => simp [hy] at h
          | some r2 =>
            obtain ⟨ei, ec, eu⟩ := r2
            simp only [hy, Option.some.injEq, Prod.mk.injEq] at h
            obtain ⟨rfl, rfl, rfl⟩ := h
            obtain ⟨tt, htt, htl, htv⟩ := view_L e t (next :: ids) (next + 1) false ti tc tu hx
            obtain ⟨te, hte, hel, hev⟩ := view_L e el ((next + 1 + tc.length) :: ids) (next + 1 + tc.length + 1) false ei ec eu hy
            cases hu : unr with
            | true =>
              exact ⟨.nil, by simp [treeI, hty, hx, htt, hte], by simp [TL.toList], fun _ _ _ => ViewL.nil⟩
            | false =>
              refine ⟨_, by simp [treeI, hty, hx, htt, hte]; rfl, ?_, ?_⟩
              · simp [TL.toList, TI.toInstr, bT, BInstr.kids]
              · intro front back hf
                refine ViewL.cons _ _ (ViewI.two _ _ _ _ _ _ _ ?_ ?_ ?_ ?_) ViewL.nil
                · rw [toArena_get, ← hf, getElem_mid]
                  simp [htl]
                · rw [toArena_get]
                  have : (front ++ (⟨ty, ti, elseLoc⟩ :: (tc ++ ⟨ty, ei, endLoc⟩ :: ec)) ++ back)[next + 1 + tc.length]? =
                      some ⟨ty, ei, endLoc⟩ := by
                    have e1 : front ++ (⟨ty, ti, elseLoc⟩ :: (tc ++ ⟨ty, ei, endLoc⟩ :: ec)) ++ back =
                        (front ++ ⟨ty, ti, elseLoc⟩ :: tc) ++ (⟨ty, ei, endLoc⟩ :: ec) ++ back := by simp
                    rw [e1]
                    have e2 : next + 1 + tc.length = (front ++ ⟨ty, ti, elseLoc⟩ :: tc).length := by simp [hf]; omega
                    rw [e2, getElem_mid]
                  rw [this]; simp [hel]
                · have := htv (front ++ [⟨ty, ti, elseLoc⟩]) ((⟨ty, ei, endLoc⟩ :: ec) ++ back) (by simp [hf])
                  simpa using this
                · have := hev (front ++ ⟨ty, ti, elseLoc⟩ :: tc ++ [⟨ty, ei, endLoc⟩]) back (by simp [hf]; omega)
                  simpa using this
theorem view_L (e : PEnv) : (l : PL) → ∀ (ids : List Nat) (next : Nat) (unr : Bool)
    (is : List (BInstr × Nat)) (cs : List PSeq) (u : Bool),
    expL e ids next unr l = some (is, cs, u) →
    ∃ t, treeL e ids next unr l = some t ∧ t.toList = is.map bT ∧
      ∀ (front back : List PSeq), front.length = next → ViewL (PSeqs.toArena (front ++ cs ++ back)) t
  | .nil, ids, next, unr, is, cs, u, h => by
      simp only [expL, Option.some.injEq, Prod.mk.injEq] at h
      obtain ⟨rfl, rfl, rfl⟩ := h
      exact ⟨.nil, by simp [treeL], by simp [TL.toList], fun _ _ _ => ViewL.nil⟩
  | .cons hd tl, ids, next, unr, is, cs, u, h => by
      simp only [expL] at h
      cases hx : expI e ids next unr hd with
      | none => simp [hx] at h
      | some r =>
        obtain ⟨i1, c1, u1⟩ := r
        simp only [hx] at h
        cases hy : expL e ids (next + c1.length) u1 tl with
        | none => simp [hy] at h
        | some r2 =>
          obtain ⟨i2, c2, u2⟩ := r2
          simp only [hy, Option.some.injEq, Prod.mk.injEq] at h
          obtain ⟨rfl, rfl, rfl⟩ := h
          obtain ⟨t1, ht1, hl1, hv1⟩ := view_I e hd ids next unr i1 c1 u1 hx
          obtain ⟨t2, ht2, hl2, hv2⟩ := view_L e tl ids (next + c1.length) u1 i2 c2 u2 hy
          refine ⟨TL.app t1 t2, by simp [treeL, hx, ht1, ht2], by simp [TL.app_toList, hl1, hl2], ?_⟩
          intro front back hf
          apply ViewL_app
          · have := hv1 front (c2 ++ back) hf
            simpa using this
          · have := hv2 (front ++ c1) back (by simp [hf])
            simpa using this
end

/-- **every parsed body has a tree view**: the arena built by `LocalFunction::parse` for a
    well-nested body is the tree `treeL` computes from the source, with the entry sequence holding
    its top-level instruction list — the hypotheses of the traversal theorem (C16) and of the
    emission theorem (C03) hold of every parsed function -/
theorem parsed_body_has_tree_view (e : PEnv) (entryTy : Nat) (body : PL) (hw : body.WF) (endLoc : Nat)
    (is : List (BInstr × Nat)) (cs : List PSeq) (u : Bool)
    (h : expL e [0] 1 false body = some (is, cs, u)) :
    ∃ seqs t, buildBody e entryTy (body.flat ++ [(opEnd, endLoc)]) = some seqs ∧
      treeL e [0] 1 false body = some t ∧
      (PSeqs.toArena seqs).get? 0 = some ((SeqTy.multi entryTy, endLoc), t.toList) ∧
      ViewL (PSeqs.toArena seqs) t := by
  obtain ⟨t, ht, hl, hv⟩ := view_L e body [0] 1 false is cs u h
  refine ⟨_, t, buildBody_eq e entryTy body hw endLoc is cs u h, ht, ?_, ?_⟩
  · rw [toArena_get]; simp [hl]
  · have := hv [⟨.multi entryTy, is, endLoc⟩] [] rfl
    simpa using this

end Walrus
