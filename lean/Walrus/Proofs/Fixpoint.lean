import Walrus.Rename
import Walrus.Code

/-! Components of the round-trip fixpoint (C08): what the round trip does once, it does not do again. -/
namespace Walrus

open Walrus.Sem in
mutual
theorem elide_idem_I : (i : SI) → i.elide.elide = i.elide
  | .op o => by simp [SI.elide]
  | .block bt b => by simp [SI.elide, elide_idem_L b]
  | .loop bt b => by simp [SI.elide, elide_idem_L b]
  | .ite bt t e => by simp [SI.elide, elide_idem_L t, elide_idem_L e]
theorem elide_idem_L : (l : SL) → l.elide.elide = l.elide
  | .nil => by simp [SL.elide]
  | .cons (.op o) t => by
      simp only [SL.elide]
      split
      · exact elide_idem_L t
      · split
        · rename_i hn he
          simp [SL.elide, hn, he]
        · rename_i hn he
          simp [SL.elide, hn, he, elide_idem_L t]
  | .cons (.block bt b) t => by simp [SL.elide, SI.elide, elide_idem_L b, elide_idem_L t]
  | .cons (.loop bt b) t => by simp [SL.elide, SI.elide, elide_idem_L b, elide_idem_L t]
  | .cons (.ite bt a e) t => by simp [SL.elide, SI.elide, elide_idem_L a, elide_idem_L e, elide_idem_L t]
end

theorem foldl_distinct_nodup_aux (l : List Sig) : ∀ (acc : List Sig), acc.Nodup →
    (l.foldl (fun seen s => if seen.contains s then seen else seen ++ [s]) acc).Nodup := by
  induction l with
  | nil => intro acc h; simpa using h
  | cons a r ih =>
    intro acc h
    simp only [List.foldl_cons]
    by_cases hc : acc.contains a
    · simp only [hc, if_true]; exact ih acc h
    · simp only [hc, Bool.false_eq_true, if_false]
      apply ih
      rw [List.nodup_append]
      refine ⟨h, by simp, ?_⟩
      intro x hx y hy
      simp only [List.mem_singleton] at hy
      subst hy
      intro hxy
      subst hxy
      exact hc (by simpa using hx)

theorem distinctSigs_nodup (l : List Sig) : (distinctSigs l).Nodup :=
  foldl_distinct_nodup_aux l [] List.nodup_nil

theorem foldl_distinct_of_nodup (l : List Sig) : ∀ (acc : List Sig), (acc ++ l).Nodup →
    l.foldl (fun seen s => if seen.contains s then seen else seen ++ [s]) acc = acc ++ l := by
  induction l with
  | nil => intro acc _; simp
  | cons a r ih =>
    intro acc h
    simp only [List.foldl_cons]
    have hna : ¬ acc.contains a = true := by
      intro hc
      have ha : a ∈ acc := by simpa using hc
      rw [List.nodup_append] at h
      exact h.2.2 a ha a List.mem_cons_self rfl
    simp only [hna, Bool.false_eq_true, if_false]
    have := ih (acc ++ [a]) (by simpa using h)
    simpa using this

/-- de-duplication of the type section is idempotent: re-parsing the output's (already distinct)
    types merges nothing -/
theorem distinctSigs_idem (l : List Sig) : distinctSigs (distinctSigs l) = distinctSigs l := by
  have := foldl_distinct_of_nodup (distinctSigs l) [] (by simpa using distinctSigs_nodup l)
  simpa [distinctSigs] using this


/-- adjacent elements are in order -/
def SortedBy {α : Type} (le : α → α → Bool) : List α → Prop
  | [] => True
  | [_] => True
  | a :: b :: r => le a b = true ∧ SortedBy le (b :: r)

theorem sortBy_of_sorted {α : Type} (le : α → α → Bool) : ∀ (l : List α), SortedBy le l → sortBy le l = l
  | [], _ => rfl
  | [a], _ => by simp [sortBy, insertBy]
  | a :: b :: r, h => by
    have ih := sortBy_of_sorted le (b :: r) h.2
    simp only [sortBy, List.foldr_cons] at ih ⊢
    rw [ih]
    simp [insertBy, h.1]

theorem insertBy_sorted {α : Type} (le : α → α → Bool) (total : ∀ a b, le a b = false → le b a = true) (x : α) :
    ∀ (l : List α), SortedBy le l → SortedBy le (insertBy le x l)
  | [], _ => by simp [insertBy, SortedBy]
  | [a], _ => by
    simp only [insertBy]
    split
    · rename_i h; exact ⟨h, trivial⟩
    · rename_i h
      exact ⟨total x a (by simpa using h), trivial⟩
  | a :: b :: r, h => by
    simp only [insertBy]
    split
    · rename_i hxa; exact ⟨hxa, h⟩
    · rename_i hxa
      have hax := total x a (by simpa using hxa)
      have ih := insertBy_sorted le total x (b :: r) h.2
      simp only [insertBy] at ih ⊢
      split
      · rename_i hxb
        simp only [hxb, if_true] at ih
        exact ⟨hax, ih⟩
      · rename_i hxb
        simp only [hxb, if_false, Bool.false_eq_true] at ih
        exact ⟨h.1, ih⟩

theorem sortBy_sorted {α : Type} (le : α → α → Bool) (total : ∀ a b, le a b = false → le b a = true) :
    ∀ (l : List α), SortedBy le (sortBy le l)
  | [] => trivial
  | a :: r => by
    simp only [sortBy, List.foldr_cons]
    exact insertBy_sorted le total a _ (sortBy_sorted le total r)

/-- **sorting is idempotent** for every total comparison: the order in which walrus emits types and
    functions is already what a second round trip would choose -/
theorem sortBy_idem {α : Type} (le : α → α → Bool) (total : ∀ a b, le a b = false → le b a = true) (l : List α) :
    sortBy le (sortBy le l) = sortBy le l :=
  sortBy_of_sorted le _ (sortBy_sorted le total l)

/-- the comparison that orders emitted functions (size descending, then id) is total -/
theorem funcOrder_total (a b : Nat × Nat) :
    (fun (a b : Nat × Nat) => decide (a.2 > b.2) || (a.2 == b.2 && decide (a.1 ≤ b.1))) a b = false →
    (fun (a b : Nat × Nat) => decide (a.2 > b.2) || (a.2 == b.2 && decide (a.1 ≤ b.1))) b a = true := by
  simp only [Bool.or_eq_false_iff, decide_eq_false_iff_not, Bool.and_eq_false_iff, Bool.or_eq_true,
    decide_eq_true_eq, Bool.and_eq_true, beq_iff_eq, beq_eq_false_iff_ne]
  intro ⟨h1, h2⟩
  rcases Nat.lt_or_ge a.2 b.2 with h | h
  · exact Or.inl h
  · have : a.2 = b.2 := by omega
    rcases h2 with h2 | h2
    · exact absurd this h2
    · exact Or.inr ⟨this.symm, by omega⟩

theorem takeWhile_idem {α : Type} (p : α → Bool) (l : List α) : (l.takeWhile p).takeWhile p = l.takeWhile p := by
  induction l with
  | nil => rfl
  | cons a t ih =>
    by_cases h : p a
    · simp [h, ih]
    · simp [h]

end Walrus
