import Walrus.Proofs.Steps
import Walrus.Proofs.RoundTripBody
import Walrus.Props.C02
import Walrus.Props.C03

/-!
Emission of a parsed body is total: the fuel the model gives the traversal is enough for every
parsed body (`parsed_fuel_suffices`), and the `Emit` visitor fails on a parsed body only if one of
the id → index lookups it makes fails (`parsed_body_emits`): branch targets always resolve, the
block-kind stack never underflows.
-/
namespace Walrus

/-- loop iterations the sequences `cs` cost: one per instruction and one per sequence -/
def wt (cs : List PSeq) : Nat := (cs.map (fun q => q.instrs.length + 1)).sum

theorem wt_cons (q : PSeq) (cs : List PSeq) : wt (q :: cs) = q.instrs.length + 1 + wt cs := by simp [wt]
theorem wt_append (a b : List PSeq) : wt (a ++ b) = wt a + wt b := by simp [wt]
theorem wt_nil : wt [] = 0 := rfl

theorem costL_app {σ ι : Type} : (a b : TL σ ι) → costL (TL.app a b) = costL a + costL b
  | .nil, b => by simp [TL.app, costL]
  | .cons h t, b => by simp [TL.app, costL, costL_app t b]; omega

theorem costL_leafTL : (l : List (BInstr × Nat)) → costL (leafTL l) = l.length
  | [] => by simp [leafTL, costL]
  | i :: r => by simp [leafTL, costL, costI, costL_leafTL r]; omega

mutual
theorem cost_I (e : PEnv) : (i : PI) → ∀ (ids : List Nat) (next : Nat) (unr : Bool)
    (is : List (BInstr × Nat)) (cs : List PSeq) (u : Bool) (t : TL LSeqTy LInstr),
    expI e ids next unr i = some (is, cs, u) → treeI e ids next unr i = some t →
    costL t ≤ is.length + wt cs
  | .op o loc, ids, next, unr, is, cs, u, t, h, ht => by
      simp only [expI] at h
      cases hl : leafEffect e ids unr o loc with
      | none => simp [hl] at h
      | some r =>
        obtain ⟨ri, ru⟩ := r
        simp only [hl, Option.map_some, Option.some.injEq, Prod.mk.injEq] at h
        obtain ⟨rfl, rfl, rfl⟩ := h
        simp only [treeI, hl, Option.map_some, Option.some.injEq] at ht
        subst ht
        simp [costL_leafTL]
  | .blk o loc b endLoc, ids, next, unr, is, cs, u, t, h, ht => by
      simp only [expI] at h
      cases hty : (btOf o).bind (seqTyOfBt e) with
      | none => simp [hty] at h
      | some ty =>
        simp only [hty] at h
        cases hx : expL e (next :: ids) (next + 1) false b with
        | none => simp [hx] at h
        | some r =>
          obtain ⟨bi, bc, bu⟩ := r
          simp only [hx, Option.some.injEq, Prod.mk.injEq] at h
          obtain ⟨rfl, rfl, rfl⟩ := h
          cases hbt : treeL e (next :: ids) (next + 1) false b with
          | none => simp [treeI, hty, hbt] at ht
          | some bt =>
            have ih := cost_L e b (next :: ids) (next + 1) false bi bc bu bt hx hbt
            simp only [treeI, hty, hbt, Option.some.injEq] at ht
            subst ht
            cases unr with
            | true => simp [costL]
            | false =>
              simp only [Bool.false_eq_true, if_false, costL, costI, List.length_cons, List.length_nil, wt_cons]
              omega
  | .if1 o loc tb endLoc, ids, next, unr, is, cs, u, t, h, ht => by
      simp only [expI] at h
      cases hty : (btOf o).bind (seqTyOfBt e) with
      | none => simp [hty] at h
      | some ty =>
        simp only [hty] at h
        cases hx : expL e (next :: ids) (next + 1) false tb with
        | none => simp [hx] at h
        | some r =>
          obtain ⟨ti, tc, tu⟩ := r
          simp only [hx, Option.some.injEq, Prod.mk.injEq] at h
          obtain ⟨rfl, rfl, rfl⟩ := h
          cases htt : treeL e (next :: ids) (next + 1) false tb with
          | none => simp [treeI, hty, hx, htt] at ht
          | some tt =>
            have ih := cost_L e tb (next :: ids) (next + 1) false ti tc tu tt hx htt
            simp only [treeI, hty, hx, htt, Option.some.injEq] at ht
            subst ht
            cases unr with
            | true => simp [costL]
            | false =>
              simp only [Bool.false_eq_true, if_false, costL, costI, List.length_cons, List.length_nil, wt_cons,
                wt_append, wt_nil]
              omega
  | .if2 o loc tb elseLoc el endLoc, ids, next, unr, is, cs, u, t, h, ht => by
      simp only [expI] at h
      cases hty : (btOf o).bind (seqTyOfBt e) with
      | none => simp [hty] at h
      | some ty =>
        simp only [hty] at h
        cases hx : expL e (next :: ids) (next + 1) false tb with
        | none => simp [hx] at h
        | some r =>
          obtain ⟨ti, tc, tu⟩ := r
          simp only [hx] at h
          cases hy : expL e ((next + 1 + tc.length) :: ids) (next + 1 + tc.length + 1) false el with
          | none => simp [hy] at h
          | some r2 =>
            obtain ⟨ei, ec, eu⟩ := r2
            simp only [hy, Option.some.injEq, Prod.mk.injEq] at h
            obtain ⟨rfl, rfl, rfl⟩ := h
            cases htt : treeL e (next :: ids) (next + 1) false tb with
            | none => simp [treeI, hty, hx, htt] at ht
            | some tt =>
              cases hte : treeL e ((next + 1 + tc.length) :: ids) (next + 1 + tc.length + 1) false el with
              | none => simp [treeI, hty, hx, htt, hte] at ht
              | some te =>
                have ih1 := cost_L e tb (next :: ids) (next + 1) false ti tc tu tt hx htt
                have ih2 := cost_L e el _ _ false ei ec eu te hy hte
                simp only [treeI, hty, hx, htt, hte, Option.some.injEq] at ht
                subst ht
                cases unr with
                | true => simp [costL]
                | false =>
                  simp only [Bool.false_eq_true, if_false, costL, costI, List.length_cons, List.length_nil, wt_cons,
                    wt_append]
                  omega
theorem cost_L (e : PEnv) : (l : PL) → ∀ (ids : List Nat) (next : Nat) (unr : Bool)
    (is : List (BInstr × Nat)) (cs : List PSeq) (u : Bool) (t : TL LSeqTy LInstr),
    expL e ids next unr l = some (is, cs, u) → treeL e ids next unr l = some t →
    costL t ≤ is.length + wt cs
  | .nil, ids, next, unr, is, cs, u, t, h, ht => by
      simp only [treeL, Option.some.injEq] at ht
      subst ht
      simp [costL]
  | .cons hd tl, ids, next, unr, is, cs, u, t, h, ht => by
      simp only [expL] at h
      cases hx : expI e ids next unr hd with
      | none => simp [hx] at h
      | some r =>
        obtain ⟨i1, c1, u1⟩ := r
        simp only [hx] at h
        cases hy : expL e ids (next + c1.length) u1 tl with
        | none => simp [hy] at h
        | some r2 =>
          obtain ⟨i2, c2, u2⟩ := r2
          simp only [hy, Option.some.injEq, Prod.mk.injEq] at h
          obtain ⟨rfl, rfl, rfl⟩ := h
          simp only [treeL, hx] at ht
          cases ht1 : treeI e ids next unr hd with
          | none => simp [ht1] at ht
          | some t1 =>
            simp only [ht1, Option.map_eq_some_iff] at ht
            obtain ⟨t2, ht2, rfl⟩ := ht
            have ih1 := cost_I e hd ids next unr i1 c1 u1 t1 hx ht1
            have ih2 := cost_L e tl ids (next + c1.length) u1 i2 c2 u2 t2 hy ht2
            simp only [costL_app, List.length_append, wt_append]
            omega
end

/-! ### the fuel of the model is enough for every parsed body -/

theorem foldl_fuel (l : BArena) (acc : Nat) :
    l.foldl (fun n p => n + 2 + p.2.2.length) acc = acc + (l.map (fun p => 2 + p.2.2.length)).sum := by
  induction l generalizing acc with
  | nil => simp
  | cons h t ih => simp only [List.foldl_cons, ih, List.map_cons, List.sum_cons]; omega

theorem zipIdx_map_fst {α β : Type} (h : α → β) : ∀ (l : List α) (k : Nat), (l.zipIdx k).map (fun p => h p.1) = l.map h
  | [], _ => rfl
  | a :: r, k => by simp [List.zipIdx_cons, zipIdx_map_fst h r (k + 1)]

theorem arenaFuel_toArena (seqs : List PSeq) :
    arenaFuel (PSeqs.toArena seqs) = 2 * (seqs.map (fun q => 2 + q.instrs.length)).sum + 4 := by
  unfold arenaFuel PSeqs.toArena
  rw [foldl_fuel]
  simp only [List.map_map, Nat.zero_add]
  have : ((fun p : Nat × LSeqTy × List (TInstr LInstr) => 2 + p.2.2.length) ∘
      fun p : PSeq × Nat => (p.2, (p.1.ty, p.1.fin), List.map bT p.1.instrs)) =
      fun p : PSeq × Nat => (fun q : PSeq => 2 + q.instrs.length) p.1 := by
    funext p; simp
  rw [this]
  have h2 := zipIdx_map_fst (fun q : PSeq => 2 + q.instrs.length) seqs 0
  simp only [] at h2 ⊢
  rw [h2]

theorem wt_le (cs : List PSeq) : wt cs ≤ (cs.map (fun q => 2 + q.instrs.length)).sum := by
  induction cs with
  | nil => simp [wt]
  | cons q r ih => simp only [wt_cons, List.map_cons, List.sum_cons]; omega

/-- the traversal of a parsed body finishes within the fuel the model gives it -/
theorem parsed_fuel_suffices (e : PEnv) (body : PL) (is : List (BInstr × Nat)) (cs : List PSeq) (u : Bool)
    (t : TL LSeqTy LInstr) (h : expL e [0] 1 false body = some (is, cs, u)) (ht : treeL e [0] 1 false body = some t)
    (ty : SeqTy) (fin : Nat) :
    costL t + 1 ≤ arenaFuel (PSeqs.toArena (⟨ty, is, fin⟩ :: cs)) := by
  have h1 := cost_L e body [0] 1 false is cs u t h ht
  have h2 := wt_le cs
  rw [arenaFuel_toArena]
  simp only [List.map_cons, List.sum_cons]
  omega

/-! ### the visitor fails on a parsed body only if a lookup fails -/

/-- the lookups the `Emit` visitor makes for one event, as far as a parsed body can ask for them:
    the entity operands of a plain instruction (labels are not entities; every operand id came out
    of the parse-time index → id maps) and the type of a sequence -/
def evOKp (e : PEnv) (m : IdMaps) : EEv → Prop
  | .instr (.leaf op) _ => ∀ sp n, Arg.ref sp n ∈ op.args → sp ≠ "l" → sp ∈ entSpaces →
      (∃ i, e.get sp i = some n) → (m.get sp n).isSome = true
  | .start _ (.multi y) => y ∈ e.types → (assoc m.types y).isSome = true
  | _ => True

theorem pMapArgs_refs (e : PEnv) : ∀ (args a : List Arg), pMapArgs e args = some a →
    ∀ sp n, Arg.ref sp n ∈ a → ∃ i, Arg.ref sp i ∈ args ∧ e.get sp i = some n
  | [], a, h, sp, n, hm => by
      simp only [pMapArgs, Option.some.injEq] at h; subst h; simp at hm
  | .ref sp' i :: r, a, h, sp, n, hm => by
      simp only [pMapArgs] at h
      cases h1 : e.get sp' i with
      | none => simp [h1] at h
      | some id =>
        cases h2 : pMapArgs e r with
        | none => simp [h1, h2] at h
        | some r' =>
          simp only [h1, h2, Option.some.injEq] at h
          subst h
          rcases List.mem_cons.1 hm with heq | hm'
          · injection heq with h3 h4
            subst h3; subst h4
            exact ⟨i, by simp, h1⟩
          · obtain ⟨i', hi', hg⟩ := pMapArgs_refs e r r' h2 sp n hm'
            exact ⟨i', List.mem_cons_of_mem _ hi', hg⟩
  | .num k :: r, a, h, sp, n, hm => by
      simp only [pMapArgs, Option.map_eq_some_iff] at h
      obtain ⟨r', h2, rfl⟩ := h
      rcases List.mem_cons.1 hm with heq | hm'
      · cases heq
      · obtain ⟨i', hi', hg⟩ := pMapArgs_refs e r r' h2 sp n hm'
        exact ⟨i', List.mem_cons_of_mem _ hi', hg⟩
  | .imm k :: r, a, h, sp, n, hm => by
      simp only [pMapArgs, Option.map_eq_some_iff] at h
      obtain ⟨r', h2, rfl⟩ := h
      rcases List.mem_cons.1 hm with heq | hm'
      · cases heq
      · obtain ⟨i', hi', hg⟩ := pMapArgs_refs e r r' h2 sp n hm'
        exact ⟨i', List.mem_cons_of_mem _ hi', hg⟩
  | .bt k :: r, a, h, sp, n, hm => by
      simp only [pMapArgs, Option.map_eq_some_iff] at h
      obtain ⟨r', h2, rfl⟩ := h
      rcases List.mem_cons.1 hm with heq | hm'
      · cases heq
      · obtain ⟨i', hi', hg⟩ := pMapArgs_refs e r r' h2 sp n hm'
        exact ⟨i', List.mem_cons_of_mem _ hi', hg⟩

theorem wrapOffsets_refs (sp : String) (i : Nat) : ∀ (args : List Arg), Arg.ref sp i ∈ wrapOffsets args → Arg.ref sp i ∈ args := by
  intro args
  fun_induction wrapOffsets args with
  | case1 a o k r ih =>
    intro h
    simp only [List.mem_cons] at h ⊢
    rcases h with h | h | h | h
    · cases h
    · cases h
    · exact Or.inr (Or.inr (Or.inl h))
    · exact Or.inr (Or.inr (Or.inr (ih h)))
  | case2 x r _ ih =>
    intro h
    rcases List.mem_cons.1 h with h | h
    · exact List.mem_cons.2 (Or.inl h)
    · exact List.mem_cons_of_mem _ (ih h)
  | case3 => intro h; exact h

theorem penv_get_y (e : PEnv) (i n : Nat) (h : e.get "y" i = some n) : n ∈ e.types := by
  simp only [PEnv.get, show ¬ ("y" = "f") by decide, if_false, if_true] at h
  exact List.mem_of_getElem? h

theorem seqTyOfBt_multi (e : PEnv) (bt : BT) (y : Nat) (h : seqTyOfBt e bt = some (.multi y)) : y ∈ e.types := by
  cases bt with
  | empty => simp [seqTyOfBt] at h
  | val t => simp [seqTyOfBt] at h
  | idx idx =>
    simp only [seqTyOfBt] at h
    cases hs : e.sigs[idx]? with
    | none => simp [hs] at h
    | some pr =>
      obtain ⟨ps, rs⟩ := pr
      simp only [hs] at h
      split at h
      · simp at h
      · simp at h
      · simp only [Option.map_eq_some_iff] at h
        obtain ⟨a, ha, hy⟩ := h
        injection hy with hy
        subst hy
        exact List.mem_of_getElem? ha

theorem bt_multi (e : PEnv) (o : Op) (y : Nat) (h : (btOf o).bind (seqTyOfBt e) = some (.multi y)) : y ∈ e.types := by
  cases hb : btOf o with
  | none => simp [hb] at h
  | some bt => simp only [hb, Option.bind_some] at h; exact seqTyOfBt_multi e bt y h

theorem blockTy_of_evOKp (e : PEnv) (m : IdMaps) (o : Op) (ty : SeqTy) (s : Nat)
    (hty : (btOf o).bind (seqTyOfBt e) = some ty) (hok : evOKp e m (.start s ty)) :
    (blockTy m ty).isSome = true := by
  cases ty with
  | empty => simp [blockTy]
  | val t => simp [blockTy]
  | multi y =>
    have := hok (bt_multi e o y hty)
    simpa [blockTy] using this

theorem walkL_app {σ ι ε : Type} (evS : Nat → σ → List ε) (evI : ι → List ε) (evE : Nat → σ → List ε) :
    (a b : TL σ ι) → walkL evS evI evE (TL.app a b) = walkL evS evI evE a ++ walkL evS evI evE b
  | .nil, b => by simp [TL.app, walkL]
  | .cons h t, b => by simp [TL.app, walkL, walkL_app evS evI evE t b]

theorem outLeaf_total (e : PEnv) (m : IdMaps) (ids : List Nat) (o : Op) (loc : Nat) (hc : opClean o)
    (ri : List (BInstr × Nat)) (ru : Bool) (hl : leafEffect e ids false o loc = some (ri, ru))
    (hok : ∀ ev ∈ walkL evStart evInstr evEnd (leafTL ri), evOKp e m ev) :
    (outLeaf e m o loc).isSome = true := by
  unfold leafEffect at hl
  unfold outLeaf
  by_cases hb : o.name = "Br"
  · simp only [hb, if_true] at hl ⊢
    split at hl
    · rename_i n hn; simp [hn]
    · simp at hl
  · by_cases hbi : o.name = "BrIf"
    · simp only [hbi, if_true, show ¬ ("BrIf" = "Br") by decide, if_false] at hl ⊢
      split at hl
      · rename_i n hn; simp [hn]
      · simp at hl
    · by_cases hbt : o.name = "BrTable"
      · simp only [hbt, if_true, show ¬ ("BrTable" = "Br") by decide, show ¬ ("BrTable" = "BrIf") by decide, if_false] at hl ⊢
        split at hl
        · rename_i d ts hn; simp [hn]
        · simp at hl
      · by_cases hr : (o.name = "Return" || o.name = "Unreachable") = true
        · have hargs : o.args = [] := hc.1 (by simpa using hr)
          simp only [hb, hbi, hbt, hr, if_false, if_true, hargs]
          simp [mapArgs]
        · by_cases hn : o.name = "Nop"
          · simp [hn]
          · simp only [hb, hbi, hbt, hr, hn, if_false, Bool.false_eq_true] at hl ⊢
            cases hp : pMapArgs e (wrapOffsets o.args) with
            | none => simp [hp] at hl
            | some a =>
              simp only [hp, Option.map_some, Option.some.injEq, Prod.mk.injEq] at hl
              obtain ⟨rfl, _⟩ := hl
              have hev := hok (.instr (.leaf ⟨o.name, a⟩) loc) (by simp [leafTL, walkL, walkKids, evInstr, TI.toInstr])
              simp only [evOKp] at hev
              have hma : (mapArgs m a).isSome = true := by
                rw [C02.mapArgs_isSome_iff]
                intro sp n hm
                obtain ⟨i, hi, hg⟩ := pMapArgs_refs e _ a hp sp n hm
                have hi' := wrapOffsets_refs sp i _ hi
                apply hev sp n hm
                · intro hsp
                  subst hsp
                  rcases hc.2.1 i hi' with h | h | h
                  · exact hb h
                  · exact hbi h
                  · exact hbt h
                · exact hc.2.2 sp i hi'
                · exact ⟨i, hg⟩
              simp only [outArgs, hp, Option.bind_some, Option.isSome_map]
              exact hma

theorem outBt_of (e : PEnv) (m : IdMaps) (o : Op) (ty : SeqTy) (hty : (btOf o).bind (seqTyOfBt e) = some ty) :
    outBt e m o = blockTy m ty := by simp [outBt, hty]

theorem mem_walk_one (p : LInstr) (s : Nat) (sp : LSeqTy) (bt : TL LSeqTy LInstr) (ev : EEv)
    (h : ev ∈ walkL evStart evInstr evEnd bt) :
    ev ∈ walkL evStart evInstr evEnd (.cons (.one p s sp bt) .nil) := by
  simp only [walkL, walkKids, List.mem_append]; simp [h]

theorem mem_walk_two_c (p : LInstr) (c : Nat) (cp : LSeqTy) (tc : TL LSeqTy LInstr) (a : Nat) (ap : LSeqTy)
    (ta : TL LSeqTy LInstr) (ev : EEv) (h : ev ∈ walkL evStart evInstr evEnd tc) :
    ev ∈ walkL evStart evInstr evEnd (.cons (.two p c cp tc a ap ta) .nil) := by
  simp only [walkL, walkKids, List.mem_append]; simp [h]

theorem mem_walk_two_a (p : LInstr) (c : Nat) (cp : LSeqTy) (tc : TL LSeqTy LInstr) (a : Nat) (ap : LSeqTy)
    (ta : TL LSeqTy LInstr) (ev : EEv) (h : ev ∈ walkL evStart evInstr evEnd ta) :
    ev ∈ walkL evStart evInstr evEnd (.cons (.two p c cp tc a ap ta) .nil) := by
  simp only [walkL, walkKids, List.mem_append]; simp [h]

mutual
theorem outI_total (e : PEnv) (m : IdMaps) : (i : PI) → ∀ (ids : List Nat) (next : Nat) (unr : Bool)
    (is : List (BInstr × Nat)) (cs : List PSeq) (u : Bool) (t : TL LSeqTy LInstr),
    expI e ids next unr i = some (is, cs, u) → treeI e ids next unr i = some t →
    ids.Nodup → (∀ x ∈ ids, x < next) →
    i.Clean → (∀ ev ∈ walkL evStart evInstr evEnd t, evOKp e m ev) → (outI e m unr i).isSome = true
  | .op o loc, ids, next, unr, is, cs, u, t, h, ht, _, _, hc, hok => by
      cases unr with
      | true => simp [outI]
      | false =>
        simp only [expI] at h
        cases hl : leafEffect e ids false o loc with
        | none => simp [hl] at h
        | some r =>
          obtain ⟨ri, ru⟩ := r
          simp only [treeI, hl, Option.map_some, Option.some.injEq] at ht
          subst ht
          have := outLeaf_total e m ids o loc hc ri ru hl hok
          simp only [outI, Bool.false_eq_true, if_false, Option.isSome_map]
          exact this
  | .blk o loc b endLoc, ids, next, unr, is, cs, u, t, h, ht, hnd, hf, hc, hok => by
      cases unr with
      | true => simp [outI]
      | false =>
        simp only [expI] at h
        cases hty : (btOf o).bind (seqTyOfBt e) with
        | none => simp [hty] at h
        | some ty =>
          simp only [hty] at h
          cases hx : expL e (next :: ids) (next + 1) false b with
          | none => simp [hx] at h
          | some r =>
            obtain ⟨bi, bc, bu⟩ := r
            cases hbt : treeL e (next :: ids) (next + 1) false b with
            | none => simp [treeI, hty, hbt] at ht
            | some bt =>
              simp only [treeI, hty, hbt, Option.some.injEq, Bool.false_eq_true, if_false] at ht
              subst ht
              obtain ⟨hnd', hf'⟩ := fresh_cons ids next hnd hf
              have hok1 : (blockTy m ty).isSome = true := blockTy_of_evOKp e m o ty next hty
                (hok _ (by simp [walkL, walkKids, evStart, TI.toInstr]))
              have ih := outL_total e m b (next :: ids) (next + 1) false bi bc bu bt hx hbt hnd' hf' hc
                (fun ev hev => hok ev (mem_walk_one _ _ _ _ ev hev))
              simp only [outI, Bool.false_eq_true, if_false, outBt_of e m o ty hty]
              cases h1 : blockTy m ty with
              | none => simp [h1] at hok1
              | some bty =>
                cases h2 : outL e m false b with
                | none => simp [h2] at ih
                | some r2 => simp
  | .if1 o loc tb endLoc, ids, next, unr, is, cs, u, t, h, ht, hnd, hf, hc, hok => by
      cases unr with
      | true => simp [outI]
      | false =>
        simp only [expI] at h
        cases hty : (btOf o).bind (seqTyOfBt e) with
        | none => simp [hty] at h
        | some ty =>
          simp only [hty] at h
          cases hx : expL e (next :: ids) (next + 1) false tb with
          | none => simp [hx] at h
          | some r =>
            obtain ⟨ti, tc, tu⟩ := r
            cases htt : treeL e (next :: ids) (next + 1) false tb with
            | none => simp [treeI, hty, hx, htt] at ht
            | some tt =>
              simp only [treeI, hty, hx, htt, Option.some.injEq, Bool.false_eq_true, if_false] at ht
              subst ht
              obtain ⟨hnd', hf'⟩ := fresh_cons ids next hnd hf
              have hok1 : (blockTy m ty).isSome = true := blockTy_of_evOKp e m o ty next hty
                (hok _ (by simp [walkL, walkKids, evStart, TI.toInstr]))
              have ih := outL_total e m tb (next :: ids) (next + 1) false ti tc tu tt hx htt hnd' hf' hc
                (fun ev hev => hok ev (mem_walk_two_c _ _ _ _ _ _ _ ev hev))
              simp only [outI, Bool.false_eq_true, if_false, outBt_of e m o ty hty]
              cases h1 : blockTy m ty with
              | none => simp [h1] at hok1
              | some bty =>
                cases h2 : outL e m false tb with
                | none => simp [h2] at ih
                | some r2 => simp
  | .if2 o loc tb elseLoc el endLoc, ids, next, unr, is, cs, u, t, h, ht, hnd, hf, hc, hok => by
      cases unr with
      | true => simp [outI]
      | false =>
        simp only [expI] at h
        cases hty : (btOf o).bind (seqTyOfBt e) with
        | none => simp [hty] at h
        | some ty =>
          simp only [hty] at h
          cases hx : expL e (next :: ids) (next + 1) false tb with
          | none => simp [hx] at h
          | some r =>
            obtain ⟨ti, tc, tu⟩ := r
            simp only [hx] at h
            cases hy : expL e ((next + 1 + tc.length) :: ids) (next + 1 + tc.length + 1) false el with
            | none => simp [hy] at h
            | some r2 =>
              obtain ⟨ei, ec, eu⟩ := r2
              cases htt : treeL e (next :: ids) (next + 1) false tb with
              | none => simp [treeI, hty, hx, htt] at ht
              | some tt =>
                cases hte : treeL e ((next + 1 + tc.length) :: ids) (next + 1 + tc.length + 1) false el with
                | none => simp [treeI, hty, hx, htt, hte] at ht
                | some te =>
                  simp only [treeI, hty, hx, htt, hte, Option.some.injEq, Bool.false_eq_true, if_false] at ht
                  subst ht
                  obtain ⟨hnd1, hf1⟩ := fresh_cons ids next hnd hf
                  have hf2 : ∀ x ∈ ids, x < next + 1 + tc.length := fun x hx => by have := hf x hx; omega
                  obtain ⟨hnd2, hf2'⟩ := fresh_cons ids (next + 1 + tc.length) hnd hf2
                  have hok1 : (blockTy m ty).isSome = true := blockTy_of_evOKp e m o ty next hty
                    (hok _ (by simp [walkL, walkKids, evStart, TI.toInstr]))
                  have ih1 := outL_total e m tb (next :: ids) (next + 1) false ti tc tu tt hx htt hnd1 hf1 hc.1
                    (fun ev hev => hok ev (mem_walk_two_c _ _ _ _ _ _ _ ev hev))
                  have ih2 := outL_total e m el _ _ false ei ec eu te hy hte hnd2 hf2' hc.2
                    (fun ev hev => hok ev (mem_walk_two_a _ _ _ _ _ _ _ ev hev))
                  simp only [outI, Bool.false_eq_true, if_false, outBt_of e m o ty hty]
                  cases h1 : blockTy m ty with
                  | none => simp [h1] at hok1
                  | some bty =>
                    cases h2 : outL e m false tb with
                    | none => simp [h2] at ih1
                    | some r2 =>
                      cases h3 : outL e m false el with
                      | none => simp [h3] at ih2
                      | some r3 => simp
theorem outL_total (e : PEnv) (m : IdMaps) : (l : PL) → ∀ (ids : List Nat) (next : Nat) (unr : Bool)
    (is : List (BInstr × Nat)) (cs : List PSeq) (u : Bool) (t : TL LSeqTy LInstr),
    expL e ids next unr l = some (is, cs, u) → treeL e ids next unr l = some t →
    ids.Nodup → (∀ x ∈ ids, x < next) →
    l.Clean → (∀ ev ∈ walkL evStart evInstr evEnd t, evOKp e m ev) → (outL e m unr l).isSome = true
  | .nil, ids, next, unr, is, cs, u, t, h, ht, _, _, _, _ => by simp [outL]
  | .cons hd tl, ids, next, unr, is, cs, u, t, h, ht, hnd, hf, hc, hok => by
      simp only [expL] at h
      cases hx : expI e ids next unr hd with
      | none => simp [hx] at h
      | some r =>
        obtain ⟨i1, c1, u1⟩ := r
        simp only [hx] at h
        cases hy : expL e ids (next + c1.length) u1 tl with
        | none => simp [hy] at h
        | some r2 =>
          obtain ⟨i2, c2, u2⟩ := r2
          simp only [treeL, hx] at ht
          cases ht1 : treeI e ids next unr hd with
          | none => simp [ht1] at ht
          | some t1 =>
            simp only [ht1, Option.map_eq_some_iff] at ht
            obtain ⟨t2, ht2, rfl⟩ := ht
            have hf2 : ∀ x ∈ ids, x < next + c1.length := fun x hx => by have := hf x hx; omega
            have ih1 := outI_total e m hd ids next unr i1 c1 u1 t1 hx ht1 hnd hf hc.1
              (fun ev hev => hok ev (by rw [walkL_app]; exact List.mem_append_left _ hev))
            have ih2 := outL_total e m tl ids (next + c1.length) u1 i2 c2 u2 t2 hy ht2 hnd hf2 hc.2
              (fun ev hev => hok ev (by rw [walkL_app]; exact List.mem_append_right _ hev))
            cases ho1 : outI e m unr hd with
            | none => simp [ho1] at ih1
            | some r1 =>
              obtain ⟨o1, f1⟩ := r1
              have hf1 : f1 = u1 := (round_I e m hd ids next unr i1 c1 u1 t1 hx ht1 hnd hf).2 _ ho1
              subst hf1
              simp only [outL, ho1]
              cases ho2 : outL e m f1 tl with
              | none => simp [ho2] at ih2
              | some r2 => simp
end

/-- `emitBody_eq_flatten` with the iteration count made explicit -/
theorem emitBody_eq_flatten_steps (m : IdMaps) (ar : BArena) (entry : Nat) (ty : LSeqTy) (t : TL LSeqTy LInstr)
    (he : ar.get? entry = some (ty, t.toList)) (hv : ViewL ar t) (ops : List (Nat × Op))
    (hf : flattenL m [entry] t = some ops) (fuel : Nat) (hfuel : costL t + 1 ≤ fuel) :
    emitBodyFuel m ar fuel entry =
      some ((ops ++ [(ty.2, Op.mk "End" [])]).map (·.2), marksOf 0 (ops ++ [(ty.2, Op.mk "End" [])])) := by
  have := dfsInOrder_eq_walk_steps evStart evInstr evEnd ar entry ty t he hv fuel hfuel
  unfold emitBodyFuel bodyEvents
  rw [this]
  simp only [List.isEmpty_nil, Bool.not_true, Bool.false_eq_true, if_false, walkSeq, evStart, evEnd]
  rw [List.append_assoc, emitFold_append]
  simp only [emitFold, emitStep, Option.bind_some]
  rw [emitFold_append, emit_L m t ⟨[entry], [.entry], [], []⟩ ops hf]
  simp [emitFold, emitStep, EmitSt.extend, marksOf_append, marksOf]

/-- **emission of a parsed body is total up to the lookups**: for every well-nested body that
    parses, the traversal finishes within the model's fuel, every branch target resolves and the
    block-kind stack never underflows; `emit::run` answers whenever the operands of the plain
    instructions and the types of the sequences the traversal reports (the function-entry sequence
    aside, whose type is never written) have an emitted index -/
theorem parsed_body_emits (m : IdMaps) (e : PEnv) (entryTy : Nat) (body : PL) (hw : body.WF) (hc : body.Clean) (endLoc : Nat)
    (is : List (BInstr × Nat)) (cs : List PSeq) (u : Bool)
    (h : expL e [0] 1 false body = some (is, cs, u)) :
    ∃ seqs, buildBody e entryTy (body.flat ++ [(opEnd, endLoc)]) = some seqs ∧
      ((∀ ev ∈ (bodyEvents (PSeqs.toArena seqs) (arenaFuel (PSeqs.toArena seqs)) 0).2.tail, evOKp e m ev) →
        (emitBodyMarks m (PSeqs.toArena seqs) 0).isSome = true) := by
  obtain ⟨seqs, t, hb, ht, hg, hv⟩ := parsed_body_has_tree_view e entryTy body hw endLoc is cs u h
  refine ⟨seqs, hb, fun hok => ?_⟩
  have hseqs : seqs = ⟨.multi entryTy, is, endLoc⟩ :: cs := by
    have := buildBody_eq e entryTy body hw endLoc is cs u h
    rw [hb] at this
    exact Option.some.inj this
  have hfuel : costL t + 1 ≤ arenaFuel (PSeqs.toArena seqs) := by
    rw [hseqs]; exact parsed_fuel_suffices e body is cs u t h ht _ _
  have hev := dfsInOrder_eq_walk_steps evStart evInstr evEnd (PSeqs.toArena seqs) 0 (SeqTy.multi entryTy, endLoc) t hg hv
    _ hfuel
  have hok' : ∀ ev ∈ walkL evStart evInstr evEnd t, evOKp e m ev := by
    intro ev hev'
    apply hok
    unfold bodyEvents
    rw [hev]
    simp [walkSeq, evStart, hev']
  have hout := outL_total e m body [0] 1 false is cs u t h ht (by simp) (by simp) hc hok'
  have hr := (round_L e m body [0] 1 false is cs u t h ht (by simp) (by simp)).1
  cases ho : outL e m false body with
  | none => simp [ho] at hout
  | some r =>
    rw [ho] at hr
    have := emitBody_eq_flatten_steps m (PSeqs.toArena seqs) 0 _ t hg hv _ hr _ hfuel
    rw [emitBodyMarks_eq_fuel, this]
    rfl

end Walrus
