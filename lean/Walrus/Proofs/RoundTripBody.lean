import Walrus.Proofs.ParseView
import Walrus.Proofs.Body
import Walrus.Agree

/-!
The body round trip in source terms (C03): what `emit ∘ parse` writes for a well-nested body is
described directly on the source tree by `outL` — the surviving operators in order, with their
names, their immediates, entity operands taken through the parse-time and emit-time maps, the same
branch depths, block types in normal form, an `else` for every `if` — and nothing else.
-/
namespace Walrus

mutual
/-- output of one source construct: the operators with their locations, and whether the rest of the
    sequence is unreachable afterwards -/
def outI (e : PEnv) (m : IdMaps) (unr : Bool) : PI → Option (List (Nat × Op) × Bool)
  | .op o loc =>
    if unr then some ([], true)
    else (outLeaf e m o loc).map fun ops => (ops, transfers o.name)
  | .blk o loc b endLoc =>
    if unr then some ([], true) else
    match outBt e m o, outL e m false b with
    | some bt, some (body, _) =>
      some ([(loc, ⟨(if o.name = "Block" then "Block" else "Loop"), [bt]⟩)] ++ body ++ [(endLoc, ⟨"End", []⟩)], false)
    | _, _ => none
  | .if1 o loc t endLoc =>
    if unr then some ([], true) else
    match outBt e m o, outL e m false t with
    | some bt, some (tb, _) =>
      some ([(loc, ⟨"If", [bt]⟩)] ++ tb ++ [(endLoc, ⟨"Else", []⟩)] ++ [(defaultLoc, ⟨"End", []⟩)], false)
    | _, _ => none
  | .if2 o loc t elseLoc el endLoc =>
    if unr then some ([], true) else
    match outBt e m o, outL e m false t, outL e m false el with
    | some bt, some (tb, _), some (eb, _) =>
      some ([(loc, ⟨"If", [bt]⟩)] ++ tb ++ [(elseLoc, ⟨"Else", []⟩)] ++ eb ++ [(endLoc, ⟨"End", []⟩)], false)
    | _, _, _ => none
def outL (e : PEnv) (m : IdMaps) (unr : Bool) : PL → Option (List (Nat × Op) × Bool)
  | .nil => some ([], unr)
  | .cons h t =>
    match outI e m unr h with
    | none => none
    | some (o1, u1) =>
      match outL e m u1 t with
      | none => none
      | some (o2, u2) => some (o1 ++ o2, u2)
end


theorem idxOf_getElem_nodup : ∀ (l : List Nat) (n b : Nat), l.Nodup → l[n]? = some b → l.idxOf b = n
  | [], n, b, _, h => by simp at h
  | a :: r, 0, b, _, h => by
    simp only [List.getElem?_cons_zero, Option.some.injEq] at h
    subst h; simp
  | a :: r, n+1, b, hnd, h => by
    simp only [List.getElem?_cons_succ] at h
    have hb : b ∈ r := List.mem_of_getElem? h
    have hne : a ≠ b := by
      intro hab; subst hab
      exact (List.nodup_cons.1 hnd).1 hb
    have ih := idxOf_getElem_nodup r n b (List.nodup_cons.1 hnd).2 h
    have hbeq : (a == b) = false := by simp [hne]
    simp [List.idxOf_cons, hbeq, ih]

theorem branchTarget_get (ids : List Nat) (n b : Nat) (hnd : ids.Nodup) (h : ids[n]? = some b) :
    branchTarget ids b = some n := by
  unfold branchTarget
  have := idxOf_getElem_nodup ids n b hnd h
  have hlt : n < ids.length := (List.getElem?_eq_some_iff.1 h).1
  simp [this, hlt]

theorem branchTarget_mapM (ids : List Nat) (hnd : ids.Nodup) : ∀ (ns bs : List Nat),
    ns.mapM (fun n => ids[n]?) = some bs → bs.mapM (branchTarget ids) = some ns
  | [], bs, h => by simp at h; subst h; rfl
  | n :: r, bs, h => by
    simp only [List.mapM_cons, Option.bind_eq_bind] at h
    cases h1 : ids[n]? with
    | none => simp [h1] at h
    | some b =>
      cases h2 : r.mapM (fun n => ids[n]?) with
      | none => simp [h1, h2] at h
      | some bs' =>
        simp [h1, h2] at h
        subst h
        simp [List.mapM_cons, branchTarget_get ids n b hnd h1, branchTarget_mapM ids hnd r bs' h2]

theorem flattenL_leaf1 (m : IdMaps) (ids : List Nat) (i : BInstr × Nat) :
    flattenL m ids (leafTL [i]) = (emitPlain m ids i.1).map fun op => [(i.2, op)] := by
  simp only [leafTL, flattenL, flattenI]
  cases emitPlain m ids i.1 <;> simp

theorem flattenL_app (m : IdMaps) (ctx : List Nat) : ∀ (a b : TL LSeqTy LInstr),
    flattenL m ctx (TL.app a b) =
      match flattenL m ctx a, flattenL m ctx b with
      | some x, some y => some (x ++ y)
      | _, _ => none
  | .nil, b => by
    simp only [TL.app, flattenL]
    cases flattenL m ctx b <;> simp
  | .cons h t, b => by
    simp only [TL.app, flattenL, flattenL_app m ctx t b]
    cases flattenI m ctx h <;> cases flattenL m ctx t <;> cases flattenL m ctx b <;> simp

/-- a reachable non-structural operator: what the parser appends and the emitter writes for it is
    `outLeaf`; the frame becomes unreachable exactly after a transfer -/
theorem leaf_live (e : PEnv) (m : IdMaps) (ids : List Nat) (hnd : ids.Nodup) (o : Op) (loc : Nat)
    (is : List (BInstr × Nat)) (u : Bool) (h : leafEffect e ids false o loc = some (is, u)) :
    flattenL m ids (leafTL is) = outLeaf e m o loc ∧ u = transfers o.name := by
  unfold leafEffect at h
  unfold outLeaf transfers
  by_cases hb : o.name = "Br"
  · simp only [hb, if_true] at h ⊢
    split at h
    · rename_i n hl
      cases hid : ids[n]? with
      | none => simp [hid] at h
      | some b =>
        simp only [hid, Option.map_some, Option.some.injEq, Prod.mk.injEq] at h
        obtain ⟨rfl, rfl⟩ := h
        simp [hl, flattenL_leaf1, emitPlain, branchTarget_get ids n b hnd hid]
    · simp at h
  · by_cases hbi : o.name = "BrIf"
    · simp only [hbi, if_true, show ¬ ("BrIf" = "Br") by decide, if_false] at h ⊢
      split at h
      · rename_i n hl
        cases hid : ids[n]? with
        | none => simp [hid] at h
        | some b =>
          simp only [hid, Option.map_some, Option.some.injEq, Prod.mk.injEq] at h
          obtain ⟨rfl, rfl⟩ := h
          simp [hl, flattenL_leaf1, emitPlain, branchTarget_get ids n b hnd hid]
      · simp at h
    · by_cases hbt : o.name = "BrTable"
      · simp only [hbt, if_true, show ¬ ("BrTable" = "Br") by decide, show ¬ ("BrTable" = "BrIf") by decide, if_false] at h ⊢
        split at h
        · rename_i d ts hl
          cases hd : ids[d]? with
          | none => simp [hd] at h
          | some dd =>
            cases ht : ts.reverse.mapM (fun n => ids[n]?) with
            | none => simp [hd, ht] at h
            | some tts =>
              simp only [hd, ht, Option.some.injEq, Prod.mk.injEq] at h
              obtain ⟨rfl, rfl⟩ := h
              simp [hl, flattenL_leaf1, emitPlain, branchTarget_get ids d dd hnd hd,
                branchTarget_mapM ids hnd ts.reverse tts ht]
        · simp at h
      · by_cases hr : o.name = "Return" ∨ o.name = "Unreachable"
        · have hr' : (o.name = "Return" || o.name = "Unreachable") = true := by simpa using hr
          simp only [hb, hbi, hbt, hr', if_false, if_true, Option.some.injEq, Prod.mk.injEq] at h ⊢
          obtain ⟨rfl, rfl⟩ := h
          refine ⟨?_, by rcases hr with h1 | h1 <;> simp [h1]⟩
          simp only [Bool.false_eq_true, if_false, flattenL_leaf1, emitPlain]
          cases mapArgs m o.args <;> simp
        · have hr' : (o.name = "Return" || o.name = "Unreachable") = false := by simpa using hr
          have hr1 : o.name ≠ "Return" := fun h1 => hr (Or.inl h1)
          have hr2 : o.name ≠ "Unreachable" := fun h1 => hr (Or.inr h1)
          by_cases hn : o.name = "Nop"
          · simp only [hb, hbi, hbt, hr', hn, if_false, if_true, Option.some.injEq, Prod.mk.injEq, Bool.false_eq_true] at h ⊢
            obtain ⟨rfl, rfl⟩ := h
            simp [leafTL, flattenL]
          · simp only [hb, hbi, hbt, hr', hn, if_false, Bool.false_eq_true] at h ⊢
            cases ha : pMapArgs e (wrapOffsets o.args) with
            | none => simp [ha] at h
            | some a =>
              simp only [ha, Option.map_some, Option.some.injEq, Prod.mk.injEq] at h
              obtain ⟨rfl, rfl⟩ := h
              refine ⟨?_, by simp [hb, hbt, hr1, hr2]⟩
              simp only [flattenL_leaf1, emitPlain, outArgs, ha, Option.bind_some]
              cases mapArgs m a <;> simp

/-- an operator in an unreachable frame: nothing is appended, the frame stays unreachable -/
theorem leaf_dead (e : PEnv) (ids : List Nat) (o : Op) (loc : Nat)
    (is : List (BInstr × Nat)) (u : Bool) (h : leafEffect e ids true o loc = some (is, u)) :
    is = [] ∧ u = true := by
  unfold leafEffect at h
  by_cases hb : o.name = "Br"
  · simp only [hb, if_true] at h
    split at h
    · rename_i n hl
      cases hid : ids[n]? with
      | none => simp [hid] at h
      | some b => simp [hid] at h; exact ⟨h.1, h.2⟩
    · simp at h
  · by_cases hbi : o.name = "BrIf"
    · simp only [hbi, if_true, show ¬ ("BrIf" = "Br") by decide, if_false] at h
      split at h
      · rename_i n hl
        cases hid : ids[n]? with
        | none => simp [hid] at h
        | some b => simp [hid] at h; exact ⟨h.1, h.2⟩
      · simp at h
    · by_cases hbt : o.name = "BrTable"
      · simp only [hbt, if_true, show ¬ ("BrTable" = "Br") by decide, show ¬ ("BrTable" = "BrIf") by decide, if_false] at h
        split at h
        · rename_i d ts hl
          cases hd : ids[d]? with
          | none => simp [hd] at h
          | some dd =>
            cases ht : ts.reverse.mapM (fun n => ids[n]?) with
            | none => simp [hd, ht] at h
            | some tts => simp [hd, ht] at h; exact ⟨h.1, h.2⟩
        · simp at h
      · by_cases hr : o.name = "Return" ∨ o.name = "Unreachable"
        · have hr' : (o.name = "Return" || o.name = "Unreachable") = true := by simpa using hr
          simp [hb, hbi, hbt, hr'] at h
          exact ⟨h.1, h.2⟩
        · have hr' : (o.name = "Return" || o.name = "Unreachable") = false := by simpa using hr
          by_cases hn : o.name = "Nop"
          · simp [hb, hbi, hbt, hr', hn] at h
            exact ⟨h.1, h.2⟩
          · simp only [hb, hbi, hbt, hr', hn, if_false, Bool.false_eq_true] at h
            cases ha : pMapArgs e (wrapOffsets o.args) with
            | none => simp [ha] at h
            | some a => simp [ha] at h; exact ⟨h.1, h.2⟩


theorem flattenL_single (m : IdMaps) (ctx : List Nat) (n : TI LSeqTy LInstr) :
    flattenL m ctx (.cons n .nil) = flattenI m ctx n := by
  simp only [flattenL]
  cases flattenI m ctx n <;> simp

theorem fresh_cons (ids : List Nat) (next : Nat) (hnd : ids.Nodup) (hf : ∀ x ∈ ids, x < next) :
    (next :: ids).Nodup ∧ ∀ x ∈ next :: ids, x < next + 1 := by
  refine ⟨List.nodup_cons.2 ⟨fun h => Nat.lt_irrefl _ (hf next h), hnd⟩, ?_⟩
  intro x hx
  rcases List.mem_cons.1 hx with rfl | hx
  · omega
  · have := hf x hx; omega

mutual
theorem round_I (e : PEnv) (m : IdMaps) : (i : PI) → ∀ (ids : List Nat) (next : Nat) (unr : Bool)
    (is : List (BInstr × Nat)) (cs : List PSeq) (u : Bool) (t : TL LSeqTy LInstr),
    expI e ids next unr i = some (is, cs, u) → treeI e ids next unr i = some t →
    ids.Nodup → (∀ x ∈ ids, x < next) →
    flattenL m ids t = (outI e m unr i).map (·.1) ∧ ∀ r, outI e m unr i = some r → r.2 = u
  | .op o loc, ids, next, unr, is, cs, u, t, h, ht, hnd, _ => by
      simp only [expI] at h
      cases hl : leafEffect e ids unr o loc with
      | none => simp [hl] at h
      | some r =>
        obtain ⟨ri, ru⟩ := r
        simp only [hl, Option.map_some, Option.some.injEq, Prod.mk.injEq] at h
        obtain ⟨rfl, rfl, rfl⟩ := h
        simp only [treeI, hl, Option.map_some, Option.some.injEq] at ht
        subst ht
        cases hu : unr with
        | true =>
          subst hu
          obtain ⟨h1, h2⟩ := leaf_dead e ids o loc ri ru hl
          subst h1; subst h2
          simp [outI, leafTL, flattenL]
        | false =>
          subst hu
          obtain ⟨h1, h2⟩ := leaf_live e m ids hnd o loc ri ru hl
          refine ⟨?_, ?_⟩
          · rw [h1]; simp only [outI, Bool.false_eq_true, if_false]
            cases outLeaf e m o loc <;> simp
          · intro r hr
            simp only [outI, Bool.false_eq_true, if_false, Option.map_eq_some_iff] at hr
            obtain ⟨_, _, rfl⟩ := hr
            exact h2.symm
  | .blk o loc b endLoc, ids, next, unr, is, cs, u, t, h, ht, hnd, hf => by
      simp only [expI] at h
      cases hty : (btOf o).bind (seqTyOfBt e) with
      | none => simp [hty] at h
      | some ty =>
        simp only [hty] at h
        cases hx : expL e (next :: ids) (next + 1) false b with
        | none => simp [hx] at h
        | some r =>
          obtain ⟨bi, bc, bu⟩ := r
          simp only [hx, Option.some.injEq, Prod.mk.injEq] at h
          obtain ⟨rfl, rfl, rfl⟩ := h
          simp only [treeI, hty] at ht
          cases hbt : treeL e (next :: ids) (next + 1) false b with
          | none => simp [hbt] at ht
          | some bt =>
            simp only [hbt, Option.some.injEq] at ht
            subst ht
            obtain ⟨hnd', hf'⟩ := fresh_cons ids next hnd hf
            obtain ⟨ih1, _⟩ := round_L e m b (next :: ids) (next + 1) false bi bc bu bt hx hbt hnd' hf'
            have hob : outBt e m o = blockTy m ty := by simp [outBt, hty]
            cases hu : unr with
            | true =>
              subst hu
              refine ⟨by simp [outI, flattenL], ?_⟩
              intro r hr
              simp only [outI, if_true, Option.some.injEq] at hr
              rw [← hr]
            | false =>
              subst hu
              refine ⟨?_, ?_⟩
              · simp only [Bool.false_eq_true, if_false, flattenL_single, flattenI, outI, hob, ih1]
                cases blockTy m ty with
                | none => simp
                | some bt' =>
                  cases outL e m false b with
                  | none => simp
                  | some r =>
                    by_cases hn : o.name = "Block" <;> simp [hn]
              · intro r hr
                simp only [outI, hob, Bool.false_eq_true, if_false] at hr
                cases h1 : blockTy m ty <;> cases h2 : outL e m false b <;> simp [h1, h2] at hr
                rw [← hr]
  | .if1 o loc tb endLoc, ids, next, unr, is, cs, u, t, h, ht, hnd, hf => by
      simp only [expI] at h
      cases hty : (btOf o).bind (seqTyOfBt e) with
      | none => simp [hty] at h
      | some ty =>
        simp only [hty] at h
        cases hx : expL e (next :: ids) (next + 1) false tb with
        | none => simp [hx] at h
        | some r =>
          obtain ⟨ti, tc, tu⟩ := r
          simp only [hx, Option.some.injEq, Prod.mk.injEq] at h
          obtain ⟨rfl, rfl, rfl⟩ := h
          simp only [treeI, hty, hx] at ht
          cases htt : treeL e (next :: ids) (next + 1) false tb with
          | none => simp [htt] at ht
          | some tt =>
            simp only [htt, Option.some.injEq] at ht
            subst ht
            obtain ⟨hnd', hf'⟩ := fresh_cons ids next hnd hf
            obtain ⟨ih1, _⟩ := round_L e m tb (next :: ids) (next + 1) false ti tc tu tt hx htt hnd' hf'
            have hob : outBt e m o = blockTy m ty := by simp [outBt, hty]
            cases hu : unr with
            | true =>
              subst hu
              refine ⟨by simp [outI, flattenL], ?_⟩
              intro r hr
              simp only [outI, if_true, Option.some.injEq] at hr
              rw [← hr]
            | false =>
              subst hu
              refine ⟨?_, ?_⟩
              · simp only [Bool.false_eq_true, if_false, flattenL_single, flattenI, outI, hob, ih1, flattenL]
                cases blockTy m ty with
                | none => simp
                | some bt' =>
                  cases outL e m false tb with
                  | none => simp
                  | some r => simp
              · intro r hr
                simp only [outI, hob, Bool.false_eq_true, if_false] at hr
                cases h1 : blockTy m ty <;> cases h2 : outL e m false tb <;> simp [h1, h2] at hr
                rw [← hr]
  | .if2 o loc tb elseLoc el endLoc, ids, next, unr, is, cs, u, t, h, ht, hnd, hf => by
      simp only [expI] at h
      cases hty : (btOf o).bind (seqTyOfBt e) with
      | none => simp [hty] at h
      | some ty =>
        simp only [hty] at h
        cases hx : expL e (next :: ids) (next + 1) false tb with
        | none => simp [hx] at h
        | some r =>
          obtain ⟨ti, tc, tu⟩ := r
          simp only [hx] at h
          cases hy : expL e ((next + 1 + tc.length) :: ids) (next + 1 + tc.length + 1) false el with
          | none => simp [hy] at h
          | some r2 =>
            obtain ⟨ei, ec, eu⟩ := r2
            simp only [hy, Option.some.injEq, Prod.mk.injEq] at h
            obtain ⟨rfl, rfl, rfl⟩ := h
            simp only [treeI, hty, hx] at ht
            cases htt : treeL e (next :: ids) (next + 1) false tb with
            | none => simp [htt] at ht
            | some tt =>
              simp only [htt] at ht
              cases hte : treeL e ((next + 1 + tc.length) :: ids) (next + 1 + tc.length + 1) false el with
              | none => simp [hte] at ht
              | some te =>
                simp only [hte, Option.some.injEq] at ht
                subst ht
                obtain ⟨hnd', hf'⟩ := fresh_cons ids next hnd hf
                obtain ⟨ih1, _⟩ := round_L e m tb (next :: ids) (next + 1) false ti tc tu tt hx htt hnd' hf'
                have hf2 : ∀ x ∈ ids, x < next + 1 + tc.length := fun x hx => by have := hf x hx; omega
                obtain ⟨hnd'', hf''⟩ := fresh_cons ids (next + 1 + tc.length) hnd hf2
                obtain ⟨ih2, _⟩ := round_L e m el ((next + 1 + tc.length) :: ids) (next + 1 + tc.length + 1) false ei ec eu te hy hte hnd'' hf''
                have hob : outBt e m o = blockTy m ty := by simp [outBt, hty]
                cases hu : unr with
                | true =>
                  subst hu
                  refine ⟨by simp [outI, flattenL], ?_⟩
                  intro r hr
                  simp only [outI, if_true, Option.some.injEq] at hr
                  rw [← hr]
                | false =>
                  subst hu
                  refine ⟨?_, ?_⟩
                  · simp only [Bool.false_eq_true, if_false, flattenL_single, flattenI, outI, hob, ih1, ih2]
                    cases blockTy m ty with
                    | none => simp
                    | some bt' =>
                      cases outL e m false tb with
                      | none => simp
                      | some r =>
                        cases outL e m false el with
                        | none => simp
                        | some r2 => simp
                  · intro r hr
                    simp only [outI, hob, Bool.false_eq_true, if_false] at hr
                    cases h1 : blockTy m ty <;> cases h2 : outL e m false tb <;> cases h3 : outL e m false el <;> simp [h1, h2, h3] at hr
                    rw [← hr]
theorem round_L (e : PEnv) (m : IdMaps) : (l : PL) → ∀ (ids : List Nat) (next : Nat) (unr : Bool)
    (is : List (BInstr × Nat)) (cs : List PSeq) (u : Bool) (t : TL LSeqTy LInstr),
    expL e ids next unr l = some (is, cs, u) → treeL e ids next unr l = some t →
    ids.Nodup → (∀ x ∈ ids, x < next) →
    flattenL m ids t = (outL e m unr l).map (·.1) ∧ ∀ r, outL e m unr l = some r → r.2 = u
  | .nil, ids, next, unr, is, cs, u, t, h, ht, _, _ => by
      simp only [expL, Option.some.injEq, Prod.mk.injEq] at h
      obtain ⟨rfl, rfl, rfl⟩ := h
      simp only [treeL, Option.some.injEq] at ht
      subst ht
      simp [outL, flattenL]
  | .cons hd tl, ids, next, unr, is, cs, u, t, h, ht, hnd, hf => by
      simp only [expL] at h
      cases hx : expI e ids next unr hd with
      | none => simp [hx] at h
      | some r =>
        obtain ⟨i1, c1, u1⟩ := r
        simp only [hx] at h
        cases hy : expL e ids (next + c1.length) u1 tl with
        | none => simp [hy] at h
        | some r2 =>
          obtain ⟨i2, c2, u2⟩ := r2
          simp only [hy, Option.some.injEq, Prod.mk.injEq] at h
          obtain ⟨rfl, rfl, rfl⟩ := h
          simp only [treeL, hx] at ht
          cases ht1 : treeI e ids next unr hd with
          | none => simp [ht1] at ht
          | some t1 =>
            simp only [ht1, Option.map_eq_some_iff] at ht
            obtain ⟨t2, ht2, rfl⟩ := ht
            obtain ⟨ih1, ihf1⟩ := round_I e m hd ids next unr i1 c1 u1 t1 hx ht1 hnd hf
            have hf2 : ∀ x ∈ ids, x < next + c1.length := fun x hx => by have := hf x hx; omega
            obtain ⟨ih2, ihf2⟩ := round_L e m tl ids (next + c1.length) u1 i2 c2 u2 t2 hy ht2 hnd hf2
            rw [flattenL_app, ih1]
            cases ho1 : outI e m unr hd with
            | none => simp [outL, ho1]
            | some r1 =>
              obtain ⟨o1, f1⟩ := r1
              have hf1 : f1 = u1 := ihf1 _ ho1
              subst hf1
              simp only [Option.map_some, ih2, outL, ho1]
              cases ho2 : outL e m f1 tl with
              | none => simp
              | some r2 =>
                obtain ⟨o2, f2⟩ := r2
                refine ⟨by simp, ?_⟩
                intro r hr
                simp only [Option.some.injEq] at hr
                rw [← hr]
                exact ihf2 (o2, f2) ho2
end

end Walrus
