import Walrus.Proofs.Gc

/-!
The worklist of the GC pass terminates, and the fuel the model gives it is enough (C06, C07, C02):
for every module whose references stay inside a finite universe `U` (roots in `U`, successors of
members of `U` in `U` — what validation guarantees), the loop empties its stack after at most
`|U|` iterations, because every iteration moves one new entity into the visited set and nothing is
ever pushed twice.
-/
namespace Walrus

theorem eraseDups_nodup_aux : ∀ (n : Nat) (l : List Ent), l.length ≤ n → l.eraseDups.Nodup
  | 0, l, h => by
    have : l = [] := List.eq_nil_of_length_eq_zero (by omega)
    subst this; simp
  | n+1, [], _ => by simp
  | n+1, a :: as, h => by
    rw [List.eraseDups_cons, List.nodup_cons]
    constructor
    · intro hm
      have := (List.mem_filter.1 (List.mem_eraseDups.1 hm)).2
      simp at this
    · apply eraseDups_nodup_aux n
      have := List.length_filter_le (fun b => !b == a) as
      simp only [List.length_cons] at h
      omega

theorem eraseDups_nodup (l : List Ent) : l.eraseDups.Nodup := eraseDups_nodup_aux l.length l (Nat.le_refl _)

/-- the stack and the visited set never share an element and never repeat one -/
theorem nodup_step (succ : Ent → List Ent) (x : Ent) (todo visited : List Ent)
    (h : ((x :: todo) ++ visited).Nodup) :
    ((((succ x).filter fun y => !(visited.contains y) && !(todo.contains y) && y != x).eraseDups ++ todo) ++
      (visited ++ [x])).Nodup := by
  have hx : x ∉ todo ∧ x ∉ visited := by
    simp only [List.cons_append, List.nodup_cons, List.mem_append, not_or] at h
    exact h.1
  have htv : (todo ++ visited).Nodup := by
    simp only [List.cons_append, List.nodup_cons] at h
    exact h.2
  have hnew : ∀ y ∈ ((succ x).filter fun y => !(visited.contains y) && !(todo.contains y) && y != x).eraseDups,
      y ∉ visited ∧ y ∉ todo ∧ y ≠ x := by
    intro y hy
    have := (List.mem_filter.1 (List.mem_eraseDups.1 hy)).2
    simpa [and_assoc] using this
  rw [List.nodup_append] at htv
  obtain ⟨ht, hv, htv'⟩ := htv
  rw [List.nodup_append]
  refine ⟨?_, ?_, ?_⟩
  · rw [List.nodup_append]
    refine ⟨eraseDups_nodup _, ht, ?_⟩
    intro a ha b hb hab
    subst hab
    exact (hnew a ha).2.1 hb
  · rw [List.nodup_append]
    refine ⟨hv, by simp, ?_⟩
    intro a ha b hb hab
    simp only [List.mem_singleton] at hb
    subst hab; subst hb
    exact hx.2 ha
  · intro a ha b hb hab
    subst hab
    rcases List.mem_append.1 ha with ha1 | ha2
    · rcases List.mem_append.1 hb with hb1 | hb2
      · exact (hnew a ha1).1 hb1
      · simp only [List.mem_singleton] at hb2
        exact (hnew a ha1).2.2 hb2
    · rcases List.mem_append.1 hb with hb1 | hb2
      · exact htv' a ha2 a hb1 rfl
      · simp only [List.mem_singleton] at hb2
        rw [hb2] at ha2
        exact hx.1 ha2

/-- **termination with a bound**: inside a universe closed under the successor relation the
    worklist is empty after `|U| − |visited|` iterations -/
theorem closureSt_finishes (succ : Ent → List Ent) (U : List Ent) (hs : ∀ x ∈ U, ∀ y ∈ succ x, y ∈ U) :
    ∀ (fuel : Nat) (todo visited : List Ent), (todo ++ visited).Nodup → (∀ x ∈ todo ++ visited, x ∈ U) →
      U.length ≤ fuel + visited.length → (closureSt succ fuel todo visited).1 = []
  | 0, todo, visited, hn, hu, hl => by
    have := List.Nodup.length_le_of_subset hn hu
    simp only [List.length_append] at this
    have : todo = [] := List.eq_nil_of_length_eq_zero (by omega)
    subst this
    simp [closureSt]
  | fuel+1, [], visited, _, _, _ => by simp [closureSt]
  | fuel+1, x :: todo, visited, hn, hu, hl => by
    have hx : x ∉ visited := by
      simp only [List.cons_append, List.nodup_cons, List.mem_append, not_or] at hn
      exact hn.1.2
    have hc : visited.contains x = false := by simpa using hx
    simp only [closureSt, hc, Bool.false_eq_true, if_false]
    apply closureSt_finishes succ U hs fuel
    · exact nodup_step succ x todo visited hn
    · intro z hz
      have hxU : x ∈ U := hu x (by simp)
      rcases List.mem_append.1 hz with hz | hz
      · rcases List.mem_append.1 hz with hz | hz
        · exact hs x hxU z (List.mem_filter.1 (List.mem_eraseDups.1 hz)).1
        · exact hu z (by simp [hz])
      · rcases List.mem_append.1 hz with hz | hz
        · exact hu z (by simp [hz])
        · simp only [List.mem_singleton] at hz
          subst hz; exact hxU
    · simp only [List.length_append, List.length_cons, List.length_nil]
      omega

/-- **the GC worklist finishes within the model's fuel** for every module whose roots and successor
    edges stay inside a universe no larger than the fuel -/
theorem usedFinished_of_closed (g : GcInfo) (U : List Ent)
    (hr : ∀ x ∈ gcRoots g, x ∈ U) (hs : ∀ x ∈ U, ∀ y ∈ gcSucc g x, y ∈ U)
    (hl : U.length ≤ universeSize g * universeSize g + 16) : usedFinished g = true := by
  unfold usedFinished
  rw [closureSt_finishes (gcSucc g) U hs _ (gcRoots g).eraseDups [] (by simpa using eraseDups_nodup _)
    (by intro x hx; simp only [List.append_nil] at hx; exact hr x (List.mem_eraseDups.1 hx)) (by simpa using hl)]
  rfl

theorem distinct_foldl_length (l : List Sig) : ∀ (acc : List Sig),
    (l.foldl (fun seen s => if seen.contains s then seen else seen ++ [s]) acc).length ≤ acc.length + l.length := by
  induction l with
  | nil => intro acc; simp
  | cons x xs ih =>
    intro acc
    simp only [List.foldl_cons, List.length_cons]
    by_cases h : acc.contains x = true
    · simp only [h, if_true]
      have := ih acc
      omega
    · have h' : acc.contains x = false := by simpa using h
      simp only [h', Bool.false_eq_true, if_false]
      have := ih (acc ++ [x])
      simp only [List.length_append, List.length_cons, List.length_nil] at this
      omega

theorem distinctSigs_length_le (sigs : List Sig) : (distinctSigs sigs).length ≤ sigs.length := by
  have := distinct_foldl_length sigs []
  simpa [distinctSigs] using this

theorem entUniverse_length_le (g : GcInfo) : (entUniverse g).length ≤ universeSize g * universeSize g + 16 := by
  have h1 := distinctSigs_length_le g.m.sigs
  have h2 : (entUniverse g).length ≤ universeSize g := by
    simp only [entUniverse, universeSize, List.length_append, List.length_map, List.length_range]
    omega
  have h3 : universeSize g ≤ universeSize g * universeSize g + 16 := by
    rcases Nat.eq_zero_or_pos (universeSize g) with h | h
    · omega
    · have := Nat.le_mul_of_pos_right (universeSize g) h
      omega
  omega

/-- **the GC worklist terminates on every module whose references are in range**, within the fuel
    of the model (so the theorems that assume `usedFinished` hold for all such modules) -/
theorem gcWF_finishes (g : GcInfo) (h : gcWF g = true) : usedFinished g = true := by
  simp only [gcWF, Bool.and_eq_true, List.all_eq_true, List.contains_eq_mem, decide_eq_true_eq] at h
  exact usedFinished_of_closed g (entUniverse g) h.1 h.2 (entUniverse_length_le g)

end Walrus
