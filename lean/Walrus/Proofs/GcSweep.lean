import Walrus.Proofs.GcEmit

/-!
The sweep of the GC pass, seen on the emitted module: what `parse → gc::run → emit` writes contains,
in every index space, exactly the entities of the input that are in the used set — nothing else
survives.  With `C07.usedSet_is_reachable_set` every emitted entity is therefore reachable from
the roots (or is the one residue memory).
-/
namespace Walrus

theorem mem_kept_iff (u : List Ent) (sp : String) (n i : Nat) (hi : i < n) :
    (keptOf u sp n).contains i = true ↔ (sp, i) ∈ u := by
  rw [List.contains_iff_mem, mem_keptOf]
  exact ⟨fun h => h.2, fun h => ⟨hi, h⟩⟩

/-- **what the pass leaves of every index space**: the tables and memories of the output are the
    used ones of the input, in order; the output has one global, one element segment, one data
    segment and one function (with its body) for each used one of the input, and no other -/
theorem sweep_keeps_exactly_the_used (m : ModuleM) (g : GcInfo) (hg : mkGcInfo m = some g) (o : ModuleM)
    (h : gcRoundTrip m = some o) :
    o.tables = (m.tables.zipIdx.filter fun p => decide (("t", g.nit + p.2) ∈ usedSet g)).map (·.1) ∧
    o.mems = (m.mems.zipIdx.filter fun p => decide (("m", g.nim + p.2) ∈ usedSet g)).map (·.1) ∧
    o.globals.length = (m.globals.zipIdx.filter fun p => decide (("g", g.nig + p.2) ∈ usedSet g)).length ∧
    o.elems.length = (m.elems.zipIdx.filter fun p => decide (("e", p.2) ∈ usedSet g)).length ∧
    o.datas.length = (m.datas.zipIdx.filter fun p => decide (("d", p.2) ∈ usedSet g)).length ∧
    o.funcs.length = o.code.length := by
  unfold gcRoundTrip at h
  split at h
  · cases h
  · rw [hg] at h
    simp only at h
    split at h
    · cases h
    · rename_i oc hoc
      split at h
      · rename_i im gl ex st el da him hgl hex hst hel hda
        obtain rfl := Option.some.inj h
        have hfilt : ∀ {α : Type} (l : List α) (sp : String) (base n : Nat), n = base + l.length →
            (l.zipIdx.filter fun p => (keptOf (usedSet g) sp n).contains (base + p.2)) =
            (l.zipIdx.filter fun p => decide ((sp, base + p.2) ∈ usedSet g)) := by
          intro α l sp base n hn
          apply List.filter_congr
          intro p hp
          have hlt : p.2 < l.length := by
            have := List.mem_zipIdx hp
            omega
          have := mem_kept_iff (usedSet g) sp n (base + p.2) (by omega)
          cases hc : (keptOf (usedSet g) sp n).contains (base + p.2) <;> simp_all
        refine ⟨?_, ?_, ?_, ?_, ?_, ?_⟩
        · simp only
          rw [hfilt m.tables "t" g.nit _ rfl]
        · simp only
          rw [hfilt m.mems "m" g.nim _ rfl]
        · simp only
          have := mapM_some_length _ _ _ hgl
          rw [this, List.length_map, hfilt m.globals "g" g.nig _ rfl]
        · simp only
          have := mapM_some_length _ _ _ hel
          rw [this, List.length_map]
          have h0 := hfilt m.elems "e" 0 m.elems.length (by simp)
          simp only [Nat.zero_add] at h0
          rw [h0]
        · simp only
          have := mapM_some_length _ _ _ hda
          rw [this, List.length_map]
          have h0 := hfilt m.datas "d" 0 m.datas.length (by simp)
          simp only [Nat.zero_add] at h0
          rw [h0]
        · simp
      · cases h

end Walrus
