import Walrus.Proofs.Arena

/-! Refinement of `ArenaSet` (the de-duplicating type set) to the specification (C17). -/

namespace Walrus

variable {α : Type}

theorem keys_ge_of_keysFrom {n : Nat} {l : List (Nat × α)} (h : KeysFrom n l) {p : Nat × α} (hp : p ∈ l) :
    n ≤ p.1 := by
  induction l generalizing n with
  | nil => cases hp
  | cons x xs ih =>
    obtain ⟨k, w⟩ := x
    rcases List.mem_cons.1 hp with hp | hp
    · subst hp; exact h.1
    · have := ih h.2 hp; have := h.1; omega

theorem find?_iff_mem {n : Nat} {l : List (Nat × α)} (h : KeysFrom n l) (i : Nat) (v : α) :
    ASpec.find? l i = some v ↔ (i, v) ∈ l := by
  induction l generalizing n with
  | nil => simp [ASpec.find?]
  | cons x xs ih =>
    obtain ⟨k, w⟩ := x
    simp only [ASpec.find?, List.mem_cons, Prod.mk.injEq]
    by_cases hk : k = i
    · subst hk
      simp only [if_true, Option.some.injEq, true_and]
      constructor
      · intro e; exact Or.inl e.symm
      · rintro (e | e)
        · exact e.symm
        · have := keys_ge_of_keysFrom h.2 e; simp at this; omega
    · simp only [hk, if_false, ih h.2]
      constructor
      · intro e; exact Or.inr e
      · rintro (e | e)
        · exact absurd e.1.symm hk
        · exact e

theorem arena_iter_keys (a : Arena α) : KeysFrom 0 a.iter :=
  keysFrom_filter _ (keysFrom_enumFrom 0 a.items)

variable [DecidableEq α]

theorem findVal_none {l : List (Nat × α)} {v : α} :
    ASpec.findVal l v = none ↔ ∀ i, (i, v) ∉ l := by
  induction l with
  | nil => simp [ASpec.findVal]
  | cons x xs ih =>
    obtain ⟨k, w⟩ := x
    by_cases hw : w = v
    · subst hw
      simp only [ASpec.findVal, if_true]
      constructor
      · intro h; cases h
      · intro h; exact absurd (List.mem_cons_self) (h k)
    · simp only [ASpec.findVal, hw, if_false, ih, List.mem_cons, Prod.mk.injEq, not_or]
      constructor
      · intro h i; exact ⟨fun e => hw e.2.symm, h i⟩
      · intro h i; exact (h i).2

theorem findVal_some {l : List (Nat × α)} {v : α} {i : Nat} (h : ASpec.findVal l v = some i) : (i, v) ∈ l := by
  induction l with
  | nil => simp [ASpec.findVal] at h
  | cons x xs ih =>
    obtain ⟨k, w⟩ := x
    by_cases hw : w = v
    · subst hw
      simp only [ASpec.findVal, if_true, Option.some.injEq] at h
      subst h; exact List.mem_cons_self
    · simp only [ASpec.findVal, hw, if_false] at h
      exact List.mem_cons_of_mem _ (ih h)

def ArenaSet.abs (s : ArenaSet α) : ASpec α := s.arena.abs

/-- representation invariant of `ArenaSet`: the hash map is exactly the inverse of the live part
    of the arena (this also makes live values pairwise distinct). -/
structure ArenaSet.Inv (s : ArenaSet α) : Prop where
  arena : s.arena.Inv
  index : ∀ v i, ArenaSet.lookup s.index v = some i ↔ (i, v) ∈ s.arena.iter

theorem ArenaSet.inv_empty : (ArenaSet.empty : ArenaSet α).Inv :=
  ⟨Arena.inv_empty, by intro v i; simp [ArenaSet.empty, ArenaSet.lookup, Arena.empty, Arena.iter, Arena.enumFrom]⟩

theorem ArenaSet.lookup_eq_findVal {s : ArenaSet α} (h : s.Inv) (v : α) :
    ArenaSet.lookup s.index v = ASpec.findVal s.arena.iter v := by
  cases hf : ASpec.findVal s.arena.iter v with
  | none =>
    have := findVal_none.1 hf
    cases hl : ArenaSet.lookup s.index v with
    | none => rfl
    | some i => exact absurd ((h.index v i).1 hl) (this i)
  | some i => exact (h.index v i).2 (findVal_some hf)

theorem lookup_eraseKey (ix : List (α × Nat)) (w v : α) :
    ArenaSet.lookup (ArenaSet.eraseKey ix w) v = if v = w then none else ArenaSet.lookup ix v := by
  induction ix with
  | nil => simp [ArenaSet.eraseKey, ArenaSet.lookup]
  | cons x xs ih =>
    obtain ⟨k, i⟩ := x
    unfold ArenaSet.eraseKey at ih ⊢
    by_cases hk : k = w
    · subst hk
      simp only [List.filter, decide_true, Bool.not_true, ih, ArenaSet.lookup]
      by_cases hv : v = k
      · simp [hv]
      · have : ¬ k = v := fun e => hv e.symm
        simp [hv, this]
    · simp only [List.filter, hk, decide_false, Bool.not_false, ArenaSet.lookup, ih]
      by_cases hv : k = v
      · subst hv; simp [hk]
      · simp [hv]

theorem ArenaSet.insert_refines {s : ArenaSet α} (h : s.Inv) (v : α) :
    ((s.insert v).1.abs, (s.insert v).2) = ASpec.insert s.abs v ∧ (s.insert v).1.Inv := by
  unfold ArenaSet.insert ASpec.insert
  have hl := ArenaSet.lookup_eq_findVal h v
  cases hf : ArenaSet.lookup s.index v with
  | some i =>
    rw [hf] at hl
    simp [ArenaSet.abs, Arena.abs, ← hl, h]
  | none =>
    rw [hf] at hl
    have hit := Arena.iter_alloc h.arena v
    have hinv := Arena.inv_alloc h.arena v
    simp only [Arena.alloc] at hit hinv
    refine ⟨?_, hinv, ?_⟩
    · simp [ArenaSet.abs, Arena.abs, ← hl, ASpec.alloc, Arena.alloc, hit]
    · intro w j
      simp only [Arena.alloc, ArenaSet.lookup, hit, List.mem_append, List.mem_singleton, Prod.mk.injEq]
      have hnone := findVal_none.1 hl.symm
      by_cases hw : v = w
      · subst hw
        simp only [if_true, Option.some.injEq]
        constructor
        · intro e; exact Or.inr ⟨e.symm, trivial⟩
        · rintro (e | e)
          · exact absurd e (hnone j)
          · exact e.1.symm
      · simp only [hw, if_false, h.index w j]
        constructor
        · intro e; exact Or.inl e
        · rintro (e | e)
          · exact e
          · exact absurd e.2.symm hw

theorem ArenaSet.remove_refines (od : α → α) {s : ArenaSet α} (h : s.Inv) (i : Nat) :
    (s.remove od i).map ArenaSet.abs = s.abs.delete i ∧ (∀ s', s.remove od i = some s' → s'.Inv) := by
  have hd := Arena.delete_spec od h.arena i
  have hfi := Arena.find?_iter s.arena i
  unfold ArenaSet.remove
  have hix : s.arena.index i = s.arena.get? i := rfl
  rw [hix]
  cases hg : s.arena.get? i with
  | none =>
    have : ASpec.find? s.arena.abs.live i = none := by simpa [Arena.abs, hg] using hfi
    simp [ArenaSet.abs, ASpec.delete, this]
  | some w =>
    have hfind : ASpec.find? s.arena.iter i = some w := by simpa [hg] using hfi
    have hmem : (i, w) ∈ s.arena.iter := (find?_iff_mem (arena_iter_keys _) i w).1 hfind
    cases hdel : s.arena.delete od i with
    | none =>
      rw [hdel] at hd
      have : s.arena.abs.delete i = none := by simpa using hd.1.symm
      simp [ArenaSet.abs, this]
    | some a' =>
      rw [hdel] at hd
      have habs : s.arena.abs.delete i = some a'.abs := by simpa using hd.1.symm
      refine ⟨by simp [ArenaSet.abs, habs], ?_⟩
      intro s' hs'
      simp only [Option.some.injEq] at hs'
      subst hs'
      refine ⟨hd.2 a' rfl, ?_⟩
      intro v j
      have hlive : a'.iter = s.arena.iter.filter (fun p => !(p.1 == i)) := by
        have : s.arena.abs.delete i = some ⟨s.arena.abs.next, s.arena.abs.live.filter (fun p => !(p.1 == i))⟩ := by
          unfold ASpec.delete
          have : ASpec.find? s.arena.abs.live i = some w := by simpa [Arena.abs] using hfind
          simp [this]
        rw [habs] at this
        have := congrArg ASpec.live (Option.some.inj this)
        simpa [Arena.abs] using this
      simp only [lookup_eraseKey, hlive, List.mem_filter]
      by_cases hv : v = w
      · subst hv
        simp only [if_true]
        constructor
        · intro e; cases e
        · rintro ⟨hm, hne⟩
          have h1 := (h.index v j).2 hm
          have h2 := (h.index v i).2 hmem
          rw [h1] at h2
          simp at hne
          exact absurd (Option.some.inj h2) hne
      · simp only [hv, if_false, h.index v j]
        constructor
        · intro hm
          refine ⟨hm, ?_⟩
          simp only [Bool.not_eq_true', beq_eq_false_iff_ne, ne_eq]
          intro hji
          subst hji
          have h1 := (find?_iff_mem (arena_iter_keys _) j v).2 hm
          rw [hfind] at h1
          exact hv (Option.some.inj h1).symm
        · exact fun e => e.1

theorem ArenaSet.step_refines (od : α → α) {s : ArenaSet α} (h : s.Inv) (op : AOp α) :
    ((ArenaSet.step od s op).1.abs, (ArenaSet.step od s op).2) = ASpec.stepWith ASpec.insert s.abs op
    ∧ (ArenaSet.step od s op).1.Inv := by
  cases op with
  | alloc v =>
    have := ArenaSet.insert_refines h v
    simp only [ArenaSet.step, ASpec.stepWith]
    rw [← this.1]
    exact ⟨rfl, this.2⟩
  | delete i =>
    have := ArenaSet.remove_refines od h i
    simp only [ArenaSet.step, ASpec.stepWith]
    cases hd : s.remove od i with
    | none =>
      rw [hd] at this
      have h2 : s.abs.delete i = none := by simpa using this.1.symm
      simp [h2, h]
    | some s' =>
      rw [hd] at this
      have h2 : s.abs.delete i = some s'.abs := by simpa using this.1.symm
      simp [h2, this.2 s' rfl]
  | get i =>
    simp [ArenaSet.step, ASpec.stepWith, ASpec.get?, ArenaSet.abs, Arena.abs, Arena.find?_iter, h]
  | index i =>
    simp only [ArenaSet.step, ASpec.stepWith, ASpec.get?, ArenaSet.abs, Arena.abs, Arena.find?_iter, Arena.index, Arena.get?]
    exact ⟨trivial, h⟩
  | contains i =>
    simp [ArenaSet.step, ASpec.stepWith, ArenaSet.abs, Arena.contains_abs, h]
  | iter => simp [ArenaSet.step, ASpec.stepWith, ArenaSet.abs, ArenaSet.iter, Arena.abs, h]
  | len => simp [ArenaSet.step, ASpec.stepWith, ArenaSet.abs, Arena.len_abs h.arena, h]
  | find v => simp [ArenaSet.step, ASpec.stepWith, ArenaSet.abs, ArenaSet.iter, Arena.abs, h]

theorem ArenaSet.run_refines (od : α → α) (ops : List (AOp α)) {s : ArenaSet α} (h : s.Inv) :
    ((ArenaSet.run od s ops).1.abs, (ArenaSet.run od s ops).2) = ASpec.runSet s.abs ops
    ∧ (ArenaSet.run od s ops).1.Inv := by
  induction ops generalizing s with
  | nil => simp [ArenaSet.run, ASpec.runSet, ASpec.runWith, h]
  | cons op ops ih =>
    have hs := ArenaSet.step_refines od h op
    have ih' := ih hs.2
    simp only [ArenaSet.run, ASpec.runSet, ASpec.runWith]
    rw [← hs.1]
    simp only [ASpec.runSet] at ih'
    constructor
    · rw [← ih'.1]
    · exact ih'.2

end Walrus
