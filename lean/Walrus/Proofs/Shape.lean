import Walrus.Proofs.PlainEmit
import Walrus.Proofs.ParseConverse

/-!
The hypotheses of the emission-totality theorems reduced to the shape of the input: for a
well-nested body, "the parse succeeded" already is "its tree-level description answers"
(`expL_of_buildBody`), so nothing about the parse has to be assumed beyond its success.
-/
namespace Walrus

/-- every function body of the code slice is the flattening of a well-formed, clean source tree -/
def BodiesShape (c : InCode) : Prop :=
  ∀ (k : Nat) (f : InFunc), c.funcs[k]? = some f →
    ∃ body endLoc, PL.WF body ∧ PL.Clean body ∧ f.ops = body.flat ++ [(opEnd, endLoc)]

/-- if the bodies have the shape and the parse succeeded, the tree-level description answers -/
theorem bodiesWFc_of_shape (c : InCode) (pfs : List ParsedFunc) (hp : parseCode c = some pfs) (hs : BodiesShape c) :
    BodiesWFc c pfs := by
  intro k f pf hf hpf
  obtain ⟨body, endLoc, hwf, hcl, hops⟩ := hs k f hf
  obtain ⟨pf', hpf', entryId, _, hbuild⟩ := parseCode_body c pfs hp k f hf
  rw [hpf] at hpf'
  obtain rfl := Option.some.inj hpf'
  rw [hops] at hbuild
  obtain ⟨r, hr⟩ := Option.isSome_iff_exists.1 (expL_of_buildBody (envOf c pf) entryId body hwf endLoc pf.seqs hbuild)
  obtain ⟨is, cs, u⟩ := r
  exact ⟨body, endLoc, is, cs, u, hwf, hcl, hops, hr⟩

theorem shapesOK_sound (m : ModuleM) (h : shapesOK m = true) : BodiesShape (codeOf m) := by
  intro k f hf
  simp only [codeOf, List.getElem?_map, Option.map_eq_some_iff] at hf
  obtain ⟨p, hp, rfl⟩ := hf
  obtain ⟨⟨locals, ops⟩, fi⟩ := p
  obtain ⟨hc, _⟩ := List.getElem?_zip_eq_some.1 hp
  simp only [shapesOK, List.all_eq_true] at h
  have hk := h _ (List.mem_of_getElem? hc)
  simp only [shapeOK] at hk
  cases hu : unflat ops with
  | none => simp [hu] at hk
  | some r =>
    obtain ⟨body, endLoc⟩ := r
    simp only [hu, Bool.and_eq_true, decide_eq_true_eq] at hk
    obtain ⟨⟨hflat, hwf⟩, hcl⟩ := hk
    exact ⟨body, endLoc, wfB_L body hwf, cleanB_L body hcl, hflat⟩

end Walrus
