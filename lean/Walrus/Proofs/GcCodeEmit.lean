import Walrus.Proofs.GcCode
import Walrus.Proofs.EmitTotal
import Walrus.Proofs.Locals

/-!
After the GC pass the code section emits (C02): for every module whose function bodies are
well-nested and parse, whose references are in range (`gcWF`), the emission of the type, function
and code sections after the pass answers — every body's traversal finishes, every branch target
resolves and every lookup of an entity operand, of a local and of a block type finds an index.
With `Proofs/GcEmit.lean` (all other sections) the whole module emits.
-/
namespace Walrus

/-! ### what `parseCode` did for each function -/

theorem envOf_mk (c : InCode) (id tid : Nat) (args lids : List Nat) (tys : List String) (seqs : List PSeq)
    (hl : lids.length ≤ tys.length) :
    envOf c ⟨id, tid, args, lids.zip tys, seqs⟩ =
      { funcs := List.range (c.importedFuncs + c.funcs.length), types := dedupIds c.sigs, locals := lids, sigs := c.sigs } := by
  simp only [envOf]
  congr 1
  exact List.map_fst_zip hl

theorem parseCode_go_body (c : InCode) : ∀ (fs : List InFunc) (k nextLocal : Nat) (entrySeen : List (List String))
    (acc : List ParsedFunc) (res : List ParsedFunc),
    parseCode.go c (dedupIds c.sigs) (distinctSigs c.sigs).length (List.range (c.importedFuncs + c.funcs.length))
      fs k nextLocal entrySeen acc = some res →
    res.length = acc.length + fs.length ∧
    (∀ j, j < acc.length → res[j]? = acc.reverse[j]?) ∧
    (∀ j (f : InFunc), fs[j]? = some f → ∃ pf, res[acc.length + j]? = some pf ∧
        ∃ entryId, (distinctSigs c.sigs).length ≤ entryId ∧ buildBody (envOf c pf) entryId f.ops = some pf.seqs)
  | [], k, nl, es, acc, res, h => by
    simp only [parseCode.go, Option.some.injEq] at h
    subst h
    refine ⟨by simp, fun j _ => rfl, ?_⟩
    intro j f hf; simp at hf
  | f :: r, k, nl, es, acc, res, h => by
    simp only [parseCode.go] at h
    split at h
    · rename_i ps rs tid hs ht
      split at h
      · cases h
      · rename_i seqs hb
        obtain ⟨h1, h2, h3⟩ := parseCode_go_body c r (k + 1) _ _ _ res h
        refine ⟨by simp at h1 ⊢; omega, ?_, ?_⟩
        · intro j hj
          have := h2 j (by simp; omega)
          rw [this]
          simp only [List.reverse_cons]
          rw [List.getElem?_append_left (by simp; exact hj)]
        · intro j g hg
          cases j with
          | zero =>
            simp only [List.getElem?_cons_zero, Option.some.injEq] at hg
            subst hg
            have := h2 acc.length (by simp)
            simp only [List.reverse_cons, List.length_reverse, Nat.lt_irrefl, not_false_eq_true,
              List.getElem?_append_right, Nat.le_refl, Nat.sub_self, List.getElem?_cons_zero] at this
            refine ⟨_, by simpa using this, ?_⟩
            refine ⟨(if es.findIdx (· == rs) < es.length then (es, (distinctSigs c.sigs).length + es.findIdx (· == rs))
                else (es ++ [rs], (distinctSigs c.sigs).length + es.length)).2, ?_, ?_⟩
            · split <;> simp
            · rw [envOf_mk _ _ _ _ _ _ _ (by simp)]
              simpa using hb
          | succ j' =>
            have hg' : r[j']? = some g := by simpa using hg
            obtain ⟨pf, hpf, hrest⟩ := h3 j' g hg'
            refine ⟨pf, ?_, hrest⟩
            have : (⟨c.importedFuncs + k, tid, (List.range' nl (ps ++ expandLocals f.locals).length).take ps.length,
                (List.range' nl (ps ++ expandLocals f.locals).length).zip (ps ++ expandLocals f.locals), seqs⟩ :: acc).length + j' = acc.length + (j' + 1) := by
              simp; omega
            rw [← this]; exact hpf
    · cases h

theorem parseCode_body (c : InCode) (pfs : List ParsedFunc) (h : parseCode c = some pfs)
    (k : Nat) (f : InFunc) (hf : c.funcs[k]? = some f) :
    ∃ pf, pfs[k]? = some pf ∧
      ∃ entryId, (distinctSigs c.sigs).length ≤ entryId ∧ buildBody (envOf c pf) entryId f.ops = some pf.seqs := by
  unfold parseCode at h
  obtain ⟨_, _, h3⟩ := parseCode_go_body c c.funcs 0 0 [] [] pfs h
  obtain ⟨pf, hpf, hrest⟩ := h3 k f hf
  exact ⟨pf, by simpa using hpf, hrest⟩

/-! ### helper facts -/

theorem mem_insertSorted (x y : Nat) : ∀ (l : List Nat), y ∈ insertSorted x l ↔ y = x ∨ y ∈ l
  | [] => by simp [insertSorted]
  | a :: r => by
    simp only [insertSorted]
    split
    · simp
    · split
      · rename_i h1 h2; subst h2; simp
      · simp only [List.mem_cons, mem_insertSorted x y r]
        constructor
        · rintro (h | h | h) <;> simp [h]
        · rintro (h | h | h) <;> simp [h]

def localsStep (acc : List Nat) (e : EEv) : List Nat :=
  match e with
  | .instr (.leaf op) _ => op.args.foldl (fun a x => match x with | .ref "x" id => insertSorted id a | _ => a) acc
  | _ => acc

theorem usedLocals_eq (evs : List EEv) : usedLocals evs = evs.foldl localsStep [] := by
  unfold usedLocals
  congr 1

theorem argsFold_mono (args : List Arg) : ∀ (acc : List Nat) (x : Nat), x ∈ acc →
    x ∈ args.foldl (fun a y => match y with | .ref "x" id => insertSorted id a | _ => a) acc := by
  induction args with
  | nil => intro acc x h; exact h
  | cons a r ih =>
    intro acc x h
    simp only [List.foldl_cons]
    apply ih
    split
    · exact (mem_insertSorted _ _ _).2 (Or.inr h)
    · exact h

theorem argsFold_mem (args : List Arg) : ∀ (acc : List Nat) (id : Nat), Arg.ref "x" id ∈ args →
    id ∈ args.foldl (fun a y => match y with | .ref "x" id => insertSorted id a | _ => a) acc := by
  induction args with
  | nil => intro acc id h; simp at h
  | cons a r ih =>
    intro acc id h
    simp only [List.foldl_cons]
    rcases List.mem_cons.1 h with h | h
    · subst h
      apply argsFold_mono
      exact (mem_insertSorted _ _ _).2 (Or.inl rfl)
    · exact ih _ id h

theorem localsStep_mono (acc : List Nat) (e : EEv) (x : Nat) (h : x ∈ acc) : x ∈ localsStep acc e := by
  unfold localsStep
  split
  · exact argsFold_mono _ _ _ h
  · exact h

theorem foldl_localsStep_mono (evs : List EEv) : ∀ (acc : List Nat) (x : Nat), x ∈ acc → x ∈ evs.foldl localsStep acc := by
  induction evs with
  | nil => intro acc x h; exact h
  | cons e r ih => intro acc x h; exact ih _ x (localsStep_mono acc e x h)

/-- a local named by an instruction the traversal visits is among the used locals -/
theorem usedLocals_mem (evs : List EEv) (op : Op) (loc id : Nat) (he : EEv.instr (.leaf op) loc ∈ evs)
    (ha : Arg.ref "x" id ∈ op.args) : id ∈ usedLocals evs := by
  rw [usedLocals_eq]
  suffices ∀ acc, id ∈ evs.foldl localsStep acc from this []
  induction evs with
  | nil => simp at he
  | cons e r ih =>
    intro acc
    simp only [List.foldl_cons]
    rcases List.mem_cons.1 he with h | h
    · subst h
      apply foldl_localsStep_mono
      simp only [localsStep]
      exact argsFold_mem _ _ _ ha
    · exact ih h _

theorem mapM_isSome {α β : Type} (f : α → Option β) : ∀ (l : List α), (∀ x ∈ l, (f x).isSome = true) → (l.mapM f).isSome = true
  | [], _ => by simp
  | a :: r, h => by
    simp only [List.mapM_cons, Option.bind_eq_bind]
    have ha := h a (by simp)
    have hr := mapM_isSome f r (fun x hx => h x (List.mem_cons_of_mem _ hx))
    obtain ⟨b, hb⟩ := Option.isSome_iff_exists.1 ha
    obtain ⟨bs, hbs⟩ := Option.isSome_iff_exists.1 hr
    simp [hb, hbs]

theorem dedupIds_lt (sigs : List Sig) (n : Nat) (h : n ∈ dedupIds sigs) : n < (distinctSigs sigs).length := by
  simp only [dedupIds, List.mem_map] at h
  obtain ⟨s, hs, rfl⟩ := h
  apply List.findIdx_lt_length_of_exists
  exact ⟨s, C19.mem_distinctSigs sigs s hs, by simp⟩

/-! ### after the pass every kept body emits -/

/-- the bodies of the module are well-nested, carry immediates only where the binary format has
    them, and parse (in the tree terms of `Proofs/ParseTree.lean`) -/
def BodiesWF (m : ModuleM) (g : GcInfo) : Prop :=
  ∀ (k : Nat) (f : InFunc) (pf : ParsedFunc), (codeOf m).funcs[k]? = some f → g.pfs[k]? = some pf →
    ∃ body endLoc is cs u, PL.WF body ∧ PL.Clean body ∧ f.ops = body.flat ++ [(opEnd, endLoc)] ∧
      expL (envOf (codeOf m) pf) [0] 1 false body = some (is, cs, u)

/-- the local map `emitCodeWith` builds for a function (`tyOf`: its lookup of a local's type) -/
def lmapOf (pf : ParsedFunc) (tyOf : Nat → String) : List (Nat × Nat) :=
  (emitLocals pf.args tyOf (usedLocals (bodyEvents (PSeqs.toArena pf.seqs) (arenaFuel (PSeqs.toArena pf.seqs)) 0).2)).2

theorem gc_kept_body_emits (m : ModuleM) (g : GcInfo) (hg : mkGcInfo m = some g)
    (hlen : m.code.length = m.funcs.length) (hw : gcWF g = true) (hb : BodiesWF m g)
    (k : Nat) (pf : ParsedFunc) (hpf : g.pfs[k]? = some pf) (hk : (gcKeep g m).funcs.contains pf.id = true)
    (tyOf : Nat → String) :
    (emitBodyMarks (mapsOf (codeOf m) g.pfs (gcKeep g m) (lmapOf pf tyOf)) (PSeqs.toArena pf.seqs) 0).isSome = true ∧
    (assoc (tyMapOf (codeOf m) (gcKeep g m)) pf.ty).isSome = true := by
  obtain ⟨hp, hm, hnif⟩ := mkGcInfo_spec m g hg
  obtain ⟨hl, hspec⟩ := parseCode_spec (codeOf m) g.pfs hp
  have hk' : k < (codeOf m).funcs.length := by rw [← hl]; exact (List.getElem?_eq_some_iff.1 hpf).1
  have hfk : (codeOf m).funcs[k]? = some (codeOf m).funcs[k] := by simp [hk']
  obtain ⟨pf', hpf', hid, hty⟩ := hspec k _ hfk
  rw [hpf] at hpf'
  obtain rfl := Option.some.inj hpf'
  obtain ⟨pf'', hpf'', entryId, hent, hbuild⟩ := parseCode_body (codeOf m) g.pfs hp k _ hfk
  rw [hpf] at hpf''
  obtain rfl := Option.some.inj hpf''
  obtain ⟨body, endLoc, is, cs, u, hwf, hcl, hops, hexp⟩ := hb k _ pf hfk hpf
  have hidn : pf.id = g.nif + k := by rw [hid, hnif]; rfl
  have hloc : ¬ pf.id < g.nif := by omega
  have hpf2 : g.pfs[pf.id - g.nif]? = some pf := by
    have : pf.id - g.nif = k := by omega
    rw [this]; exact hpf
  have hf : ("f", pf.id) ∈ usedSet g := by
    have : pf.id ∈ keptOf (usedSet g) "f" (g.nif + m.funcs.length) := by simpa [gcKeep] using hk
    exact ((mem_keptOf _ _ _ _).1 this).2
  have hd := gcWF_finishes g hw
  have htylt : pf.ty < (distinctSigs m.sigs).length :=
    dedupIds_lt m.sigs pf.ty (List.mem_of_getElem? hty)
  have hety : ∀ y, y ∈ (envOf (codeOf m) pf).types → y < (distinctSigs m.sigs).length :=
    fun y hy => dedupIds_lt m.sigs y hy
  constructor
  · obtain ⟨seqs, hbb, himp⟩ := parsed_body_emits (mapsOf (codeOf m) g.pfs (gcKeep g m) (lmapOf pf tyOf))
      (envOf (codeOf m) pf) entryId body hwf hcl endLoc is cs u hexp
    rw [← hops, hbuild] at hbb
    obtain rfl := Option.some.inj hbb
    apply himp
    intro ev hev
    have hev' := List.mem_of_mem_tail hev
    cases ev with
    | instr i loc =>
      cases i with
      | leaf op =>
        intro sp n hmem hl' _ hy
        by_cases hx : sp = "x"
        · subst hx
          have hu := usedLocals_mem _ op loc n hev' hmem
          obtain ⟨ix, hix⟩ := local_map_total pf.args tyOf _ n (Or.inr hu)
          have : (mapsOf (codeOf m) g.pfs (gcKeep g m) (lmapOf pf tyOf)).get "x" n = assoc (lmapOf pf tyOf) n := by
            simp [mapsOf, IdMaps.get, gcKeep]
          rw [this]
          simp only [lmapOf]
          rw [hix]; rfl
        · have hy' : (sp, n) ∈ refsOfBody pf.seqs := by
            unfold refsOfBody
            simp only [List.mem_flatMap]
            refine ⟨_, hev', ?_⟩
            simp only [List.mem_filterMap]
            exact ⟨.ref sp n, hmem, by simp [hx, hl']⟩
          exact gc_body_operands_have_indices m g hg hlen hw pf.id pf hloc hpf2 hf (lmapOf pf tyOf) (sp, n) hy'
            (fun h => by
              obtain ⟨i, hi⟩ := hy
              simp only at h
              subst h
              exact hety n (penv_get_y _ i n hi))
      | _ => trivial
    | start s ty =>
      cases ty with
      | multi y =>
        intro hy
        have hy' : ("y", y) ∈ refsOfBody pf.seqs := by
          unfold refsOfBody
          simp only [List.mem_flatMap]
          exact ⟨_, hev', by simp⟩
        have := gc_body_operands_have_indices m g hg hlen hw pf.id pf hloc hpf2 hf (lmapOf pf tyOf) ("y", y) hy'
          (fun _ => hety y hy)
        simpa [mapsOf, IdMaps.get, gcKeep] using this
      | _ => trivial
    | fin s l => trivial
  · rw [tyMapOf_eq]
    have hsucc : ("y", pf.ty) ∈ gcSucc g ("f", pf.id) := by
      simp only [gcSucc, hloc, if_false, hpf2]
      exact List.mem_cons_self
    have hcl' := (mem_usedSet_closure g _ hf).resolve_right (by simp)
    have hu : ("y", pf.ty) ∈ usedSet g := usedSet_closed g hd _ _ hcl' hsucc
    exact gcTyMap_total g m pf.ty htylt hu

/-- **after the GC pass the code section emits**: for every module whose references are in range
    and whose bodies are well-nested and parse, the emission of the type, function and code
    sections answers -/
theorem gc_code_section_emits (m : ModuleM) (g : GcInfo) (hg : mkGcInfo m = some g)
    (hlen : m.code.length = m.funcs.length) (hw : gcWF g = true) (hb : BodiesWF m g) :
    (emitCodeWith (codeOf m) g.pfs (gcKeep g m)).isSome = true := by
  unfold emitCodeWith
  simp only [Option.isSome_map]
  apply mapM_isSome
  intro p hp
  rw [mem_sortBy, List.mem_map] at hp
  obtain ⟨pf, hpfm, rfl⟩ := hp
  obtain ⟨hpfs, hkept⟩ := List.mem_filter.1 hpfm
  obtain ⟨k, hk⟩ := List.getElem?_of_mem hpfs
  split
  · rfl
  · rename_i hneg
    obtain ⟨h1, h2⟩ := gc_kept_body_emits m g hg hlen hw hb k pf hk hkept _
    obtain ⟨r1, hr1⟩ := Option.isSome_iff_exists.1 h1
    obtain ⟨t, ht⟩ := Option.isSome_iff_exists.1 h2
    exact (hneg r1.1 r1.2 t hr1 ht).elim

end Walrus
