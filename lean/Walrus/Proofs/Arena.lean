import Walrus.Arena

/-! Helper lemmas for the arena refinement (C17). -/

namespace Walrus
open Arena

variable {α : Type}

/-- keys strictly increasing from a lower bound -/
def KeysFrom (n : Nat) : List (Nat × α) → Prop
  | [] => True
  | (k, _) :: r => n ≤ k ∧ KeysFrom (k+1) r

theorem KeysFrom.mono {n m : Nat} {l : List (Nat × α)} (h : KeysFrom n l) (hm : m ≤ n) : KeysFrom m l := by
  cases l with
  | nil => trivial
  | cons p r => obtain ⟨k, v⟩ := p; exact ⟨Nat.le_trans hm h.1, h.2⟩

theorem keysFrom_enumFrom (n : Nat) (l : List α) : KeysFrom n (enumFrom n l) := by
  induction l generalizing n with
  | nil => trivial
  | cons x xs ih => exact ⟨Nat.le_refl _, ih (n+1)⟩

theorem keysFrom_filter (p : Nat × α → Bool) {n : Nat} {l : List (Nat × α)} (h : KeysFrom n l) :
    KeysFrom n (l.filter p) := by
  induction l generalizing n with
  | nil => trivial
  | cons x xs ih =>
    obtain ⟨k, v⟩ := x
    simp only [List.filter]
    split
    · exact ⟨h.1, ih h.2⟩
    · exact (ih h.2).mono (by have := h.1; omega)

theorem find?_none_of_keysFrom {n i : Nat} {l : List (Nat × α)} (h : KeysFrom n l) (hi : i < n) :
    ASpec.find? l i = none := by
  induction l generalizing n with
  | nil => rfl
  | cons x xs ih =>
    obtain ⟨k, v⟩ := x
    have hk : k ≠ i := by have := h.1; omega
    simp only [ASpec.find?, hk, if_false]
    exact ih h.2 (by have := h.1; omega)

theorem mem_enumFrom {n : Nat} {l : List α} {p : Nat × α} (h : p ∈ enumFrom n l) :
    n ≤ p.1 ∧ p.1 < n + l.length ∧ l[p.1 - n]? = some p.2 := by
  induction l generalizing n with
  | nil => simp [enumFrom] at h
  | cons x xs ih =>
    simp only [enumFrom, List.mem_cons] at h
    rcases h with h | h
    · subst h; simp
    · have := ih h
      refine ⟨by omega, by simp; omega, ?_⟩
      have e : p.1 - n = (p.1 - (n+1)) + 1 := by omega
      rw [e]; simpa using this.2.2

theorem find?_enumFrom (n : Nat) (l : List α) (i : Nat) :
    ASpec.find? (enumFrom n l) i = if n ≤ i then l[i - n]? else none := by
  induction l generalizing n with
  | nil => simp [enumFrom, ASpec.find?]
  | cons x xs ih =>
    simp only [enumFrom, ASpec.find?]
    by_cases h : n = i
    · subst h; simp
    · simp only [h, if_false, ih]
      by_cases h2 : n + 1 ≤ i
      · have e : i - n = (i - (n+1)) + 1 := by omega
        have h3 : n ≤ i := by omega
        simp [h2, h3, e]
      · have h3 : ¬ n ≤ i := by omega
        simp [h2, h3]

theorem find?_filter (p : Nat → Bool) (l : List (Nat × α)) (i : Nat) :
    ASpec.find? (l.filter (fun q => p q.1)) i = if p i then ASpec.find? l i else none := by
  induction l with
  | nil => simp [ASpec.find?]
  | cons x xs ih =>
    obtain ⟨k, v⟩ := x
    simp only [List.filter]
    by_cases hk : k = i
    · subst hk
      cases hp : p k <;> simp [ASpec.find?, hp, ih]
    · cases hp : p k
      · simp only [ASpec.find?, hk, if_false, ih]
      · simp only [ASpec.find?, hk, if_false, ih]

/-- the abstraction map -/
def Arena.abs (a : Arena α) : ASpec α := ⟨a.items.length, a.iter⟩

/-- representation invariant of `TombstoneArena` -/
structure Arena.Inv (a : Arena α) : Prop where
  deadLt : ∀ d ∈ a.dead, d < a.items.length
  count  : a.iter.length + a.dead.length = a.items.length

theorem Arena.inv_empty : (Arena.empty : Arena α).Inv := ⟨by simp [Arena.empty], by simp [Arena.empty, Arena.iter, enumFrom]⟩

theorem Arena.find?_iter (a : Arena α) (i : Nat) : ASpec.find? a.iter i = a.get? i := by
  unfold Arena.iter Arena.get?
  rw [find?_filter (fun k => !a.isDead k)]
  cases h : a.isDead i <;> simp [find?_enumFrom]

theorem enumFrom_append (n : Nat) (l : List α) (v : α) :
    enumFrom n (l ++ [v]) = enumFrom n l ++ [(n + l.length, v)] := by
  induction l generalizing n with
  | nil => simp [enumFrom]
  | cons x xs ih => simp [enumFrom, ih]; omega

theorem Arena.isDead_length {a : Arena α} (h : a.Inv) : a.isDead a.items.length = false := by
  unfold Arena.isDead
  cases hc : a.dead.contains a.items.length
  · rfl
  · have := h.deadLt _ (by simpa using hc); omega

theorem Arena.iter_alloc {a : Arena α} (h : a.Inv) (v : α) :
    (a.alloc v).1.iter = a.iter ++ [(a.items.length, v)] := by
  have hd : a.items.length ∉ a.dead := fun hm => by have := h.deadLt _ hm; omega
  simp [Arena.iter, Arena.alloc, enumFrom_append, List.filter_append, Arena.isDead, hd]

theorem Arena.inv_alloc {a : Arena α} (h : a.Inv) (v : α) : (a.alloc v).1.Inv := by
  constructor
  · intro d hd
    have := h.deadLt d (by simpa [Arena.alloc] using hd)
    simp [Arena.alloc]; omega
  · rw [Arena.iter_alloc h]
    have := h.count
    simp [Arena.alloc]; omega

theorem enumFrom_modify (n : Nat) (l : List α) (i : Nat) (f : α → α) :
    (enumFrom n (l.modify i f)).filter (fun q => !(q.1 == n + i)) =
    (enumFrom n l).filter (fun q => !(q.1 == n + i)) := by
  induction l generalizing n i with
  | nil => simp [enumFrom]
  | cons x xs ih =>
    cases i with
    | zero =>
      simp [List.modify, enumFrom, List.filter]
    | succ i =>
      have e : n + (i + 1) = (n + 1) + i := by omega
      simp only [List.modify_succ_cons, enumFrom, List.filter, e]
      rw [ih (n+1) i]

theorem filter_length_remove {n i : Nat} {l : List (Nat × α)} (h : KeysFrom n l) {v : α}
    (hf : ASpec.find? l i = some v) :
    (l.filter (fun q => !(q.1 == i))).length + 1 = l.length := by
  induction l generalizing n with
  | nil => simp [ASpec.find?] at hf
  | cons x xs ih =>
    obtain ⟨k, w⟩ := x
    by_cases hk : k = i
    · subst hk
      have hx : ∀ q ∈ xs, (fun q : Nat × α => !(q.1 == k)) q = true := by
        intro q hq
        have : ASpec.find? xs k = none := find?_none_of_keysFrom h.2 (Nat.lt_succ_self k)
        -- every key of xs is > k
        clear ih hf
        induction xs generalizing n with
        | nil => cases hq
        | cons y ys ihy =>
          obtain ⟨k2, w2⟩ := y
          have hk2 : k + 1 ≤ k2 := h.2.1
          rcases List.mem_cons.1 hq with hq | hq
          · subst hq; simp; omega
          · apply ihy (n := n) ?_ hq
            · have : ASpec.find? ys k = none := find?_none_of_keysFrom (h.2.2.mono (by omega)) (Nat.lt_succ_self k)
              exact this
            · exact ⟨h.1, (h.2.2).mono (by omega)⟩
      simp [List.filter, List.filter_eq_self.2 hx]
    · have hki : (k == i) = false := by simpa using hk
      simp only [ASpec.find?, hk, if_false] at hf
      simp [List.filter, hki, ih h.2 hf]

theorem Arena.delete_spec (od : α → α) {a : Arena α} (h : a.Inv) (i : Nat) :
    (a.delete od i).map Arena.abs = a.abs.delete i ∧ (∀ a', a.delete od i = some a' → a'.Inv) := by
  unfold Arena.delete ASpec.delete
  have hfi := Arena.find?_iter a i
  by_cases hc : a.contains i
  · have hc' := hc
    simp only [Arena.contains, Bool.and_eq_true, decide_eq_true_eq, Bool.not_eq_true'] at hc'
    obtain ⟨hlt, hnd⟩ := hc'
    have hdc : a.dead.contains i = false := hnd
    have hget : a.get? i = some a.items[i] := by
      simp [Arena.get?, hnd, hlt]
    have hfind : ASpec.find? a.abs.live i = some a.items[i] := by
      simpa [Arena.abs, hget] using hfi
    have hiter : (Arena.iter { items := a.items.modify i od, dead := i :: a.dead }) =
        a.iter.filter (fun p => !(p.1 == i)) := by
      unfold Arena.iter Arena.isDead
      have e1 : (fun q : Nat × α => !(i :: a.dead).contains q.1) =
          (fun q => !(a.dead.contains q.1) && !(q.1 == i)) := by
        funext q
        rw [List.contains_cons]
        cases (q.1 == i) <;> cases (a.dead.contains q.1) <;> rfl
      have := enumFrom_modify 0 a.items i od
      simp only [Nat.zero_add] at this
      rw [e1, ← List.filter_filter, this, List.filter_filter, List.filter_filter]
      congr 1
      funext q
      exact Bool.and_comm _ _
    simp only [hc, if_true, hdc, Bool.false_eq_true, if_false, Option.map_some, hfind]
    constructor
    · simp [Arena.abs, hiter]
    · intro a' ha'
      simp only [Option.some.injEq] at ha'
      subst ha'
      constructor
      · intro d hd
        simp only [List.mem_cons] at hd
        rcases hd with hd | hd
        · subst hd; simpa using hlt
        · have := h.deadLt d hd; simpa using this
      · rw [hiter]
        have hk : KeysFrom 0 a.iter := keysFrom_filter _ (keysFrom_enumFrom 0 a.items)
        have hf2 : ASpec.find? a.iter i = some a.items[i] := by simpa [Arena.abs] using hfind
        have := filter_length_remove hk hf2
        have hcnt := h.count
        simp; omega
  · have hnone : a.get? i = none := by
      simp only [Arena.contains, Bool.and_eq_true, decide_eq_true_eq, Bool.not_eq_true', not_and] at hc
      unfold Arena.get?
      cases hd : a.isDead i
      · have : ¬ i < a.items.length := fun hlt => by simp [hc hlt] at hd
        simp [List.getElem?_eq_none (Nat.le_of_not_lt this)]
      · simp
    have hfind : ASpec.find? a.abs.live i = none := by simpa [Arena.abs, hnone] using hfi
    simp [hc, hfind]

theorem Arena.len_abs {a : Arena α} (h : a.Inv) : a.len = a.abs.live.length := by
  have := h.count
  simp [Arena.len, Arena.abs]; omega

theorem Arena.contains_abs (a : Arena α) (i : Nat) : a.contains i = (a.abs.get? i).isSome := by
  have hfi := Arena.find?_iter a i
  simp only [ASpec.get?, Arena.abs, hfi, Arena.contains, Arena.get?]
  cases hd : a.isDead i
  · by_cases hlt : i < a.items.length
    · simp [hlt]
    · simp [hlt, List.getElem?_eq_none (Nat.le_of_not_lt hlt)]
  · simp

/-- one step of the concrete arena is one step of the specification -/
theorem Arena.step_refines [DecidableEq α] (od : α → α) {a : Arena α} (h : a.Inv) (op : AOp α) :
    ((Arena.step od a op).1.abs, (Arena.step od a op).2) = ASpec.stepWith ASpec.alloc a.abs op
    ∧ (Arena.step od a op).1.Inv := by
  cases op with
  | alloc v =>
    refine ⟨?_, Arena.inv_alloc h v⟩
    simp only [Arena.step, ASpec.stepWith, ASpec.alloc]
    have := Arena.iter_alloc h v
    simp only [Arena.alloc] at this
    simp [Arena.abs, this, Arena.alloc]
  | delete i =>
    have := Arena.delete_spec od h i
    simp only [Arena.step, ASpec.stepWith]
    cases hd : a.delete od i with
    | none =>
      rw [hd] at this
      have h2 : a.abs.delete i = none := by simpa using this.1.symm
      simp [h2, h]
    | some a' =>
      rw [hd] at this
      have h2 : a.abs.delete i = some a'.abs := by simpa using this.1.symm
      simp [h2, this.2 a' rfl]
  | get i =>
    simp [Arena.step, ASpec.stepWith, ASpec.get?, Arena.abs, Arena.find?_iter, h]
  | index i =>
    simp only [Arena.step, ASpec.stepWith, ASpec.get?, Arena.abs, Arena.find?_iter, Arena.index, Arena.get?]
    exact ⟨trivial, h⟩
  | contains i =>
    simp [Arena.step, ASpec.stepWith, Arena.contains_abs, h]
  | iter => simp [Arena.step, ASpec.stepWith, Arena.abs, h]
  | len => simp [Arena.step, ASpec.stepWith, Arena.len_abs h, h]
  | find v => simp [Arena.step, ASpec.stepWith, Arena.abs, h]

/-- refinement over whole histories: same outputs, abstraction commutes, invariant kept -/
theorem Arena.run_refines [DecidableEq α] (od : α → α) (ops : List (AOp α)) {a : Arena α} (h : a.Inv) :
    ((Arena.run od a ops).1.abs, (Arena.run od a ops).2) = ASpec.run a.abs ops
    ∧ (Arena.run od a ops).1.Inv := by
  induction ops generalizing a with
  | nil => simp [Arena.run, ASpec.run, ASpec.runWith, h]
  | cons op ops ih =>
    have hs := Arena.step_refines od h op
    have ih' := ih hs.2
    simp only [Arena.run, ASpec.run, ASpec.runWith]
    have e1 : ASpec.stepWith ASpec.alloc a.abs op = ((Arena.step od a op).1.abs, (Arena.step od a op).2) := hs.1.symm
    rw [e1]
    simp only [ASpec.run] at ih'
    have e2 := ih'.1
    constructor
    · rw [← e2]
    · exact ih'.2

end Walrus
