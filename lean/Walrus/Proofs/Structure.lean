import Walrus.Sem

/-! Reading a flat operator stream back into a tree inverts flattening (the interpreter's view of a
    decoded body is the tree that was written). -/
namespace Walrus.Sem

mutual
def SI.Plain : SI → Prop
  | .op o => structuralName o.name = false
  | .block _ b => b.Plain
  | .loop _ b => b.Plain
  | .ite _ t e => t.Plain ∧ e.Plain
def SL.Plain : SL → Prop
  | .nil => True
  | .cons h t => h.Plain ∧ t.Plain
end

def SL.toList : SL → List SI
  | .nil => []
  | .cons h t => h :: t.toList

theorem ofList_toList : (l : SL) → SL.ofList l.toList = l
  | .nil => rfl
  | .cons h t => by simp [SL.toList, SL.ofList, ofList_toList t]

theorem so_block (bt : BT) (r : List Op) (frames : List PFr) :
    structureOps (⟨"Block", [.bt bt]⟩ :: r) frames = structureOps r (⟨0, bt, [], []⟩ :: frames) := by
  simp [structureOps, btOf]

theorem so_loop (bt : BT) (r : List Op) (frames : List PFr) :
    structureOps (⟨"Loop", [.bt bt]⟩ :: r) frames = structureOps r (⟨1, bt, [], []⟩ :: frames) := by
  simp [structureOps, btOf]

theorem so_if (bt : BT) (r : List Op) (frames : List PFr) :
    structureOps (⟨"If", [.bt bt]⟩ :: r) frames = structureOps r (⟨2, bt, [], []⟩ :: frames) := by
  simp [structureOps, btOf]

theorem so_else (bt : BT) (acc thn : List SI) (r : List Op) (fs : List PFr) :
    structureOps (⟨"Else", []⟩ :: r) (⟨2, bt, acc, thn⟩ :: fs) = structureOps r (⟨3, bt, [], acc.reverse⟩ :: fs) := by
  simp [structureOps]

theorem so_end (k : Nat) (bt : BT) (acc thn : List SI) (p : PFr) (r : List Op) (fs : List PFr) :
    structureOps (⟨"End", []⟩ :: r) (⟨k, bt, acc, thn⟩ :: p :: fs) =
      structureOps r ({ p with acc :=
        (if k = 0 then SI.block bt (SL.ofList acc.reverse) else if k = 1 then SI.loop bt (SL.ofList acc.reverse)
         else if k = 2 then SI.ite bt (SL.ofList acc.reverse) .nil else SI.ite bt (SL.ofList thn) (SL.ofList acc.reverse)) :: p.acc } :: fs) := by
  simp [structureOps]

mutual
theorem structure_I : (i : SI) → i.Plain → ∀ (rest : List Op) (p : PFr) (fs : List PFr),
    structureOps (i.flat ++ rest) (p :: fs) = structureOps rest ({ p with acc := i :: p.acc } :: fs)
  | .op o, hp, rest, p, fs => by
      simp only [SI.Plain, structuralName, Bool.or_eq_false_iff, decide_eq_false_iff_not] at hp
      obtain ⟨⟨⟨⟨h1, h2⟩, h3⟩, h4⟩, h5⟩ := hp
      simp [SI.flat, structureOps, h1, h2, h3, h4, h5]
  | .block bt b, hp, rest, p, fs => by
      have e1 : (SI.block bt b).flat ++ rest = ⟨"Block", [.bt bt]⟩ :: (b.flat ++ (⟨"End", []⟩ :: rest)) := by
        simp [SI.flat]
      rw [e1, so_block, structure_L b hp (⟨"End", []⟩ :: rest) ⟨0, bt, [], []⟩ (p :: fs), so_end]
      simp [ofList_toList]
  | .loop bt b, hp, rest, p, fs => by
      have e1 : (SI.loop bt b).flat ++ rest = ⟨"Loop", [.bt bt]⟩ :: (b.flat ++ (⟨"End", []⟩ :: rest)) := by
        simp [SI.flat]
      rw [e1, so_loop, structure_L b hp (⟨"End", []⟩ :: rest) ⟨1, bt, [], []⟩ (p :: fs), so_end]
      simp [ofList_toList]
  | .ite bt t .nil, hp, rest, p, fs => by
      have e1 : (SI.ite bt t .nil).flat ++ rest = ⟨"If", [.bt bt]⟩ :: (t.flat ++ (⟨"End", []⟩ :: rest)) := by
        simp [SI.flat]
      rw [e1, so_if, structure_L t hp.1 (⟨"End", []⟩ :: rest) ⟨2, bt, [], []⟩ (p :: fs), so_end]
      simp [ofList_toList]
  | .ite bt t (.cons eh et), hp, rest, p, fs => by
      have e1 : (SI.ite bt t (.cons eh et)).flat ++ rest =
          ⟨"If", [.bt bt]⟩ :: (t.flat ++ (⟨"Else", []⟩ :: ((SL.cons eh et).flat ++ (⟨"End", []⟩ :: rest)))) := by
        simp [SI.flat]
      rw [e1, so_if, structure_L t hp.1 _ ⟨2, bt, [], []⟩ (p :: fs), so_else,
        structure_L (.cons eh et) hp.2 (⟨"End", []⟩ :: rest) _ (p :: fs), so_end]
      simp [ofList_toList]
theorem structure_L : (l : SL) → l.Plain → ∀ (rest : List Op) (p : PFr) (fs : List PFr),
    structureOps (l.flat ++ rest) (p :: fs) = structureOps rest ({ p with acc := l.toList.reverse ++ p.acc } :: fs)
  | .nil, _, rest, p, fs => by simp [SL.flat, SL.toList]
  | .cons h t, hp, rest, p, fs => by
      simp only [SL.flat, List.append_assoc]
      rw [structure_I h hp.1 (t.flat ++ rest) p fs, structure_L t hp.2 rest _ fs]
      simp [SL.toList]
end

/-- **reading back what was written**: a body written as `flat` and closed by `end` is read back as
    the same tree -/
theorem structureBody_flat (l : SL) (hp : l.Plain) : structureBody (l.flat ++ [⟨"End", []⟩]) = some l := by
  unfold structureBody
  rw [structure_L l hp [⟨"End", []⟩] ⟨4, .empty, [], []⟩ []]
  simp [structureOps, ofList_toList]

end Walrus.Sem
