import Walrus.Proofs.RoundTripBody
import Walrus.Proofs.Structure
import Walrus.Rename

/-!
The bridge between the two descriptions of a function body (C01, C03).

`Proofs/RoundTripBody.lean` describes what `emit ∘ parse` writes for a body in terms of the source
tree with locations (`outL`).  The executable semantics (`Sem.lean`) reads a flat operator list back
into a tree (`structureBody`) and `Proofs/Rename.lean` proves that the tree `ren ρ (elide t)`
behaves as `t`.  This file shows that the two meet: what `outL` writes, read back by
`structureBody`, *is* `ren ρ (elide t)` of the source tree, for every body whose surviving
operators and block types are taken by the parse-time and emit-time maps where `ρ` takes them
(`agree`, a decidable condition on the leaves of the elided tree; the tree structure, the elision
of `nop`s and dead code, the `else` written for every `if` are proved here, for all bodies).
-/
namespace Walrus
open Sem (SI SL Ren PFr structureOps structureBody structuralName)

-- the source tree as the interpreter sees it
mutual
def PI.toSem : PI → SI
  | .op o _ => .op o
  | .blk o _ b _ => if o.name = "Block" then .block (Sem.btOf o) b.toSem else .loop (Sem.btOf o) b.toSem
  | .if1 o _ t _ => .ite (Sem.btOf o) t.toSem .nil
  | .if2 o _ t _ e _ => .ite (Sem.btOf o) t.toSem e.toSem
def PL.toSem : PL → SL
  | .nil => .nil
  | .cons h t => .cons h.toSem t.toSem
end

theorem btOf_sem (o : Op) (bt : BT) (h : btOf o = some bt) : Sem.btOf o = bt := by
  unfold btOf at h
  unfold Sem.btOf
  split at h <;> simp_all

theorem outLeaf_loc (e : PEnv) (m : IdMaps) (o : Op) (loc : Nat) :
    (outLeaf e m o loc).map (·.map (·.2)) = outLeafOps e m o := by
  unfold outLeafOps outLeaf
  split
  · split <;> simp
  · split
    · split <;> simp
    · split
      · split <;> simp
      · split
        · cases mapArgs m o.args <;> simp
        · split
          · simp
          · cases outArgs e m o.args <;> simp

theorem outLeaf_fst (e : PEnv) (m : IdMaps) (o : Op) (loc : Nat) (ops : List (Nat × Op))
    (h : outLeaf e m o loc = some ops) (a : Op) (ha : outLeafOps e m o = some [a]) : ops = [(loc, a)] := by
  have hl := outLeaf_loc e m o loc
  rw [h, ha] at hl
  simp only [Option.map_some, Option.some.injEq] at hl
  unfold outLeaf at h
  have : ∀ p ∈ ops, p.1 = loc := by
    intro p hp
    split at h
    · split at h <;> first | (simp at h; subst h; simp at hp; simp [hp]) | simp_all
    · split at h
      · split at h <;> first | (simp at h; subst h; simp at hp; simp [hp]) | simp_all
      · split at h
        · split at h <;> first | (simp at h; subst h; simp at hp; simp [hp]) | simp_all
        · split at h
          · cases hm : mapArgs m o.args <;> rw [hm] at h <;> first | (simp at h; subst h; simp at hp; simp [hp]) | simp_all
          · split at h
            · simp_all
            · cases hm : outArgs e m o.args <;> rw [hm] at h <;> first | (simp at h; subst h; simp at hp; simp [hp]) | simp_all
  match ops, hl, this with
  | [p], hl, this =>
    simp only [List.map_cons, List.map_nil, List.cons.injEq, and_true] at hl
    have := this p (by simp)
    cases p; simp_all

theorem ren_op_name (ρ : Ren) (o : Op) : (ρ.op o).name = o.name := by
  unfold Ren.op
  split
  · split <;> rfl
  · split
    · split <;> rfl
    · split
      · split <;> rfl
      · rfl

theorem transfers_endsSeq (o : Op) : transfers o.name = Sem.endsSeq o := by
  unfold transfers Sem.endsSeq
  by_cases h1 : o.name = "Br" <;> by_cases h2 : o.name = "BrTable" <;> by_cases h3 : o.name = "Return" <;>
    by_cases h4 : o.name = "Unreachable" <;> simp [h1, h2, h3, h4]

theorem so_leaf (o : Op) (h : structuralName o.name = false) (r : List Op) (p : PFr) (fs : List PFr) :
    structureOps (o :: r) (p :: fs) = structureOps r ({ p with acc := .op o :: p.acc } :: fs) := by
  simp only [structuralName, Bool.or_eq_false_iff, decide_eq_false_iff_not] at h
  obtain ⟨⟨⟨⟨h1, h2⟩, h3⟩, h4⟩, h5⟩ := h
  simp [structureOps, h1, h2, h3, h4, h5]

mutual
theorem outI_dead (e : PEnv) (m : IdMaps) : (i : PI) → outI e m true i = some ([], true)
  | .op _ _ => by simp [outI]
  | .blk _ _ _ _ => by simp [outI]
  | .if1 _ _ _ _ => by simp [outI]
  | .if2 _ _ _ _ _ _ => by simp [outI]
theorem outL_dead (e : PEnv) (m : IdMaps) : (l : PL) → outL e m true l = some ([], true)
  | .nil => by simp [outL]
  | .cons h t => by simp [outL, outI_dead e m h, outL_dead e m t]
end

def PI.isOp : PI → Bool
  | .op _ _ => true
  | _ => false

theorem toSem_elide_cons (h : PI) (hh : h.isOp = false) (t : SL) :
    SL.elide (.cons h.toSem t) = .cons h.toSem.elide t.elide := by
  cases h with
  | op o loc => simp [PI.isOp] at hh
  | blk o loc b el => simp only [PI.toSem]; split <;> simp [SL.elide]
  | if1 o loc t' el => simp [PI.toSem, SL.elide]
  | if2 o loc t' l2 e' el => simp [PI.toSem, SL.elide]

theorem outI_nonop_flag (e : PEnv) (m : IdMaps) (h : PI) (hh : h.isOp = false) (ops : List (Nat × Op)) (u : Bool)
    (ho : outI e m false h = some (ops, u)) : u = false := by
  cases h with
  | op o loc => simp [PI.isOp] at hh
  | blk o loc b el =>
    simp only [outI, Bool.false_eq_true, if_false] at ho
    split at ho <;> simp_all
  | if1 o loc t' el =>
    simp only [outI, Bool.false_eq_true, if_false] at ho
    split at ho <;> simp_all
  | if2 o loc t' l2 e' el =>
    simp only [outI, Bool.false_eq_true, if_false] at ho
    split at ho <;> simp_all

/-- the statement for one construct -/
def BridgeI (e : PEnv) (m : IdMaps) (ρ : Ren) (i : PI) : Prop :=
  ∀ (ops : List (Nat × Op)) (u : Bool) (rest : List Op) (p : PFr) (fs : List PFr),
    outI e m false i = some (ops, u) → agreeI e m ρ i.toSem.elide = true →
    structureOps (ops.map (·.2) ++ rest) (p :: fs) =
      structureOps rest ({ p with acc := (i.toSem.elide.ren ρ) :: p.acc } :: fs)

/-- the statement for a reachable sequence -/
def BridgeL (e : PEnv) (m : IdMaps) (ρ : Ren) (l : PL) : Prop :=
  ∀ (ops : List (Nat × Op)) (u : Bool) (rest : List Op) (p : PFr) (fs : List PFr),
    outL e m false l = some (ops, u) → agreeL e m ρ l.toSem.elide = true →
    structureOps (ops.map (·.2) ++ rest) (p :: fs) =
      structureOps rest ({ p with acc := (l.toSem.elide.ren ρ).toList.reverse ++ p.acc } :: fs)

theorem cons_nonop (e : PEnv) (m : IdMaps) (ρ : Ren) (h : PI) (t : PL) (hh : h.isOp = false)
    (ihI : BridgeI e m ρ h) (ihL : BridgeL e m ρ t) : BridgeL e m ρ (.cons h t) := by
  intro ops u rest p fs ho ha
  simp only [PL.toSem, toSem_elide_cons h hh, agreeL, Bool.and_eq_true] at ha ⊢
  simp only [outL] at ho
  cases h1 : outI e m false h with
  | none => simp [h1] at ho
  | some r1 =>
    obtain ⟨o1, u1⟩ := r1
    have hu := outI_nonop_flag e m h hh o1 u1 h1
    subst hu
    simp only [h1] at ho
    cases h2 : outL e m false t with
    | none => simp [h2] at ho
    | some r2 =>
      obtain ⟨o2, u2⟩ := r2
      simp only [h2, Option.some.injEq, Prod.mk.injEq] at ho
      obtain ⟨rfl, rfl⟩ := ho
      rw [List.map_append, List.append_assoc, ihI o1 false _ p fs h1 ha.1, ihL o2 u2 rest _ fs h2 ha.2]
      simp [SL.ren, SL.toList]

theorem cons_op (e : PEnv) (m : IdMaps) (ρ : Ren) (o : Op) (loc : Nat) (t : PL)
    (ihL : BridgeL e m ρ t) : BridgeL e m ρ (.cons (.op o loc) t) := by
  intro ops u rest p fs ho ha
  simp only [outL, outI, Bool.false_eq_true, if_false] at ho
  by_cases hn : o.name = "Nop"
  · have hl : outLeaf e m o loc = some [] := by simp [outLeaf, hn]
    have ht : transfers o.name = false := by simp [transfers, hn]
    simp only [hl, ht, Option.map_some] at ho
    simp only [PL.toSem, PI.toSem, SL.elide, hn, if_true] at ha ⊢
    cases h2 : outL e m false t with
    | none => simp [h2] at ho
    | some r2 =>
      obtain ⟨o2, u2⟩ := r2
      simp only [h2, Option.some.injEq, Prod.mk.injEq, List.nil_append] at ho
      obtain ⟨rfl, rfl⟩ := ho
      exact ihL o2 u2 rest p fs h2 ha
  · by_cases hs : Sem.endsSeq o = true
    · simp only [PL.toSem, PI.toSem, SL.elide, hn, if_false, hs, if_true, agreeL, agreeI, Bool.and_true,
        Bool.and_eq_true, Bool.not_eq_true', beq_iff_eq] at ha ⊢
      cases hl : outLeaf e m o loc with
      | none => simp [hl] at ho
      | some l1 =>
        have h1 := outLeaf_fst e m o loc l1 hl _ ha.2
        subst h1
        simp only [hl, Option.map_some, transfers_endsSeq, hs, outL_dead, Option.some.injEq, Prod.mk.injEq] at ho
        obtain ⟨rfl, rfl⟩ := ho
        have hsn : structuralName (ρ.op o).name = false := by rw [ren_op_name]; exact ha.1
        simp [so_leaf _ hsn, SL.ren, SI.ren, SL.toList]
    · have hsf : Sem.endsSeq o = false := by simpa using hs
      simp only [PL.toSem, PI.toSem, SL.elide, hn, if_false, hsf, Bool.false_eq_true, agreeL, agreeI,
        Bool.and_eq_true, Bool.not_eq_true', beq_iff_eq] at ha ⊢
      cases hl : outLeaf e m o loc with
      | none => simp [hl] at ho
      | some l1 =>
        have h1 := outLeaf_fst e m o loc l1 hl _ ha.1.2
        subst h1
        have hs' : transfers o.name = false := by rw [transfers_endsSeq]; exact hsf
        simp only [hl, Option.map_some, hs'] at ho
        cases h2 : outL e m false t with
        | none => simp [h2] at ho
        | some r2 =>
          obtain ⟨o2, u2⟩ := r2
          simp only [h2, Option.some.injEq, Prod.mk.injEq] at ho
          obtain ⟨rfl, rfl⟩ := ho
          have hsn : structuralName (ρ.op o).name = false := by rw [ren_op_name]; exact ha.1.1
          simp only [List.map_append, List.map_cons, List.map_nil, List.cons_append, List.nil_append]
          rw [so_leaf _ hsn, ihL o2 u2 rest _ fs h2 ha.2]
          simp [SL.ren, SI.ren, SL.toList]

theorem outBt_some (e : PEnv) (m : IdMaps) (ρ : Ren) (o : Op) (a : Arg) (h : outBt e m o = some a)
    (hb : outBtOf e m (Sem.btOf o) = some (.bt (ρ.bt (Sem.btOf o)))) : a = .bt (ρ.bt (Sem.btOf o)) := by
  unfold outBt at h
  cases hbt : btOf o with
  | none => simp [hbt] at h
  | some bt =>
    have := btOf_sem o bt hbt
    subst this
    simp only [hbt, Option.bind_some] at h
    unfold outBtOf at hb
    rw [hb] at h
    exact (Option.some.inj h).symm

theorem blk_step (e : PEnv) (m : IdMaps) (ρ : Ren) (o : Op) (loc : Nat) (b : PL) (el : Nat)
    (ihL : BridgeL e m ρ b) : BridgeI e m ρ (.blk o loc b el) := by
  intro ops u rest p fs ho ha
  simp only [outI, Bool.false_eq_true, if_false] at ho
  cases h1 : outBt e m o with
  | none => simp [h1] at ho
  | some a =>
    cases h2 : outL e m false b with
    | none => simp [h1, h2] at ho
    | some r2 =>
      obtain ⟨body, ub⟩ := r2
      simp only [h1, h2, Option.some.injEq, Prod.mk.injEq] at ho
      obtain ⟨rfl, rfl⟩ := ho
      by_cases hn : o.name = "Block"
      · simp only [PI.toSem, hn, if_true, SI.elide, agreeI, Bool.and_eq_true, beq_iff_eq] at ha ⊢
        have := outBt_some e m ρ o a h1 ha.1
        subst this
        have e1 : List.map (fun x : Nat × Op => x.2) ([(loc, (⟨"Block", [.bt (ρ.bt (Sem.btOf o))]⟩ : Op))] ++ body ++ [(el, ⟨"End", []⟩)]) ++ rest
            = ⟨"Block", [.bt (ρ.bt (Sem.btOf o))]⟩ :: (body.map (·.2) ++ (⟨"End", []⟩ :: rest)) := by simp
        rw [e1, Sem.so_block, ihL body ub _ _ _ h2 ha.2, Sem.so_end]
        simp [Sem.ofList_toList, SI.ren]
      · simp only [PI.toSem, hn, if_false, SI.elide, agreeI, Bool.and_eq_true, beq_iff_eq] at ha ⊢
        have := outBt_some e m ρ o a h1 ha.1
        subst this
        have e1 : List.map (fun x : Nat × Op => x.2) ([(loc, (⟨"Loop", [.bt (ρ.bt (Sem.btOf o))]⟩ : Op))] ++ body ++ [(el, ⟨"End", []⟩)]) ++ rest
            = ⟨"Loop", [.bt (ρ.bt (Sem.btOf o))]⟩ :: (body.map (·.2) ++ (⟨"End", []⟩ :: rest)) := by simp
        rw [e1, Sem.so_loop, ihL body ub _ _ _ h2 ha.2, Sem.so_end]
        simp [Sem.ofList_toList, SI.ren]

theorem if1_step (e : PEnv) (m : IdMaps) (ρ : Ren) (o : Op) (loc : Nat) (t : PL) (el : Nat)
    (ihL : BridgeL e m ρ t) : BridgeI e m ρ (.if1 o loc t el) := by
  intro ops u rest p fs ho ha
  simp only [outI, Bool.false_eq_true, if_false] at ho
  cases h1 : outBt e m o with
  | none => simp [h1] at ho
  | some a =>
    cases h2 : outL e m false t with
    | none => simp [h1, h2] at ho
    | some r2 =>
      obtain ⟨tb, ub⟩ := r2
      simp only [h1, h2, Option.some.injEq, Prod.mk.injEq] at ho
      obtain ⟨rfl, rfl⟩ := ho
      simp only [PI.toSem, SI.elide, SL.elide, agreeI, agreeL, Bool.and_eq_true, beq_iff_eq, Bool.and_true] at ha ⊢
      have := outBt_some e m ρ o a h1 ha.1
      subst this
      have e1 : List.map (fun x : Nat × Op => x.2) ([(loc, (⟨"If", [.bt (ρ.bt (Sem.btOf o))]⟩ : Op))] ++ tb ++ [(el, ⟨"Else", []⟩)] ++ [(defaultLoc, ⟨"End", []⟩)]) ++ rest
          = ⟨"If", [.bt (ρ.bt (Sem.btOf o))]⟩ :: (tb.map (·.2) ++ (⟨"Else", []⟩ :: ⟨"End", []⟩ :: rest)) := by simp
      rw [e1, Sem.so_if, ihL tb ub _ _ _ h2 ha.2, Sem.so_else, Sem.so_end]
      simp [Sem.ofList_toList, SI.ren, SL.ren, SL.ofList]

theorem if2_step (e : PEnv) (m : IdMaps) (ρ : Ren) (o : Op) (loc : Nat) (t : PL) (l2 : Nat) (el : PL) (endLoc : Nat)
    (ihT : BridgeL e m ρ t) (ihE : BridgeL e m ρ el) : BridgeI e m ρ (.if2 o loc t l2 el endLoc) := by
  intro ops u rest p fs ho ha
  simp only [outI, Bool.false_eq_true, if_false] at ho
  cases h1 : outBt e m o with
  | none => simp [h1] at ho
  | some a =>
    cases h2 : outL e m false t with
    | none => simp [h1, h2] at ho
    | some r2 =>
      cases h3 : outL e m false el with
      | none => simp [h1, h2, h3] at ho
      | some r3 =>
        obtain ⟨tb, ub⟩ := r2
        obtain ⟨eb, ue⟩ := r3
        simp only [h1, h2, h3, Option.some.injEq, Prod.mk.injEq] at ho
        obtain ⟨rfl, rfl⟩ := ho
        simp only [PI.toSem, SI.elide, agreeI, Bool.and_eq_true, beq_iff_eq] at ha ⊢
        have := outBt_some e m ρ o a h1 ha.1.1
        subst this
        have e1 : List.map (fun x : Nat × Op => x.2) ([(loc, (⟨"If", [.bt (ρ.bt (Sem.btOf o))]⟩ : Op))] ++ tb ++ [(l2, ⟨"Else", []⟩)] ++ eb ++ [(endLoc, ⟨"End", []⟩)]) ++ rest
            = ⟨"If", [.bt (ρ.bt (Sem.btOf o))]⟩ :: (tb.map (·.2) ++ (⟨"Else", []⟩ :: (eb.map (·.2) ++ (⟨"End", []⟩ :: rest)))) := by simp
        rw [e1, Sem.so_if, ihT tb ub _ _ _ h2 ha.1.2, Sem.so_else, ihE eb ue _ _ _ h3 ha.2, Sem.so_end]
        simp [Sem.ofList_toList, SI.ren]

mutual
theorem bridge_I (e : PEnv) (m : IdMaps) (ρ : Ren) : (i : PI) → i.isOp = false → BridgeI e m ρ i
  | .op _ _, h => by simp [PI.isOp] at h
  | .blk o loc b el, _ => blk_step e m ρ o loc b el (bridge_L e m ρ b)
  | .if1 o loc t el, _ => if1_step e m ρ o loc t el (bridge_L e m ρ t)
  | .if2 o loc t l2 el endLoc, _ => if2_step e m ρ o loc t l2 el endLoc (bridge_L e m ρ t) (bridge_L e m ρ el)
theorem bridge_L (e : PEnv) (m : IdMaps) (ρ : Ren) : (l : PL) → BridgeL e m ρ l
  | .nil => by
      intro ops u rest p fs ho _
      simp only [outL, Option.some.injEq, Prod.mk.injEq] at ho
      obtain ⟨rfl, rfl⟩ := ho
      simp [PL.toSem, SL.elide, SL.ren, SL.toList]
  | .cons (.op o loc) t => cons_op e m ρ o loc t (bridge_L e m ρ t)
  | .cons (.blk o loc b el) t =>
      cons_nonop e m ρ _ t rfl (bridge_I e m ρ (.blk o loc b el) rfl) (bridge_L e m ρ t)
  | .cons (.if1 o loc t' el) t =>
      cons_nonop e m ρ _ t rfl (bridge_I e m ρ (.if1 o loc t' el) rfl) (bridge_L e m ρ t)
  | .cons (.if2 o loc t' l2 e' el) t =>
      cons_nonop e m ρ _ t rfl (bridge_I e m ρ (.if2 o loc t' l2 e' el) rfl) (bridge_L e m ρ t)
end

/-- **what the round trip writes, read back, is the renumbered elided source tree**: for every body,
    if `emit ∘ parse` writes `ops` (`outL`, which `body_round_trip_in_source_terms` shows it does) and
    the maps agree with `ρ` on the surviving leaves and block types, then the interpreter's reading
    of `ops` closed by `end` is `ren ρ (elide t)` for `t` the interpreter's reading of the source -/
theorem output_reads_as_ren_elide (e : PEnv) (m : IdMaps) (ρ : Ren) (body : PL) (ops : List (Nat × Op)) (u : Bool)
    (ho : outL e m false body = some (ops, u)) (ha : agreeL e m ρ body.toSem.elide = true) :
    structureBody (ops.map (·.2) ++ [⟨"End", []⟩]) = some (body.toSem.elide.ren ρ) := by
  unfold structureBody
  rw [bridge_L e m ρ body ops u [⟨"End", []⟩] ⟨4, .empty, [], []⟩ [] ho ha]
  simp [structureOps, Sem.ofList_toList]

/-! ## the source, read by the interpreter, is `toSem` of the source tree -/

theorem so_block' (o : Op) (h : o.name = "Block") (r : List Op) (frames : List PFr) :
    structureOps (o :: r) frames = structureOps r (⟨0, Sem.btOf o, [], []⟩ :: frames) := by
  simp [structureOps, h]

theorem so_loop' (o : Op) (h : o.name = "Loop") (r : List Op) (frames : List PFr) :
    structureOps (o :: r) frames = structureOps r (⟨1, Sem.btOf o, [], []⟩ :: frames) := by
  simp [structureOps, h]

theorem so_if' (o : Op) (h : o.name = "If") (r : List Op) (frames : List PFr) :
    structureOps (o :: r) frames = structureOps r (⟨2, Sem.btOf o, [], []⟩ :: frames) := by
  simp [structureOps, h]

theorem isStructural_eq (n : String) : isStructural n = structuralName n := rfl

mutual
theorem read_I : (i : PI) → i.WF → ∀ (rest : List Op) (p : PFr) (fs : List PFr),
    structureOps (i.flat.map (·.1) ++ rest) (p :: fs) = structureOps rest ({ p with acc := i.toSem :: p.acc } :: fs)
  | .op o loc, hw, rest, p, fs => by
      simp only [PI.WF, isStructural_eq] at hw
      simp [PI.flat, PI.toSem, so_leaf o hw]
  | .blk o loc b el, hw, rest, p, fs => by
      have e1 : (PI.blk o loc b el).flat.map (·.1) ++ rest = o :: (b.flat.map (·.1) ++ (⟨"End", []⟩ :: rest)) := by
        simp [PI.flat, opEnd]
      rw [e1]
      rcases hw.1 with hn | hn
      · rw [so_block' o hn, read_L b hw.2 _ _ _, Sem.so_end]
        simp [PI.toSem, hn, Sem.ofList_toList]
      · have hnb : o.name ≠ "Block" := by rw [hn]; decide
        rw [so_loop' o hn, read_L b hw.2 _ _ _, Sem.so_end]
        simp [PI.toSem, hnb, Sem.ofList_toList]
  | .if1 o loc t el, hw, rest, p, fs => by
      have e1 : (PI.if1 o loc t el).flat.map (·.1) ++ rest = o :: (t.flat.map (·.1) ++ (⟨"End", []⟩ :: rest)) := by
        simp [PI.flat, opEnd]
      rw [e1, so_if' o hw.1, read_L t hw.2 _ _ _, Sem.so_end]
      simp [PI.toSem, Sem.ofList_toList]
  | .if2 o loc t l2 e' el, hw, rest, p, fs => by
      have e1 : (PI.if2 o loc t l2 e' el).flat.map (·.1) ++ rest =
          o :: (t.flat.map (·.1) ++ (⟨"Else", []⟩ :: (e'.flat.map (·.1) ++ (⟨"End", []⟩ :: rest)))) := by
        simp [PI.flat, opEnd, opElse]
      rw [e1, so_if' o hw.1, read_L t hw.2.1 _ _ _, Sem.so_else, read_L e' hw.2.2 _ _ _, Sem.so_end]
      simp [PI.toSem, Sem.ofList_toList]
theorem read_L : (l : PL) → l.WF → ∀ (rest : List Op) (p : PFr) (fs : List PFr),
    structureOps (l.flat.map (·.1) ++ rest) (p :: fs) =
      structureOps rest ({ p with acc := l.toSem.toList.reverse ++ p.acc } :: fs)
  | .nil, _, rest, p, fs => by simp [PL.flat, PL.toSem, SL.toList]
  | .cons h t, hw, rest, p, fs => by
      simp only [PL.flat, List.map_append, List.append_assoc]
      rw [read_I h hw.1 _ p fs, read_L t hw.2 rest _ fs]
      simp [PL.toSem, SL.toList]
end

/-- the interpreter's reading of a well-nested source body is `toSem` of its tree -/
theorem source_reads_as_toSem (body : PL) (hw : body.WF) (endLoc : Nat) :
    structureBody ((body.flat ++ [(opEnd, endLoc)]).map (·.1)) = some body.toSem := by
  unfold structureBody
  rw [List.map_append, read_L body hw _ ⟨4, .empty, [], []⟩ []]
  simp [structureOps, opEnd, Sem.ofList_toList]

/-- **the body round trip, as the interpreter reads it**: if the interpreter reads the source body
    as `t`, it reads what `emit ∘ parse` writes for that body as `ren ρ (elide t)` -/
theorem round_trip_reads_as_ren_elide (e : PEnv) (m : IdMaps) (ρ : Ren) (body : PL) (hw : body.WF) (endLoc : Nat)
    (ops : List (Nat × Op)) (u : Bool) (ho : outL e m false body = some (ops, u))
    (t : SL) (ht : structureBody ((body.flat ++ [(opEnd, endLoc)]).map (·.1)) = some t)
    (ha : agreeL e m ρ t.elide = true) :
    structureBody (ops.map (·.2) ++ [⟨"End", []⟩]) = some (t.elide.ren ρ) := by
  rw [source_reads_as_toSem body hw endLoc] at ht
  cases ht
  exact output_reads_as_ren_elide e m ρ body ops u ho ha

/-! ## a class of operators for which `agree` needs no evaluation -/

def noRefs (args : List Arg) : Prop := ∀ a ∈ args, ∀ sp i, a ≠ Arg.ref sp i

theorem wrapOffsets_noRefs : ∀ (args : List Arg), noRefs args → wrapOffsets args = args
  | [], _ => rfl
  | [a], _ => by simp [wrapOffsets]
  | [a, b], _ => by simp [wrapOffsets]
  | a :: b :: c :: r, h => by
    have h3 : ∀ sp i, c ≠ Arg.ref sp i := h c (by simp)
    have ih := wrapOffsets_noRefs (b :: c :: r) (fun x hx => h x (List.mem_cons_of_mem _ hx))
    cases a <;> cases b <;> cases c <;> simp_all [wrapOffsets]

theorem pMapArgs_noRefs (e : PEnv) : ∀ (args : List Arg), noRefs args → pMapArgs e args = some args
  | [], _ => rfl
  | a :: r, h => by
    have ih := pMapArgs_noRefs e r (fun x hx => h x (List.mem_cons_of_mem _ hx))
    have ha := h a (by simp)
    cases a with
    | ref sp i => exact absurd rfl (ha sp i)
    | num n => simp [pMapArgs, ih]
    | imm t => simp [pMapArgs, ih]
    | bt b => simp [pMapArgs, ih]

theorem mapArgs_noRefs (m : IdMaps) : ∀ (args : List Arg), noRefs args → mapArgs m args = some args
  | [], _ => rfl
  | a :: r, h => by
    have ih := mapArgs_noRefs m r (fun x hx => h x (List.mem_cons_of_mem _ hx))
    have ha := h a (by simp)
    cases a with
    | ref sp i => exact absurd rfl (ha sp i)
    | num n => simp [mapArgs, ih]
    | imm t => simp [mapArgs, ih]
    | bt b => simp [mapArgs, ih]

theorem ren_op_noRefs (ρ : Ren) (o : Op) (h : noRefs o.args) : ρ.op o = o := by
  unfold Ren.op
  split
  · split
    · rename_i sp f heq
      exact absurd rfl (h (.ref sp f) (by rw [heq]; simp) sp f)
    · rfl
  · split
    · split
      · rename_i sp y t heq
        exact absurd rfl (h (.ref sp y) (by rw [heq]; simp) sp y)
      · rfl
    · split
      · split
        · rename_i sp x heq
          exact absurd rfl (h (.ref sp x) (by rw [heq]; simp) sp x)
        · rfl
      · rfl

/-- **operators without entity operands agree with every renumbering**: constants, arithmetic,
    comparisons, conversions, `drop`, `select`, … — whatever the environment, the maps and `ρ` -/
theorem agree_of_noRefs (e : PEnv) (m : IdMaps) (ρ : Ren) (o : Op) (hs : structuralName o.name = false)
    (hc : o.name ≠ "Br" ∧ o.name ≠ "BrIf" ∧ o.name ≠ "BrTable" ∧ o.name ≠ "Return" ∧ o.name ≠ "Unreachable" ∧
      o.name ≠ "Nop") (hr : noRefs o.args) : agreeI e m ρ (.op o) = true := by
  obtain ⟨h1, h2, h3, h4, h5, h6⟩ := hc
  simp only [agreeI, hs, Bool.not_false, Bool.true_and, beq_iff_eq, outLeafOps, outLeaf, h1, h2, h3, h4, h5, h6,
    if_false, Bool.or_self, Bool.false_eq_true, outArgs, wrapOffsets_noRefs _ hr, pMapArgs_noRefs e _ hr,
    Option.bind_some, mapArgs_noRefs m _ hr, Option.map_some, List.map_cons, List.map_nil, ren_op_noRefs ρ o hr]
  simp

end Walrus
