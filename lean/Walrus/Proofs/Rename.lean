import Walrus.Rename
import Walrus.Run
import Walrus.Proofs.Glue
import Walrus.Proofs.Sem

/-! Renumbering of functions, types, locals and block types is unobservable (C01, C06, C18). -/
namespace Walrus.Sem

/-- how the index tables of the renumbered module relate to the original ones -/
structure CtxRen (ρ : Ren) (C' C : Ctx) : Prop where
  us : C'.US = C.US
  ft : ∀ f, C'.FT[ρ.f f]? = C.FT[f]?
  ty : ∀ y, C'.T[ρ.y y]? = C.T[y]?
  bt : ∀ b, arity C'.T (ρ.bt b) = arity C.T b

/-- the locals a body actually names keep their uid and type -/
def localOK (C' C : Ctx) (ρ : Ren) (o : Op) : Prop :=
  isLocalOp o.name = true → ∀ sp x, o.args = [.ref sp x] → C'.LT[ρ.x x]? = C.LT[x]?

theorem Ren.op_name (ρ : Ren) (o : Op) : (ρ.op o).name = o.name := by
  unfold Ren.op
  split
  · split <;> rfl
  · split
    · split <;> rfl
    · split
      · split <;> rfl
      · rfl

theorem Ren.op_plain (ρ : Ren) (o : Op) (h : isSpecial o.name = false) : ρ.op o = o := by
  unfold Ren.op
  simp only [isSpecial, isLocalOp, Bool.or_eq_false_iff, decide_eq_false_iff_not] at h
  obtain ⟨⟨⟨⟨⟨⟨⟨h1, h2⟩, h3⟩, h4⟩, h5⟩, h6⟩, h7⟩, h8⟩ := h
  simp [h1, h2, h3, h4, h5, h6, h7, h8, isLocalOp]

theorem execOp_ren (ρ : Ren) (C' C : Ctx) (hc : CtxRen ρ C' C) (call : CallFn) (o : Op) (s : St)
    (hl : localOK C' C ρ o) : execOp C' call (ρ.op o) s = execOp C call o s := by
  unfold execOp
  rw [Ren.op_name]
  cases hs : isSpecial o.name with
  | false => simp [Ren.op_plain ρ o hs]
  | true =>
    simp only [if_true]
    simp only [isSpecial, Bool.or_eq_true, decide_eq_true_eq] at hs
    obtain ⟨n, args⟩ := o
    simp only at hs
    rcases hs with ((((((h | h) | h) | h) | h) | h) | h) | h <;> subst h
    · -- Call
      rcases args with _ | ⟨a, _ | ⟨b, r⟩⟩
      · simp [Ren.op, execSpecial]
      · cases a <;> simp [Ren.op, execSpecial, hc.ft, hc.us]
      · simp [Ren.op, execSpecial]
    · -- CallIndirect
      rcases args with _ | ⟨a, _ | ⟨b, _ | ⟨c, r⟩⟩⟩
      · simp [Ren.op, execSpecial]
      · simp [Ren.op, execSpecial]
      · cases a <;> cases b <;> rcases hst : s.stack with _ | ⟨v, r⟩ <;> simp [Ren.op, execSpecial, hc.ty, hc.us, hst]
      · simp [Ren.op, execSpecial]
    · -- LocalGet
      rcases args with _ | ⟨a, _ | ⟨b, r⟩⟩
      · simp [Ren.op, execSpecial, isLocalOp]
      · cases a with
        | ref sp x =>
          have := hl (by simp [isLocalOp]) sp x rfl
          simp [Ren.op, execSpecial, isLocalOp, this]
        | _ => simp [Ren.op, execSpecial, isLocalOp]
      · simp [Ren.op, execSpecial, isLocalOp]
    · -- LocalSet
      rcases args with _ | ⟨a, _ | ⟨b, r⟩⟩
      · simp [Ren.op, execSpecial, isLocalOp]
      · cases a with
        | ref sp x =>
          have := hl (by simp [isLocalOp]) sp x rfl
          rcases hst : s.stack with _ | ⟨v, r⟩ <;> simp [Ren.op, execSpecial, isLocalOp, this, hst]
        | _ => simp [Ren.op, execSpecial, isLocalOp]
      · simp [Ren.op, execSpecial, isLocalOp]
    · -- LocalTee
      rcases args with _ | ⟨a, _ | ⟨b, r⟩⟩
      · simp [Ren.op, execSpecial, isLocalOp]
      · cases a with
        | ref sp x =>
          have := hl (by simp [isLocalOp]) sp x rfl
          rcases hst : s.stack with _ | ⟨v, r⟩ <;> simp [Ren.op, execSpecial, isLocalOp, this, hst]
        | _ => simp [Ren.op, execSpecial, isLocalOp]
      · simp [Ren.op, execSpecial, isLocalOp]
    · -- RefFunc
      rcases args with _ | ⟨a, _ | ⟨b, r⟩⟩
      · simp [Ren.op, execSpecial]
      · cases a <;> simp [Ren.op, execSpecial, hc.ft]
      · simp [Ren.op, execSpecial]
    · -- ReturnCall
      rcases args with _ | ⟨a, _ | ⟨b, r⟩⟩
      · simp [Ren.op, execSpecial]
      · cases a <;> simp [Ren.op, execSpecial, hc.ft, hc.us]
      · simp [Ren.op, execSpecial]
    · -- ReturnCallIndirect
      rcases args with _ | ⟨a, _ | ⟨b, _ | ⟨c, r⟩⟩⟩
      · simp [Ren.op, execSpecial]
      · simp [Ren.op, execSpecial]
      · cases a <;> cases b <;> rcases hst : s.stack with _ | ⟨v, r⟩ <;> simp [Ren.op, execSpecial, hc.ty, hc.us, hst]
      · simp [Ren.op, execSpecial]


theorem finishBlock_congr (nr h : Nat) (a b : Out) (hab : a = b) : finishBlock nr h a = finishBlock nr h b := by
  rw [hab]

/-- what the two `Rec`s must agree on -/
structure RecRen (ρ : Ren) (C' C : Ctx) (R' R : Rec) : Prop where
  call : R'.call = R.call
  loop : ∀ bt b s, b.All (localOK C' C ρ) → R'.reLoop C'.LT (ρ.bt bt) (b.ren ρ) s = R.reLoop C.LT bt b s

mutual
theorem ren_execI (ρ : Ren) (C' C : Ctx) (hc : CtxRen ρ C' C) (R' R : Rec) (hr : RecRen ρ C' C R' R) :
    (i : SI) → ∀ s, i.All (localOK C' C ρ) → execI C' R' (i.ren ρ) s = execI C R i s
  | .op o, s, ha => by
      simp only [SI.ren, execI, hr.call]
      exact execOp_ren ρ C' C hc R.call o s ha
  | .block bt b, s, ha => by
      simp only [SI.ren, execI, hc.bt]
      rw [ren_execL ρ C' C hc R' R hr b s ha]
  | .loop bt b, s, ha => by
      simp only [SI.ren, execI, hc.bt]
      rw [ren_execL ρ C' C hc R' R hr b s ha]
      split <;> simp [hr.loop bt b _ ha]
  | .ite bt t e, s, ha => by
      simp only [SI.ren, execI, hc.bt]
      split
      · rw [ren_execL ρ C' C hc R' R hr t _ ha.1, ren_execL ρ C' C hc R' R hr e _ ha.2]
      · rfl
theorem ren_execL (ρ : Ren) (C' C : Ctx) (hc : CtxRen ρ C' C) (R' R : Rec) (hr : RecRen ρ C' C R' R) :
    (l : SL) → ∀ s, l.All (localOK C' C ρ) → execL C' R' (l.ren ρ) s = execL C R l s
  | .nil, s, _ => by simp [SL.ren, execL]
  | .cons h t, s, ha => by
      simp only [SL.ren, execL]
      rw [ren_execI ρ C' C hc R' R hr h s ha.1]
      cases hx : execI C R h s with
      | ok s' => exact ren_execL ρ C' C hc R' R hr t s' ha.2
      | _ => rfl
end


/-- `E'` is `E` renumbered: functions by `fρ`, types by `yρ` and `btρ`, the locals of the function
    with uid `u` by `xρ u`.  Functions keep their uid, signature, import names and parameters; the
    body of each is the renumbered body; every local a body names keeps its uid and type (locals
    that are never named may disappear). -/
structure EnvRen (fρ yρ : Nat → Nat) (btρ : BT → BT) (xρ : Nat → Nat → Nat) (E' E : Env) : Prop where
  ft : ∀ f, E'.ftab[fρ f]? = E.ftab[f]?
  ty : ∀ y, E'.types[yρ y]? = E.types[y]?
  bt : ∀ b, arity E'.types (btρ b) = arity E.types b
  len : E'.ufuncs.length = E.ufuncs.length
  fn : ∀ (u : Nat) (fi : FuncInfo), E.ufuncs[u]? = some fi → ∃ fi' : FuncInfo, E'.ufuncs[u]? = some fi' ∧ fi'.sig = fi.sig ∧ fi'.imp = fi.imp ∧
        fi'.lt.take fi.sig.1.length = fi.lt.take fi.sig.1.length ∧
        fi'.body = fi.body.ren ⟨fρ, yρ, xρ u, btρ⟩ ∧
        fi.body.All (localOK (E'.ctx fi'.lt) (E.ctx fi.lt) ⟨fρ, yρ, xρ u, btρ⟩)

variable {fρ yρ : Nat → Nat} {btρ : BT → BT} {xρ : Nat → Nat → Nat} {E' E : Env}

theorem EnvRen.usigs (h : EnvRen fρ yρ btρ xρ E' E) : E'.usigs = E.usigs := by
  apply List.ext_getElem?
  intro u
  simp only [Env.usigs, List.getElem?_map]
  cases hu : E.ufuncs[u]? with
  | none =>
    have : E'.ufuncs[u]? = none := by
      rw [List.getElem?_eq_none_iff] at hu ⊢
      rw [h.len]; exact hu
    simp [this]
  | some fi =>
    obtain ⟨fi', h1, h2, _⟩ := h.fn u fi hu
    simp [h1, h2]

theorem EnvRen.ctx (h : EnvRen fρ yρ btρ xρ E' E) (u : Nat) (lt' lt : List (Nat × String)) :
    CtxRen ⟨fρ, yρ, xρ u, btρ⟩ (E'.ctx lt') (E.ctx lt) :=
  ⟨h.usigs, h.ft, h.ty, h.bt⟩

theorem mkRec_ren (h : EnvRen fρ yρ btρ xρ E' E) : ∀ (n : Nat),
    (mkRec E' n).call = (mkRec E n).call ∧
    ∀ (u : Nat) (lt' lt : List (Nat × String)),
      RecRen ⟨fρ, yρ, xρ u, btρ⟩ (E'.ctx lt') (E.ctx lt) (mkRec E' n) (mkRec E n)
  | 0 => ⟨rfl, fun _ _ _ => ⟨rfl, fun _ _ _ _ => rfl⟩⟩
  | n+1 => by
    have ih := mkRec_ren h n
    have hcall : (mkRec E' (n + 1)).call = (mkRec E (n + 1)).call := by
      funext u args st
      simp only [mkRec, callFn]
      split
      · rfl
      · cases hu : E.ufuncs[u]? with
        | none =>
          have : E'.ufuncs[u]? = none := by
            rw [List.getElem?_eq_none_iff] at hu ⊢
            rw [h.len]; exact hu
          simp [this]
        | some fi =>
          obtain ⟨fi', h1, h2, h3, h4, h5, h6⟩ := h.fn u fi hu
          simp only [h1, h2, h3]
          cases hi : fi.imp with
          | some p => rfl
          | none =>
            simp only [h4, h5]
            rw [ren_execL _ (E'.ctx fi'.lt) (E.ctx fi.lt) (h.ctx u fi'.lt fi.lt) _ _ (ih.2 u fi'.lt fi.lt) fi.body _ h6]
    refine ⟨hcall, fun u lt' lt => ⟨hcall, ?_⟩⟩
    intro bt b s ha
    simp only [mkRec, Env.ctx]
    split
    · rfl
    · exact ren_execI _ (E'.ctx lt') (E.ctx lt) (h.ctx u lt' lt) _ _ (ih.2 u lt' lt) (.loop bt b) _ ha

/-- **calls into the renumbered module mean what they meant before** (functions are named by uid,
    which the renumbering keeps), for every gas budget -/
theorem invoke_ren (h : EnvRen fρ yρ btρ xρ E' E) (gas : Nat) : invoke E' gas = invoke E gas := by
  unfold invoke
  rw [(mkRec_ren h (gas + 1)).1]


theorem EnvRen.resolve (h : EnvRen fρ yρ btρ xρ E' E) : (fun f => E'.resolve (fρ f)) = E.resolve := by
  funext f
  exact h.ft f

/-- **the whole observation is unchanged by renumbering**: the renumbered module (function indices
    of exports, start, element items and `ref.func` constants renumbered by `fρ`; bodies, types and
    locals as `EnvRen` says) instantiates with the same outcome and every call of the script has
    the same result, trap, host trace and leaves the same exported state -/
theorem observe_ren (h : EnvRen fρ yρ btρ xρ E' E) (m : ModuleM) (gas seed rounds : Nat) :
    observeWith (mapFM fρ m) E'.resolve E'.usigs (invoke E' gas) seed rounds =
    observeWith m E.resolve E.usigs (invoke E gas) seed rounds := by
  rw [observeWith_mapF, h.resolve, h.usigs, invoke_ren h]

/-- elision followed by renumbering — what walrus's round trip does to a module -/
theorem observe_ren_elide (h : EnvRen fρ yρ btρ xρ E' E.elide) (m : ModuleM) (gas seed rounds : Nat) :
    observeWith (mapFM fρ m) E'.resolve E'.usigs (invoke E' gas) seed rounds =
    observeWith m E.resolve E.usigs (invoke E gas) seed rounds := by
  rw [observe_ren h, observe_elide]

end Walrus.Sem
