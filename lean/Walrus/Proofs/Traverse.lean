import Walrus.Traverse

/-! Simulation proofs: the explicit-stack traversals equal the recursive reference walks. -/
namespace Walrus

section
variable {σ ι ε : Type}
variable (evS : Nat → σ → List ε) (evI : ι → List ε) (evE : Nat → σ → List ε)

theorem inOrderRun_add (ar : TArena σ ι) (m n : Nat) (st) :
    inOrderRun evS evI evE ar (m + n) st = inOrderRun evS evI evE ar n (inOrderRun evS evI evE ar m st) := by
  induction m generalizing st with
  | zero => simp [inOrderRun]
  | succ m ih => rw [Nat.succ_add]; simp [inOrderRun, ih]

theorem inOrderRun_done (ar : TArena σ ι) (n : Nat) (out : List ε) :
    inOrderRun evS evI evE ar n ([], out) = ([], out) := by
  induction n with
  | zero => rfl
  | succ n ih => simp [inOrderRun, inOrderStep, ih]

/-- positions `k..` of sequence `s` hold the instruction list of `t` -/
def Suffix (ar : TArena σ ι) (s k : Nat) (sp : σ) (t : TL σ ι) : Prop :=
  ∃ pre : List (TInstr ι), ar.get? s = some (sp, pre ++ t.toList) ∧ pre.length = k

theorem suffix_zero {ar : TArena σ ι} {s sp} {t : TL σ ι} (h : ar.get? s = some (sp, t.toList)) :
    Suffix ar s 0 sp t := ⟨[], by simpa using h, rfl⟩

theorem suffix_next {ar : TArena σ ι} {s k sp h} {t : TL σ ι} (hs : Suffix ar s k sp (.cons h t)) :
    Suffix ar s (k+1) sp t := by
  obtain ⟨pre, h1, h2⟩ := hs
  exact ⟨pre ++ [h.toInstr], by simpa [TL.toList] using h1, by simp [h2]⟩

def pushKids : TI σ ι → List (Nat × Nat) → List (Nat × Nat)
  | .leaf _, rest => rest
  | .one _ s _ _, rest => (s, 0) :: rest
  | .two _ c _ _ a _ _, rest => (c, 0) :: (a, 0) :: rest

def pre' (s : Nat) (sp : σ) (k : Nat) (out : List ε) : List ε := if k = 0 then out ++ evS s sp else out

theorem step_cons {ar : TArena σ ι} {s k sp h} {t : TL σ ι} {rest out}
    (hs : Suffix ar s k sp (.cons h t)) :
    inOrderStep evS evI evE ar ((s, k) :: rest, out) =
      (pushKids h ((s, k+1) :: rest), pre' evS s sp k out ++ evI h.toInstr.payload) := by
  obtain ⟨pre, h1, h2⟩ := hs
  have hg : (pre ++ (TL.cons h t).toList)[k]? = some h.toInstr := by subst h2; simp [TL.toList]
  unfold inOrderStep
  simp only [h1, hg, pre']
  cases h <;> simp [TI.toInstr, pushKids]

theorem step_nil {ar : TArena σ ι} {s k sp} {rest out} (hs : Suffix ar s k sp (.nil : TL σ ι)) :
    inOrderStep evS evI evE ar ((s, k) :: rest, out) = (rest, pre' evS s sp k out ++ evE s sp) := by
  obtain ⟨pre, h1, h2⟩ := hs
  have hg : (pre ++ (TL.nil : TL σ ι).toList)[k]? = none := by subst h2; simp [TL.toList]
  unfold inOrderStep
  simp only [h1, hg, pre']

mutual
theorem sim_I (ar : TArena σ ι) : (i : TI σ ι) → ViewI ar i → ∀ rest out,
    ∃ n, inOrderRun evS evI evE ar n (pushKids i rest, out) = (rest, out ++ walkKids evS evI evE i)
  | .leaf _, _, rest, out => ⟨0, by simp [inOrderRun, pushKids, walkKids]⟩
  | .one p s sp b, hv, rest, out => by
      cases hv with
      | one _ _ _ _ hc hb =>
        obtain ⟨n, hn⟩ := sim_L ar b hb s sp 0 rest out (suffix_zero hc)
        exact ⟨n, by simp [pushKids, walkKids, hn, pre']⟩
  | .two p c cp tc a ap ta, hv, rest, out => by
      cases hv with
      | two _ _ _ _ _ _ _ hc ha hvc hva =>
        obtain ⟨n1, h1⟩ := sim_L ar tc hvc c cp 0 ((a, 0) :: rest) out (suffix_zero hc)
        obtain ⟨n2, h2⟩ := sim_L ar ta hva a ap 0 rest
          (pre' evS c cp 0 out ++ walkL evS evI evE tc ++ evE c cp) (suffix_zero ha)
        refine ⟨n1 + n2, ?_⟩
        simp only [pushKids, inOrderRun_add, h1, h2]
        simp [walkKids, pre']
theorem sim_L (ar : TArena σ ι) : (t : TL σ ι) → ViewL ar t → ∀ s sp k rest out, Suffix ar s k sp t →
    ∃ n, inOrderRun evS evI evE ar n ((s, k) :: rest, out) =
      (rest, pre' evS s sp k out ++ walkL evS evI evE t ++ evE s sp)
  | .nil, _, s, sp, k, rest, out, hs => ⟨1, by simp [inOrderRun, step_nil evS evI evE hs, walkL]⟩
  | .cons h t, hv, s, sp, k, rest, out, hs => by
      cases hv with
      | cons _ _ hh ht =>
        obtain ⟨n1, h1⟩ := sim_I ar h hh ((s, k+1) :: rest) (pre' evS s sp k out ++ evI h.toInstr.payload)
        obtain ⟨n2, h2⟩ := sim_L ar t ht s sp (k+1) rest
          (pre' evS s sp k out ++ evI h.toInstr.payload ++ walkKids evS evI evE h) (suffix_next hs)
        refine ⟨1 + (n1 + n2), ?_⟩
        rw [inOrderRun_add, inOrderRun_add]
        simp only [inOrderRun, step_cons evS evI evE hs, h1, h2]
        simp [pre', walkL]
end

/-- **in-order traversal = recursive walk**, for every function whose sequence graph unfolds to a
    finite tree; extra fuel is harmless. -/
theorem dfsInOrder_eq_walk (ar : TArena σ ι) (entry : Nat) (sp : σ) (t : TL σ ι)
    (he : ar.get? entry = some (sp, t.toList)) (hv : ViewL ar t) :
    ∃ n, ∀ fuel, n ≤ fuel → dfsInOrder evS evI evE ar fuel entry = ([], walkSeq evS evI evE entry sp t) := by
  obtain ⟨n, hn⟩ := sim_L evS evI evE ar t hv entry sp 0 [] [] (suffix_zero he)
  refine ⟨n, fun fuel hf => ?_⟩
  obtain ⟨d, rfl⟩ := Nat.exists_eq_add_of_le hf
  unfold dfsInOrder
  rw [inOrderRun_add, hn, inOrderRun_done]
  simp [pre', walkSeq]

/-! ### pre-order (mutable) traversal -/

theorem preOrderRun_add (ar : TArena σ ι) (m n : Nat) (st) :
    preOrderRun evS evI evE ar (m + n) st = preOrderRun evS evI evE ar n (preOrderRun evS evI evE ar m st) := by
  induction m generalizing st with
  | zero => simp [preOrderRun]
  | succ m ih => rw [Nat.succ_add]; simp [preOrderRun, ih]

theorem preOrderRun_done (ar : TArena σ ι) (n : Nat) (out : List ε) :
    preOrderRun evS evI evE ar n ([], out) = ([], out) := by
  induction n with
  | zero => rfl
  | succ n ih => simp [preOrderRun, preOrderStep, ih]

/-- the nested sequences of an instruction list in the order they will be popped -/
def popsI : TI σ ι → List Nat
  | .leaf _ => []
  | .one _ s _ _ => [s]
  | .two _ c _ _ a _ _ => [c, a]

def pops : TL σ ι → List Nat
  | .nil => []
  | .cons h t => pops t ++ popsI h

theorem pushes_reverse : (t : TL σ ι) → (t.toList.flatMap kidPush).reverse = pops t
  | .nil => rfl
  | .cons h t => by
    have ih := pushes_reverse t
    simp only [TL.toList, List.flatMap_cons, List.reverse_append, ih, pops]
    congr 1
    cases h <;> simp [kidPush, TI.toInstr, popsI]

theorem preStep_seq {ar : TArena σ ι} {s sp} {t : TL σ ι} {rest out}
    (h : ar.get? s = some (sp, t.toList)) :
    preOrderStep evS evI evE ar (s :: rest, out) = (pops t ++ rest, out ++ ownEvents evS evI evE s sp t) := by
  unfold preOrderStep
  simp only [h]
  rw [pushes_reverse t]
  simp [ownEvents, List.append_assoc]

mutual
theorem simP_I (ar : TArena σ ι) : (i : TI σ ι) → ViewI ar i → ∀ rest out,
    ∃ n, preOrderRun evS evI evE ar n (popsI i ++ rest, out) = (rest, out ++ preKids evS evI evE i)
  | .leaf _, _, rest, out => ⟨0, by simp [preOrderRun, popsI, preKids]⟩
  | .one p s sp b, hv, rest, out => by
      cases hv with
      | one _ _ _ _ hc hb =>
        obtain ⟨n, hn⟩ := simP_L ar b hb rest (out ++ ownEvents evS evI evE s sp b)
        refine ⟨1 + n, ?_⟩
        rw [preOrderRun_add]
        simp only [preOrderRun, popsI, List.singleton_append, preStep_seq evS evI evE hc, hn]
        simp [preKids]
  | .two p c cp tc a ap ta, hv, rest, out => by
      cases hv with
      | two _ _ _ _ _ _ _ hc ha hvc hva =>
        obtain ⟨n1, h1⟩ := simP_L ar tc hvc (a :: rest) (out ++ ownEvents evS evI evE c cp tc)
        obtain ⟨n2, h2⟩ := simP_L ar ta hva rest
          (out ++ ownEvents evS evI evE c cp tc ++ preRev evS evI evE tc ++ ownEvents evS evI evE a ap ta)
        refine ⟨(1 + n1) + (1 + n2), ?_⟩
        have e1 : preOrderStep evS evI evE ar (c :: a :: rest, out) =
            (pops tc ++ a :: rest, out ++ ownEvents evS evI evE c cp tc) := preStep_seq evS evI evE hc
        have e2 : preOrderStep evS evI evE ar (a :: rest, out ++ ownEvents evS evI evE c cp tc ++ preRev evS evI evE tc) =
            (pops ta ++ rest, out ++ ownEvents evS evI evE c cp tc ++ preRev evS evI evE tc ++ ownEvents evS evI evE a ap ta) :=
          preStep_seq evS evI evE ha
        rw [preOrderRun_add, preOrderRun_add, preOrderRun_add]
        simp only [preOrderRun, popsI, List.cons_append, List.nil_append]
        rw [e1, h1, e2, h2]
        simp [preKids]
theorem simP_L (ar : TArena σ ι) : (t : TL σ ι) → ViewL ar t → ∀ rest out,
    ∃ n, preOrderRun evS evI evE ar n (pops t ++ rest, out) = (rest, out ++ preRev evS evI evE t)
  | .nil, _, rest, out => ⟨0, by simp [preOrderRun, pops, preRev]⟩
  | .cons h t, hv, rest, out => by
      cases hv with
      | cons _ _ hh ht =>
        obtain ⟨n1, h1⟩ := simP_L ar t ht (popsI h ++ rest) out
        obtain ⟨n2, h2⟩ := simP_I ar h hh rest (out ++ preRev evS evI evE t)
        refine ⟨n1 + n2, ?_⟩
        rw [preOrderRun_add]
        simp only [pops, List.append_assoc, h1, h2]
        simp [preRev]
end

/-- **pre-order traversal = recursive reference**: every sequence of the tree is scanned exactly
    once, each instruction's events are reported exactly once. -/
theorem dfsPreOrderMut_eq (ar : TArena σ ι) (entry : Nat) (sp : σ) (t : TL σ ι)
    (he : ar.get? entry = some (sp, t.toList)) (hv : ViewL ar t) :
    ∃ n, ∀ fuel, n ≤ fuel → dfsPreOrderMut evS evI evE ar fuel entry = ([], preSeq evS evI evE entry sp t) := by
  obtain ⟨n, hn⟩ := simP_L evS evI evE ar t hv [] ([] ++ ownEvents evS evI evE entry sp t)
  refine ⟨1 + n, fun fuel hf => ?_⟩
  obtain ⟨d, rfl⟩ := Nat.exists_eq_add_of_le hf
  unfold dfsPreOrderMut
  rw [preOrderRun_add, preOrderRun_add]
  simp only [preOrderRun, preStep_seq evS evI evE he]
  simp only [List.append_nil] at hn ⊢
  rw [hn, preOrderRun_done]
  simp [preSeq]

end
end Walrus
