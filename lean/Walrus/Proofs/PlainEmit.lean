import Walrus.Proofs.GcCodeEmit
import Walrus.Proofs.BodiesOK

/-!
Emission without a pass (C02, "immediately"): the type, function and code sections of every module
whose bodies are well-nested and parse emit — `emit ∘ parse` of the code-related sections never
fails to find an index, a branch target or a local.
-/
namespace Walrus

/-- the bodies of a code slice are well-nested, clean and parse in tree terms -/
def BodiesWFc (c : InCode) (pfs : List ParsedFunc) : Prop :=
  ∀ (k : Nat) (f : InFunc) (pf : ParsedFunc), c.funcs[k]? = some f → pfs[k]? = some pf →
    ∃ body endLoc is cs u, PL.WF body ∧ PL.Clean body ∧ f.ops = body.flat ++ [(opEnd, endLoc)] ∧
      expL (envOf c pf) [0] 1 false body = some (is, cs, u)

theorem BodiesWF_iff (m : ModuleM) (g : GcInfo) : BodiesWF m g ↔ BodiesWFc (codeOf m) g.pfs := Iff.rfl

/-- a kept type id has an index in the type map -/
theorem tyMapOf_total_gen (c : InCode) (k : Keep) (tid : Nat) (hr : tid < (distinctSigs c.sigs).length)
    (hk : k.types.contains tid = true) : (assoc (tyMapOf c k) tid).isSome = true := by
  unfold tyMapOf
  simp only
  have hmem : (tid, (distinctSigs c.sigs)[tid]) ∈
      sortBy (fun a b => sigLe a.2 b.2) (((distinctSigs c.sigs).zipIdx.map (fun p => (p.2, p.1))).filter
        (fun p => k.types.contains p.1)) := by
    rw [mem_sortBy, List.mem_filter]
    refine ⟨?_, hk⟩
    rw [List.mem_map]
    refine ⟨((distinctSigs c.sigs)[tid], tid), ?_, rfl⟩
    rw [List.mem_iff_getElem?]
    exact ⟨tid, by simp [hr]⟩
  exact assoc_zipIdx_key_some (fun q : Nat × Sig => q.1) _ _ 0 hmem

/-- a kept function has an index in the function map -/
theorem funcMapOf_total_gen (c : InCode) (pfs : List ParsedFunc) (hp : parseCode c = some pfs) (k : Keep)
    (f : Nat) (hr : f < c.importedFuncs + c.funcs.length) (hk : k.funcs.contains f = true) :
    (assoc (funcMapOf c pfs k) f).isSome = true := by
  unfold funcMapOf
  simp only
  have happ : ∀ (a b : List (Nat × Nat)), (assoc a f).isSome = true ∨ (assoc b f).isSome = true →
      (assoc (a ++ b) f).isSome = true := by
    intro a b h
    rw [assoc_append]
    rcases h with h | h
    · obtain ⟨x, hx⟩ := Option.isSome_iff_exists.1 h; simp [hx]
    · cases ha : assoc a f with
      | some x => simp
      | none => simpa using h
  apply happ
  by_cases hi : f < c.importedFuncs
  · left
    apply assoc_zipIdx_key_some (fun q : Nat => q) f
    rw [List.mem_filter]
    exact ⟨List.mem_range.2 hi, hk⟩
  · right
    obtain ⟨hl, hspec⟩ := parseCode_spec c pfs hp
    have hk' : f - c.importedFuncs < c.funcs.length := by omega
    obtain ⟨pf, hpf, hid, _⟩ := hspec (f - c.importedFuncs) c.funcs[f - c.importedFuncs] (by simp [hk'])
    have hid' : pf.id = f := by rw [hid]; omega
    have hmem : (pf, funcSize (PSeqs.toArena pf.seqs) 0) ∈
        sortBy (fun a b => decide (a.2 > b.2) || (a.2 == b.2 && decide (a.1.id ≤ b.1.id)))
          ((pfs.filter fun f => k.funcs.contains f.id).map fun f => (f, funcSize (PSeqs.toArena f.seqs) 0)) := by
      rw [mem_sortBy, List.mem_map]
      exact ⟨pf, List.mem_filter.2 ⟨List.mem_of_getElem? hpf, by simpa [hid'] using hk⟩, rfl⟩
    have := assoc_zipIdx_key_some (fun q : ParsedFunc × Nat => q.1.id) _ _ 0 hmem
    simp only [hid'] at this
    have gen : ∀ (l : List (ParsedFunc × Nat)) (s j : Nat),
        (assoc ((l.zipIdx s).map fun p => (p.1.1.id, p.2)) f).isSome = true →
        (assoc ((l.zipIdx s).map fun p => (p.1.1.id, j + p.2)) f).isSome = true := by
      intro l
      induction l with
      | nil => intro s j h; simp [assoc] at h
      | cons a r ih =>
        intro s j h
        simp only [List.zipIdx_cons, List.map_cons, assoc] at h ⊢
        split
        · rfl
        · rename_i hne
          simp only [hne, if_false] at h
          exact ih (s + 1) j h
    exact gen _ 0 _ this

theorem plain_body_emits (c : InCode) (pfs : List ParsedFunc) (hp : parseCode c = some pfs) (hb : BodiesWFc c pfs)
    (k : Nat) (pf : ParsedFunc) (hpf : pfs[k]? = some pf) (tyOf : Nat → String) :
    (emitBodyMarks (mapsOf c pfs (keepAll c pfs.length) (lmapOf pf tyOf)) (PSeqs.toArena pf.seqs) 0).isSome = true ∧
    (assoc (tyMapOf c (keepAll c pfs.length)) pf.ty).isSome = true := by
  obtain ⟨hl, hspec⟩ := parseCode_spec c pfs hp
  have hk' : k < c.funcs.length := by rw [← hl]; exact (List.getElem?_eq_some_iff.1 hpf).1
  have hfk : c.funcs[k]? = some c.funcs[k] := by simp [hk']
  obtain ⟨pf', hpf', hid, hty⟩ := hspec k _ hfk
  rw [hpf] at hpf'
  obtain rfl := Option.some.inj hpf'
  obtain ⟨pf'', hpf'', entryId, hent, hbuild⟩ := parseCode_body c pfs hp k _ hfk
  rw [hpf] at hpf''
  obtain rfl := Option.some.inj hpf''
  obtain ⟨body, endLoc, is, cs, u, hwf, hcl, hops, hexp⟩ := hb k _ pf hfk hpf
  have hty_total : ∀ y, y ∈ dedupIds c.sigs → (assoc (tyMapOf c (keepAll c pfs.length)) y).isSome = true := by
    intro y hy
    have hlt := dedupIds_lt c.sigs y hy
    exact tyMapOf_total_gen c _ y hlt (by simp [keepAll, hlt])
  constructor
  · obtain ⟨seqs, hbb, himp⟩ := parsed_body_emits (mapsOf c pfs (keepAll c pfs.length) (lmapOf pf tyOf))
      (envOf c pf) entryId body hwf hcl endLoc is cs u hexp
    rw [← hops, hbuild] at hbb
    obtain rfl := Option.some.inj hbb
    apply himp
    intro ev hev
    have hev' := List.mem_of_mem_tail hev
    cases ev with
    | instr i loc =>
      cases i with
      | leaf op =>
        intro sp n hmem hl' hsp hprov
        obtain ⟨i, hi⟩ := hprov
        by_cases hx : sp = "x"
        · subst hx
          have hu := usedLocals_mem _ op loc n hev' hmem
          obtain ⟨ix, hix⟩ := local_map_total pf.args tyOf _ n (Or.inr hu)
          have : (mapsOf c pfs (keepAll c pfs.length) (lmapOf pf tyOf)).get "x" n = assoc (lmapOf pf tyOf) n := by
            simp [mapsOf, IdMaps.get, keepAll]
          rw [this]
          simp only [lmapOf]
          rw [hix]; rfl
        · by_cases hf : sp = "f"
          · subst hf
            have hn : n < c.importedFuncs + c.funcs.length := by
              simp only [PEnv.get, envOf, if_true] at hi
              have := List.mem_of_getElem? hi
              simpa using this
            have := funcMapOf_total_gen c pfs hp (keepAll c pfs.length) n hn (by simp [keepAll, hl, hn])
            simpa [mapsOf, IdMaps.get, keepAll] using this
          · by_cases hy : sp = "y"
            · subst hy
              have := hty_total n (penv_get_y _ i n hi)
              simpa [mapsOf, IdMaps.get, keepAll] using this
            · -- tables, globals, memories, data and element segments keep their indices
              simp only [PEnv.get, hf, hy, hx, if_false, Option.some.injEq] at hi
              subst hi
              by_cases h1 : sp = "t"
              · subst h1; simp [mapsOf, IdMaps.get, keepAll]
              · by_cases h2 : sp = "g"
                · subst h2; simp [mapsOf, IdMaps.get, keepAll]
                · by_cases h3 : sp = "m"
                  · subst h3; simp [mapsOf, IdMaps.get, keepAll]
                  · by_cases h4 : sp = "d"
                    · subst h4; simp [mapsOf, IdMaps.get, keepAll]
                    · by_cases h5 : sp = "e"
                      · subst h5; simp [mapsOf, IdMaps.get, keepAll]
                      · simp [entSpaces] at hsp
                        rcases hsp with h | h | h | h | h | h | h | h | h <;> simp_all
      | _ => trivial
    | start s ty =>
      cases ty with
      | multi y =>
        intro hy
        exact hty_total y hy
      | _ => trivial
    | fin s l => trivial
  · exact hty_total pf.ty (List.mem_of_getElem? hty)

/-- **without a pass the code section emits**: `emit ∘ parse` of the type, function and code
    sections answers for every module whose bodies are well-nested and parse -/
theorem plain_code_emits (c : InCode) (pfs : List ParsedFunc) (hp : parseCode c = some pfs) (hb : BodiesWFc c pfs) :
    (emitCode c pfs).isSome = true := by
  unfold emitCode emitCodeWith
  simp only [Option.isSome_map]
  apply mapM_isSome
  intro p hp'
  rw [mem_sortBy, List.mem_map] at hp'
  obtain ⟨pf, hpfm, rfl⟩ := hp'
  obtain ⟨hpfs, _⟩ := List.mem_filter.1 hpfm
  obtain ⟨k, hk⟩ := List.getElem?_of_mem hpfs
  split
  · rfl
  · rename_i hneg
    obtain ⟨h1, h2⟩ := plain_body_emits c pfs hp hb k pf hk _
    obtain ⟨r1, hr1⟩ := Option.isSome_iff_exists.1 h1
    obtain ⟨t, ht⟩ := Option.isSome_iff_exists.1 h2
    exact (hneg r1.1 r1.2 t hr1 ht).elim

/-! ### the other sections, without a pass -/

theorem assoc_range'_id : ∀ (n s f : Nat), s ≤ f → f < s + n →
    assoc ((List.range' s n).map fun i => (i, i)) f = some f
  | 0, s, f, h1, h2 => by omega
  | n + 1, s, f, h1, h2 => by
    simp only [List.range'_succ, List.map_cons, assoc]
    split
    · rename_i h; rw [h]
    · rename_i h
      exact assoc_range'_id n (s + 1) f (by omega) (by omega)

theorem assoc_range_id (n f : Nat) (h : f < n) : assoc ((List.range n).map fun i => (i, i)) f = some f := by
  rw [List.range_eq_range']
  exact assoc_range'_id n 0 f (by omega) (by omega)

theorem assoc_append_isSome (a b : List (Nat × Nat)) (f : Nat)
    (h : (assoc a f).isSome = true ∨ (assoc b f).isSome = true) : (assoc (a ++ b) f).isSome = true := by
  rw [assoc_append]
  rcases h with h | h
  · obtain ⟨x, hx⟩ := Option.isSome_iff_exists.1 h; simp [hx]
  · cases ha : assoc a f with
    | some x => simp
    | none => simpa using h

theorem assoc_ids_shift (f j : Nat) : ∀ (l : List OutFunc) (s : Nat), f ∈ l.map (·.id) →
    (assoc ((l.zipIdx s).map (fun p => (p.1.id, j + p.2))) f).isSome = true
  | [], _, h => by cases h
  | a :: r, s, h => by
    simp only [List.zipIdx_cons, List.map_cons, assoc]
    split
    · rfl
    · rename_i hne
      rcases List.mem_cons.1 h with h | h
      · exact absurd h.symm hne
      · exact assoc_ids_shift f j r (s + 1) h

/-- the function map of the plain round trip has an index for every function of the module -/
theorem plain_funcMap_total (c : InCode) (pfs : List ParsedFunc) (hp : parseCode c = some pfs) (oc : OutCode)
    (hoc : emitCode c pfs = some oc) (f : Nat) (hf : f < c.importedFuncs + c.funcs.length) :
    (assoc ((List.range c.importedFuncs).map (fun i => (i, i)) ++
      oc.funcs.zipIdx.map (fun p => (p.1.id, c.importedFuncs + p.2))) f).isSome = true := by
  apply assoc_append_isSome
  by_cases hi : f < c.importedFuncs
  · left; rw [assoc_range_id _ _ hi]; rfl
  · right
    obtain ⟨hl, hspec⟩ := parseCode_spec c pfs hp
    have hk' : f - c.importedFuncs < c.funcs.length := by omega
    obtain ⟨pf, hpf, hid, _⟩ := hspec (f - c.importedFuncs) c.funcs[f - c.importedFuncs] (by simp [hk'])
    have hid' : pf.id = f := by rw [hid]; omega
    have := emitCodeWith_has_kept c pfs (keepAll c pfs.length) oc hoc pf (List.mem_of_getElem? hpf)
      (by simp [keepAll, hid', hl, hf])
    rw [hid'] at this
    exact assoc_ids_shift f _ oc.funcs 0 this

theorem cexpr_plain_emits (funcMap tyMap : List (Nat × Nat)) (n : Nat) (c : CExprM) (hc : cexprOK c = true)
    (hf : cexprFuncsBelow n c = true) (hfm : ∀ f, f < n → (assoc funcMap f).isSome = true) :
    (mapCExpr { funcs := funcMap, types := tyMap, identity := ["t", "g", "m", "d", "e"] } c).isSome = true := by
  rw [C02.mapCExpr_isSome_iff]
  intro op hop sp id hr
  have h1 := cexprOK_sound c hc op hop sp id hr
  simp only [cexprFuncsBelow, List.all_eq_true] at hf
  have h2 := hf op hop _ hr
  rcases h1 with rfl | rfl
  · simp [IdMaps.get]
  · simp only [decide_eq_true_eq] at h2
    simpa [IdMaps.get] using hfm id h2

/-- **without a pass the whole module emits**: if the model's parse of the code-related sections
    succeeds, the bodies are well-nested and clean and the references of the other sections are in
    range and well-shaped (all decidable, all guaranteed by decoding and validation), the model's
    `parse → emit` answers with a module -/
theorem plain_module_emits (m : ModuleM) (pfs : List ParsedFunc) (hlen : m.code.length = m.funcs.length)
    (hp : parseCode (codeOf m) = some pfs) (hb : BodiesWFc (codeOf m) pfs)
    (hs : sectionsOK m = true) (hr : funcRefsOK m = true) :
    (roundTripModule m).isSome = true := by
  obtain ⟨oc, hoc⟩ := Option.isSome_iff_exists.1 (plain_code_emits (codeOf m) pfs hp hb)
  have hfm := plain_funcMap_total (codeOf m) pfs hp oc hoc
  have hN : (codeOf m).importedFuncs + (codeOf m).funcs.length = importedCount m "f" + m.funcs.length := by
    rw [codeOf_funcs_length m hlen]; rfl
  rw [hN] at hfm
  have hsw := sectionsOK_sound m hs
  simp only [sectionsOK, Bool.and_eq_true, List.all_eq_true] at hs
  obtain ⟨⟨⟨⟨⟨hs1, hs2⟩, hs3⟩, hs4⟩, hs5⟩, hs6⟩ := hs
  simp only [funcRefsOK, Bool.and_eq_true, List.all_eq_true] at hr
  obtain ⟨⟨⟨⟨⟨hr1, hr2⟩, hr3⟩, hr4⟩, hr5⟩, hr6⟩ := hr
  unfold roundTripModule
  have hp' : parseCode ⟨m.sigs, importedCount m "f", m.code.zip m.funcs |>.map fun p => ⟨p.2, p.1.1, p.1.2⟩⟩ = some pfs := hp
  have hoc' : emitCode ⟨m.sigs, importedCount m "f", m.code.zip m.funcs |>.map fun p => ⟨p.2, p.1.1, p.1.2⟩⟩ pfs = some oc := hoc
  simp only [hlen, ne_eq, not_true_eq_false, if_false, hp', hoc']
  split
  · rfl
  · rename_i hneg
    refine (hneg _ _ _ _ _ _ (Option.some_get ?h1).symm (Option.some_get ?h2).symm (Option.some_get ?h3).symm
      (Option.some_get ?h4).symm (Option.some_get ?h5).symm (Option.some_get ?h6).symm).elim
    case h1 =>
      -- imports: the type of a function import has a type index
      rw [C02.mapM_isSome_iff]
      intro i hi
      cases hd : i.2.2 with
      | func t =>
        simp only [Option.isSome_map]
        have htlt : t < m.sigs.length := hsw.importTypes i hi t hd
        obtain ⟨tid, htid, hds⟩ := C19.type_index_denotes_its_signature m.sigs t m.sigs[t] (by simp [htlt])
        have htidlt : tid < (distinctSigs m.sigs).length := (List.getElem?_eq_some_iff.1 hds).1
        rw [htid]
        simp only [Option.bind_some]
        have hmem : (tid, (distinctSigs m.sigs)[tid]) ∈
            sortBy (fun a b => sigLe a.2 b.2) ((distinctSigs m.sigs).zipIdx.map (fun p => (p.2, p.1))) := by
          rw [mem_sortBy, List.mem_map]
          refine ⟨((distinctSigs m.sigs)[tid], tid), ?_, rfl⟩
          rw [List.mem_iff_getElem?]
          exact ⟨tid, by simp [htidlt]⟩
        exact assoc_zipIdx_key_some (fun q : Nat × Sig => q.1) _ _ 0 hmem
      | _ => rfl
    case h2 =>
      rw [C02.mapM_isSome_iff]
      intro gl hgl
      rw [Option.isSome_map]
      exact cexpr_plain_emits _ _ _ gl.2 (hs2 gl hgl) (hr3 gl hgl) hfm
    case h3 =>
      rw [C02.mapM_isSome_iff]
      intro e he
      split
      · rename_i hk
        rw [Option.isSome_map]
        have := hr1 e he
        simp only [hk, bne_self_eq_false, Bool.false_or, decide_eq_true_eq] at this
        exact hfm _ this
      · rfl
    case h4 =>
      cases hst : m.start with
      | none => rfl
      | some s =>
        simp only [hst, decide_eq_true_eq] at hr2
        simp only [Option.isSome_map]
        exact hfm s hr2
    case h5 =>
      rw [C02.mapM_isSome_iff]
      intro e he
      apply rtElem_isSome
      · intro t off hm
        have h1 := hs4 e he
        have h2 := hr5 e he
        rw [hm] at h1 h2
        exact cexpr_plain_emits _ _ _ off (by
          simp only [offsetOK, cexprOK, List.all_eq_true] at h1 ⊢
          intro op hop a ha
          have := h1 op hop a ha
          cases a <;> simp_all) h2 hfm
      · intro fs hfs f hf
        have := hr6 e he
        rw [hfs] at this
        simp only [List.all_eq_true, decide_eq_true_eq] at this
        exact hfm f (this f hf)
      · intro ty es hes c hc
        have h1 := hs5 e he
        have h2 := hr6 e he
        rw [hes] at h1 h2
        simp only [List.all_eq_true] at h1 h2
        exact cexpr_plain_emits _ _ _ c (h1 c hc) (h2 c hc) hfm
    case h6 =>
      rw [C02.mapM_isSome_iff]
      intro d hd
      cases hm : d.mode with
      | active mem off =>
        have h1 := hs3 d hd
        have h2 := hr4 d hd
        rw [hm] at h1 h2
        simp only [rtData, hm, Option.isSome_map]
        exact cexpr_plain_emits _ _ _ off (by
          simp only [offsetOK, cexprOK, List.all_eq_true] at h1 ⊢
          intro op hop a ha
          have := h1 op hop a ha
          cases a <;> simp_all) h2 hfm
      | passive => simp [rtData, hm]

/-- the decidable check of the bodies implies `BodiesWFc` -/
theorem bodiesOKc_sound (m : ModuleM) (pfs : List ParsedFunc) (h : bodiesOKc m pfs = true) :
    BodiesWFc (codeOf m) pfs := by
  intro k f pf hf hpf
  have hk : k < pfs.length := (List.getElem?_eq_some_iff.1 hpf).1
  simp only [bodiesOKc, List.all_eq_true, List.mem_range] at h
  have hk' := h k hk
  simp only [codeOf, List.getElem?_map, Option.map_eq_some_iff] at hf
  obtain ⟨p, hp, rfl⟩ := hf
  obtain ⟨⟨locals, ops⟩, fi⟩ := p
  obtain ⟨hc, _⟩ := List.getElem?_zip_eq_some.1 hp
  rw [hc, hpf] at hk'
  simp only [bodyOK] at hk'
  cases hu : unflat ops with
  | none => simp [hu] at hk'
  | some r =>
    obtain ⟨body, endLoc⟩ := r
    simp only [hu, Bool.and_eq_true, decide_eq_true_eq] at hk'
    obtain ⟨⟨⟨hflat, hwf⟩, hcl⟩, hexp⟩ := hk'
    have henv : envOf (codeOf m) pf =
        { funcs := List.range (importedCount m "f" + (m.code.zip m.funcs).length), types := dedupIds m.sigs,
          locals := pf.localTys.map (·.1), sigs := m.sigs } := by
      simp [envOf, codeOf]
    rw [← henv] at hexp
    obtain ⟨r, hr⟩ := Option.isSome_iff_exists.1 hexp
    obtain ⟨is, cs, u⟩ := r
    exact ⟨body, endLoc, is, cs, u, wfB_L body hwf, cleanB_L body hcl, hflat, hr⟩

end Walrus
