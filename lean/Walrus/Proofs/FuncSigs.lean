import Walrus.Proofs.Names

/-! Every local function keeps its signature through the round trip (C04). -/
namespace Walrus

/-- the parse of the code sections hands out function ids in order and records, for each function,
    the TypeId of its declared type index -/
theorem parseCode_go_spec (c : InCode) : ∀ (fs : List InFunc) (k nextLocal : Nat) (entrySeen : List (List String))
    (acc : List ParsedFunc) (res : List ParsedFunc),
    parseCode.go c (dedupIds c.sigs) (distinctSigs c.sigs).length (List.range (c.importedFuncs + c.funcs.length))
      fs k nextLocal entrySeen acc = some res →
    res.length = acc.length + fs.length ∧
    (∀ j, j < acc.length → res[j]? = acc.reverse[j]?) ∧
    (∀ j (f : InFunc), fs[j]? = some f → ∃ pf, res[acc.length + j]? = some pf ∧ pf.id = c.importedFuncs + k + j ∧
        (dedupIds c.sigs)[f.tyIdx]? = some pf.ty)
  | [], k, nl, es, acc, res, h => by
    simp only [parseCode.go, Option.some.injEq] at h
    subst h
    refine ⟨by simp, fun j _ => rfl, ?_⟩
    intro j f hf; simp at hf
  | f :: r, k, nl, es, acc, res, h => by
    simp only [parseCode.go] at h
    split at h
    · rename_i ps rs tid hs ht
      split at h
      · cases h
      · rename_i seqs hb
        obtain ⟨h1, h2, h3⟩ := parseCode_go_spec c r (k + 1) _ _ _ res h
        refine ⟨by simp at h1 ⊢; omega, ?_, ?_⟩
        · intro j hj
          have := h2 j (by simp; omega)
          rw [this]
          simp only [List.reverse_cons]
          rw [List.getElem?_append_left (by simp; exact hj)]
        · intro j g hg
          cases j with
          | zero =>
            simp only [List.getElem?_cons_zero, Option.some.injEq] at hg
            subst hg
            have := h2 acc.length (by simp)
            simp only [List.reverse_cons, List.length_reverse, Nat.lt_irrefl, not_false_eq_true,
              List.getElem?_append_right, Nat.le_refl, Nat.sub_self, List.getElem?_cons_zero] at this
            refine ⟨_, by simpa using this, by simp, ?_⟩
            simpa using ht
          | succ j' =>
            have hg' : r[j']? = some g := by simpa using hg
            obtain ⟨pf, hpf, hid, hty⟩ := h3 j' g hg'
            refine ⟨pf, ?_, by omega, hty⟩
            have : (⟨c.importedFuncs + k, tid, (List.range' nl (ps ++ expandLocals f.locals).length).take ps.length,
                (List.range' nl (ps ++ expandLocals f.locals).length).zip (ps ++ expandLocals f.locals), seqs⟩ :: acc).length + j' = acc.length + (j' + 1) := by
              simp; omega
            rw [← this]; exact hpf
    · cases h


theorem parseCode_spec (c : InCode) (pfs : List ParsedFunc) (h : parseCode c = some pfs) :
    pfs.length = c.funcs.length ∧
    ∀ k (f : InFunc), c.funcs[k]? = some f → ∃ pf, pfs[k]? = some pf ∧ pf.id = c.importedFuncs + k ∧
      (dedupIds c.sigs)[f.tyIdx]? = some pf.ty := by
  unfold parseCode at h
  obtain ⟨h1, _, h3⟩ := parseCode_go_spec c c.funcs 0 0 [] [] pfs h
  refine ⟨by simpa using h1, ?_⟩
  intro k f hf
  obtain ⟨pf, hpf, hid, hty⟩ := h3 k f hf
  exact ⟨pf, by simpa using hpf, by simpa using hid, hty⟩

/-- **every emitted function has the signature of the input function it came from** (identified by
    its id = imported functions + position in the input): through type de-duplication, type
    sorting and the size-sorted function order -/
theorem emitted_function_keeps_signature (c : InCode) (pfs : List ParsedFunc) (oc : OutCode)
    (hp : parseCode c = some pfs) (he : emitCode c pfs = some oc) (j : Nat) (f : OutFunc)
    (hj : oc.funcs[j]? = some f) :
    ∃ k inF sg, c.funcs[k]? = some inF ∧ f.id = c.importedFuncs + k ∧
      c.sigs[inF.tyIdx]? = some sg ∧ oc.sigs[f.tyIdx]? = some sg := by
  obtain ⟨hlen, hspec⟩ := parseCode_spec c pfs hp
  have hsigs := emitCode_sigs c pfs oc he
  unfold emitCode emitCodeWith keepAll at he
  simp only [Option.map_eq_some_iff] at he
  obtain ⟨fs, hfs, rfl⟩ := he
  simp only at hj hsigs
  -- the j-th emitted function comes from the j-th entry of the sorted list
  have hlen2 := mapM_some_length _ _ _ hfs
  have hjlt : j < fs.length := (List.getElem?_eq_some_iff.1 hj).1
  obtain ⟨p, hp2⟩ : ∃ p, (sortBy (fun a b => decide (a.2 > b.2) || (a.2 == b.2 && decide (a.1.id ≤ b.1.id)))
      ((pfs.filter fun f => (List.range (c.importedFuncs + pfs.length)).contains f.id).map fun f =>
        (f, funcSize (PSeqs.toArena f.seqs) 0)))[j]? = some p := by
    rw [hlen2] at hjlt
    exact ⟨_, List.getElem?_eq_getElem hjlt⟩
  obtain ⟨f', hf', hfe⟩ := mapM_some_get _ _ _ hfs j p hp2
  rw [hj] at hf'
  injection hf' with hf'
  subst hf'
  -- p.1 is one of the parsed functions
  have hmem : p ∈ sortBy (fun a b => decide (a.2 > b.2) || (a.2 == b.2 && decide (a.1.id ≤ b.1.id)))
      ((pfs.filter fun f => (List.range (c.importedFuncs + pfs.length)).contains f.id).map fun f =>
        (f, funcSize (PSeqs.toArena f.seqs) 0)) := List.mem_of_getElem? hp2
  rw [mem_sortBy, List.mem_map] at hmem
  obtain ⟨pf, hpf, hpe⟩ := hmem
  have hpfm : pf ∈ pfs := (List.mem_filter.1 hpf).1
  obtain ⟨k, hk⟩ := List.getElem?_of_mem hpfm
  have hklt : k < c.funcs.length := by
    rw [← hlen]; exact (List.getElem?_eq_some_iff.1 hk).1
  obtain ⟨pf2, hpf2, hid, hty⟩ := hspec k c.funcs[k] (by simp [hklt])
  rw [hk] at hpf2
  injection hpf2 with hpf2
  subst hpf2
  -- the emitted record
  split at hfe
  · rename_i ops marks t _ hty2
    injection hfe with hfe
    subst hfe
    have hp1 : p.1 = pf := by rw [← hpe]
    simp only [hp1] at hty2 ⊢
    -- the signature at the input type index
    have hti : c.funcs[k].tyIdx < c.sigs.length := by
      rcases Nat.lt_or_ge c.funcs[k].tyIdx c.sigs.length with h1 | h1
      · exact h1
      · simp [dedupIds, h1] at hty
    obtain ⟨id, hid2, hds⟩ := C19.type_index_denotes_its_signature c.sigs c.funcs[k].tyIdx c.sigs[c.funcs[k].tyIdx] (by simp [hti])
    rw [hid2] at hty
    injection hty with hty
    refine ⟨k, c.funcs[k], c.sigs[c.funcs[k].tyIdx], by simp [hklt], hid, by simp [hti], ?_⟩
    -- where that TypeId is emitted
    have hfilter : ((distinctSigs c.sigs).zipIdx.map fun p => (p.2, p.1)).filter
        (fun p => (List.range (distinctSigs c.sigs).length).contains p.1) =
        (distinctSigs c.sigs).zipIdx.map fun p => (p.2, p.1) := by
      apply filter_all_range
      intro q hq
      simp only [List.mem_map] at hq
      obtain ⟨r, hr, rfl⟩ := hq
      have := List.mem_zipIdx hr
      simpa using this.2.1
    rw [hfilter] at hty2
    obtain ⟨_, hpos⟩ := assoc_zipIdx_pos (fun q : Nat × Sig => q.1) _ 0 pf.ty t hty2
    simp only [Nat.sub_zero, Option.map_eq_some_iff] at hpos
    obtain ⟨e, he1, he2⟩ := hpos
    have hem := List.mem_of_getElem? he1
    rw [mem_sortBy, List.mem_map] at hem
    obtain ⟨r, hr, hre⟩ := hem
    have hz := List.mem_zipIdx hr
    obtain ⟨e1, e2⟩ := e
    simp only [Prod.mk.injEq] at hre
    obtain ⟨hr2, hr1⟩ := hre
    simp only at he2
    rw [hsigs, List.getElem?_map, he1]
    simp only [Option.map_some, Option.some.injEq]
    have h3 := hz.2.2
    simp only [Nat.sub_zero] at h3
    rw [← hr1, h3]
    have : (distinctSigs c.sigs)[r.2]? = some c.sigs[c.funcs[k].tyIdx] := by
      rw [hr2, he2, ← hty]; exact hds
    rw [List.getElem?_eq_some_iff] at this
    exact this.2
  · cases hfe

/-- a type index of the input, sent through type de-duplication (`dedupIds`) and the sorted type
    section (`tyMap`), names the same signature in the output's type section -/
theorem type_index_keeps_signature (sigs : List Sig) (t t' : Nat)
    (h : ((dedupIds sigs)[t]?).bind (assoc ((sortBy (fun a b => sigLe a.2 b.2)
          ((distinctSigs sigs).zipIdx.map fun p => (p.2, p.1))).zipIdx.map (fun p => (p.1.1, p.2)))) = some t') :
    ∃ sg, sigs[t]? = some sg ∧
      ((sortBy (fun a b => sigLe a.2 b.2) ((distinctSigs sigs).zipIdx.map fun p => (p.2, p.1))).map (·.2))[t']? = some sg := by
  have hti : t < sigs.length := by
    rcases Nat.lt_or_ge t sigs.length with h1 | h1
    · exact h1
    · simp [dedupIds, h1] at h
  obtain ⟨id, hid2, hds⟩ := C19.type_index_denotes_its_signature sigs t sigs[t] (by simp [hti])
  rw [hid2] at h
  simp only [Option.bind_some] at h
  refine ⟨sigs[t], by simp [hti], ?_⟩
  obtain ⟨_, hpos⟩ := assoc_zipIdx_pos (fun q : Nat × Sig => q.1) _ 0 id t' h
  simp only [Nat.sub_zero, Option.map_eq_some_iff] at hpos
  obtain ⟨e, he1, he2⟩ := hpos
  have hem := List.mem_of_getElem? he1
  rw [mem_sortBy, List.mem_map] at hem
  obtain ⟨r, hr, hre⟩ := hem
  have hz := List.mem_zipIdx hr
  obtain ⟨e1, e2⟩ := e
  simp only [Prod.mk.injEq] at hre
  obtain ⟨hr2, hr1⟩ := hre
  simp only at he2
  rw [List.getElem?_map, he1]
  simp only [Option.map_some, Option.some.injEq]
  have h3 := hz.2.2
  simp only [Nat.sub_zero] at h3
  rw [← hr1, h3]
  have : (distinctSigs sigs)[r.2]? = some sigs[t] := by
    rw [hr2, he2]; exact hds
  rw [List.getElem?_eq_some_iff] at this
  exact this.2

/-- **every function import keeps its signature**: the `k`-th import of the output, when the input's
    `k`-th import is a function of type index `t`, is a function whose type index names, in the
    output's type section, the signature `t` named in the input's -/
theorem roundTrip_import_sigs (m o : ModuleM) (h : roundTripModule m = some o) :
    ∀ (k : Nat) (a b : String) (t : Nat), m.imports[k]? = some (a, b, .func t) →
      ∃ t' sg, o.imports[k]? = some (a, b, .func t') ∧ m.sigs[t]? = some sg ∧ o.sigs[t']? = some sg := by
  unfold roundTripModule at h
  simp only at h
  split at h
  · cases h
  · split at h
    · cases h
    · rename_i pfs hpfs
      split at h
      · cases h
      · rename_i oc hoc
        split at h
        · rename_i im gl ex st el da him hgl hex hst hel hda
          simp only [Option.some.injEq] at h
          subst h
          intro k a b t hk
          obtain ⟨j, hj, hf⟩ := mapM_some_get _ _ _ him k _ hk
          simp only [Option.map_eq_some_iff] at hf
          obtain ⟨t', ht', rfl⟩ := hf
          have hsigs := emitCode_sigs _ pfs oc hoc
          simp only at hsigs
          obtain ⟨sg, h1, h2⟩ := type_index_keeps_signature m.sigs t t' ht'
          exact ⟨t', sg, hj, h1, by rw [hsigs]; exact h2⟩
        · cases h

theorem mapM_some_map_key {α β : Type} (f : α → Option β) (ka : α → Nat) (kb : β → Nat)
    (hk : ∀ a b, f a = some b → kb b = ka a) : ∀ (l : List α) (l' : List β),
    l.mapM f = some l' → l'.map kb = l.map ka
  | [], l', h => by simp at h; subst h; rfl
  | a :: as, l', h => by
    simp only [List.mapM_cons, Option.bind_eq_bind] at h
    cases ha : f a with
    | none => simp [ha] at h
    | some b =>
      cases hr : as.mapM f with
      | none => simp [ha, hr] at h
      | some bs =>
        simp [ha, hr] at h
        subst h
        simp [hk a b ha, mapM_some_map_key f ka kb hk as bs hr]

/-- the function ids of the emitted code section are pairwise distinct: the hypothesis of
    `C19.emitted_function_index_exact` holds for what `emitCode` writes -/
theorem emitCode_ids_nodup (c : InCode) (pfs : List ParsedFunc) (oc : OutCode)
    (hp : parseCode c = some pfs) (he : emitCode c pfs = some oc) : (oc.funcs.map (·.id)).Nodup := by
  obtain ⟨hlen, hspec⟩ := parseCode_spec c pfs hp
  unfold emitCode emitCodeWith keepAll at he
  simp only [Option.map_eq_some_iff] at he
  obtain ⟨fs, hfs, rfl⟩ := he
  simp only
  have hmap := mapM_some_map_key _ (fun p : ParsedFunc × Nat => p.1.id) (fun f : OutFunc => f.id) (by
    intro a b hab
    split at hab
    · injection hab with hab; subst hab; rfl
    · cases hab) _ _ hfs
  rw [hmap]
  refine ((sortBy_perm _ _).map _).nodup_iff.2 ?_
  rw [List.map_map]
  -- ids of the parsed functions are importedFuncs + position
  have hids : pfs.map (·.id) = (List.range pfs.length).map (c.importedFuncs + ·) := by
    apply List.ext_getElem?
    intro k
    by_cases hk : k < pfs.length
    · have hk' : k < c.funcs.length := hlen ▸ hk
      obtain ⟨pf, hpf, hid, _⟩ := hspec k c.funcs[k] (by simp [hk'])
      have hget : pfs[k] = pf := (List.getElem?_eq_some_iff.1 hpf).2
      simp [hk, hget, hid]
    · simp [hk]
  have hnd : (pfs.map (·.id)).Nodup := by
    rw [hids]
    rw [← List.range'_eq_map_range]
    exact List.nodup_range' (step := 1)
  exact (List.Sublist.map _ List.filter_sublist).nodup hnd

/-- **every local function is emitted exactly once**: the ids of the emitted functions are a
    permutation of the ids the parse handed out (`importedFuncs + position` for each function of
    the input's code section) -/
theorem emitCode_ids_perm (c : InCode) (pfs : List ParsedFunc) (oc : OutCode)
    (hp : parseCode c = some pfs) (he : emitCode c pfs = some oc) :
    (oc.funcs.map (·.id)).Perm ((List.range c.funcs.length).map (c.importedFuncs + ·)) := by
  obtain ⟨hlen, hspec⟩ := parseCode_spec c pfs hp
  unfold emitCode emitCodeWith keepAll at he
  simp only [Option.map_eq_some_iff] at he
  obtain ⟨fs, hfs, rfl⟩ := he
  simp only
  have hmap := mapM_some_map_key _ (fun p : ParsedFunc × Nat => p.1.id) (fun f : OutFunc => f.id) (by
    intro a b hab
    split at hab
    · injection hab with hab; subst hab; rfl
    · cases hab) _ _ hfs
  rw [hmap]
  refine ((sortBy_perm _ _).map _).trans ?_
  rw [List.map_map]
  have hids : pfs.map (·.id) = (List.range pfs.length).map (c.importedFuncs + ·) := by
    apply List.ext_getElem?
    intro k
    by_cases hk : k < pfs.length
    · have hk' : k < c.funcs.length := hlen ▸ hk
      obtain ⟨pf, hpf, hid, _⟩ := hspec k c.funcs[k] (by simp [hk'])
      have hget : pfs[k] = pf := (List.getElem?_eq_some_iff.1 hpf).2
      simp [hk, hget, hid]
    · simp [hk]
  have hall : pfs.filter (fun f => (List.range (c.importedFuncs + pfs.length)).contains f.id) = pfs := by
    rw [List.filter_eq_self]
    intro a ha
    have : a.id ∈ pfs.map (·.id) := List.mem_map.2 ⟨a, ha, rfl⟩
    rw [hids] at this
    simp only [List.mem_map, List.mem_range] at this
    obtain ⟨k, hk, hk2⟩ := this
    simp only [List.contains_eq_mem, List.mem_range, decide_eq_true_eq]
    omega
  rw [hall]
  have : (List.map ((fun p : ParsedFunc × Nat => p.1.id) ∘ fun f => (f, funcSize (PSeqs.toArena f.seqs) 0)) pfs) = pfs.map (·.id) := by
    apply List.map_congr_left; intro a _; rfl
  rw [this, hids, hlen]

end Walrus
